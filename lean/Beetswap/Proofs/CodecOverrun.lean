import Beetswap.Proofs.CodecCheck
/-!
A frame body accepted by `Frame.checkNesting` never drives the quick-protobuf reader model
across the end of a slice (`PRes.overrun`).
-/
namespace Beetswap.Proofs.Codec
open Beetswap Beetswap.Proto Beetswap.Frame Beetswap.Spec.Wire Beetswap.Spec.Limit

/-! ### `readVarint` against quick-protobuf's varint readers -/

theorem readVarintAux_ten (acc : Nat) (bs : List Nat) (i : Nat) (hi : 10 ≤ i) :
    readVarintAux i acc bs = none := by
  cases bs with
  | nil => rfl
  | cons b bs => simp [readVarintAux, hi]

theorem u8_slice (b : Nat) (bs tail : List Nat) :
    u8 (b :: bs ++ tail) (b :: bs).length = .ok b (bs ++ tail) bs.length := by
  simp [u8]

theorem readVarintAux_length : ∀ (bs : List Nat) (i acc v : Nat) (r : List Nat),
    readVarintAux i acc bs = some (v, r) → r.length < bs.length := by
  intro bs
  induction bs with
  | nil => intro i acc v r h; simp [readVarintAux] at h
  | cons b bs ih =>
    intro i acc v r h
    simp only [readVarintAux] at h
    split at h
    · cases h
    · split at h
      · cases h; simp
      · have := ih _ _ _ _ h
        simp only [List.length_cons]; omega

theorem readVarint_length {bs : List Nat} {v : Nat} {r : List Nat}
    (h : readVarint bs = some (v, r)) : r.length < bs.length :=
  readVarintAux_length bs 0 0 v r h

theorem varint64Aux_of_readVarintAux : ∀ (j i : Nat) (bs : List Nat) (acc v : Nat)
    (r tail : List Nat), i + j = 9 → acc < 2 ^ (7 * i) → readVarintAux i acc bs = some (v, r) →
    varint64Aux j acc (bs ++ tail) bs.length = .ok v (r ++ tail) r.length := by
  intro j
  induction j with
  | zero =>
    intro i bs acc v r tail hij hacc h
    obtain rfl : i = 9 := by omega
    cases bs with
    | nil => simp [readVarintAux] at h
    | cons b bs =>
      simp only [readVarintAux] at h
      rw [varint64Aux, u8_slice]
      split at h
      · cases h
      · split at h
        · rename_i hb
          cases h
          simp only [hb, if_true]
          congr 1
          simp at hacc ⊢
          omega
        · rw [readVarintAux_ten _ _ _ (by omega)] at h; cases h
  | succ j ih =>
    intro i bs acc v r tail hij hacc h
    have hi' : i = 0 ∨ i = 1 ∨ i = 2 ∨ i = 3 ∨ i = 4 ∨ i = 5 ∨ i = 6 ∨ i = 7 ∨ i = 8 := by omega
    cases bs with
    | nil => simp [readVarintAux] at h
    | cons b bs =>
      simp only [readVarintAux] at h
      rw [varint64Aux, u8_slice]
      have e : 9 - (j + 1) = i := by omega
      have hmod : (acc + b % 128 * 2 ^ (7 * i)) % 2 ^ 64 = acc + b % 128 * 2 ^ (7 * i) := by
        rcases hi' with rfl | rfl | rfl | rfl | rfl | rfl | rfl | rfl | rfl <;>
          simp at hacc ⊢ <;> omega
      have hlt : acc + b % 128 * 2 ^ (7 * i) < 2 ^ (7 * (i + 1)) := by
        rcases hi' with rfl | rfl | rfl | rfl | rfl | rfl | rfl | rfl | rfl <;>
          simp at hacc ⊢ <;> omega
      rw [hmod] at h
      simp only [e]
      split at h
      · omega
      · split at h
        · rename_i hb
          cases h
          simp only [hb, if_true]
        · rename_i hb
          simp only [hb, if_false]
          exact ih (i + 1) bs _ v r tail (by omega) hlt h

theorem readVarint64_of_readVarint {bs : List Nat} {v : Nat} {r : List Nat} (tail : List Nat)
    (h : readVarint bs = some (v, r)) :
    readVarint64 (bs ++ tail) bs.length = .ok v (r ++ tail) r.length :=
  varint64Aux_of_readVarintAux 9 0 bs 0 v r tail (by omega) (by simp) h

theorem skipCont_of_readVarintAux : ∀ (k i : Nat) (bs : List Nat) (acc v x : Nat)
    (r tail : List Nat), i + k = 10 → 5 ≤ i → readVarintAux i acc bs = some (v, r) →
    skipCont k x (bs ++ tail) bs.length = .ok x (r ++ tail) r.length
      ∧ v % 2 ^ 32 = acc % 2 ^ 32 := by
  intro k
  induction k with
  | zero =>
    intro i bs acc v x r tail hik _ h
    rw [readVarintAux_ten _ _ _ (by omega)] at h; cases h
  | succ k ih =>
    intro i bs acc v x r tail hik hi h
    have hi' : i = 5 ∨ i = 6 ∨ i = 7 ∨ i = 8 ∨ i = 9 := by omega
    cases bs with
    | nil => simp [readVarintAux] at h
    | cons b bs =>
      simp only [readVarintAux] at h
      rw [skipCont, u8_slice]
      have hmod : (acc + b % 128 * 2 ^ (7 * i)) % 2 ^ 64 % 2 ^ 32 = acc % 2 ^ 32 := by
        rcases hi' with rfl | rfl | rfl | rfl | rfl <;> simp <;> omega
      split at h
      · omega
      · split at h
        · rename_i hb
          cases h
          simp only [hb, if_true]
          exact ⟨trivial, hmod⟩
        · rename_i hb
          simp only [hb, if_false]
          obtain ⟨h1, h2⟩ := ih (i + 1) bs _ v x r tail (by omega) (by omega) h
          exact ⟨h1, h2.trans hmod⟩

theorem varint32Aux_of_readVarintAux : ∀ (j i : Nat) (bs : List Nat) (acc v : Nat)
    (r tail : List Nat), i + j = 4 → acc < 2 ^ (7 * i) → readVarintAux i acc bs = some (v, r) →
    varint32Aux j acc (bs ++ tail) bs.length = .ok (v % 2 ^ 32) (r ++ tail) r.length := by
  intro j
  induction j with
  | zero =>
    intro i bs acc v r tail hij hacc h
    obtain rfl : i = 4 := by omega
    cases bs with
    | nil => simp [readVarintAux] at h
    | cons b bs =>
      simp only [readVarintAux] at h
      rw [varint32Aux, u8_slice]
      have hx : (acc + b % 128 * 2 ^ (7 * 4)) % 2 ^ 64 % 2 ^ 32 = acc + b % 16 * 2 ^ 28 := by
        simp at hacc ⊢; omega
      split at h
      · omega
      · split at h
        · rename_i hb
          cases h
          simp only [hb, if_true]
          rw [hx]
        · rename_i hb
          simp only [hb, if_false]
          obtain ⟨h1, h2⟩ := skipCont_of_readVarintAux 5 5 bs _ v (acc + b % 16 * 2 ^ 28) r tail
            (by omega) (by omega) h
          rw [h1, h2, hx]
  | succ j ih =>
    intro i bs acc v r tail hij hacc h
    have hi' : i = 0 ∨ i = 1 ∨ i = 2 ∨ i = 3 := by omega
    cases bs with
    | nil => simp [readVarintAux] at h
    | cons b bs =>
      simp only [readVarintAux] at h
      rw [varint32Aux, u8_slice]
      have e : 4 - (j + 1) = i := by omega
      have hmod : (acc + b % 128 * 2 ^ (7 * i)) % 2 ^ 64 = acc + b % 128 * 2 ^ (7 * i) := by
        rcases hi' with rfl | rfl | rfl | rfl <;> simp at hacc ⊢ <;> omega
      have hlt : acc + b % 128 * 2 ^ (7 * i) < 2 ^ (7 * (i + 1)) := by
        rcases hi' with rfl | rfl | rfl | rfl <;> simp at hacc ⊢ <;> omega
      have hlt32 : (acc + b % 128 * 2 ^ (7 * i)) % 2 ^ 32 = acc + b % 128 * 2 ^ (7 * i) := by
        rcases hi' with rfl | rfl | rfl | rfl <;> simp at hacc ⊢ <;> omega
      rw [hmod] at h
      simp only [e]
      split at h
      · omega
      · split at h
        · rename_i hb
          cases h
          simp only [hb, if_true, hlt32]
        · rename_i hb
          simp only [hb, if_false]
          exact ih (i + 1) bs _ v r tail (by omega) hlt h

theorem readVarint32_of_readVarint {bs : List Nat} {v : Nat} {r : List Nat} (tail : List Nat)
    (h : readVarint bs = some (v, r)) :
    readVarint32 (bs ++ tail) bs.length = .ok (v % 2 ^ 32) (r ++ tail) r.length :=
  varint32Aux_of_readVarintAux 4 0 bs 0 v r tail (by omega) (by simp) h

/-! ### what an accepted field looks like -/

/-- `r'` = the bytes left after the payload (starting at `r1`) of a field with tag `tag` -/
def Cont (tag : Nat) (r1 r' : List Nat) : Prop :=
  (tag % 8 = 0 ∧ ∃ v, readVarint r1 = some (v, r')) ∨
  (tag % 8 = 1 ∧ 8 ≤ r1.length ∧ r' = r1.drop 8) ∨
  (tag % 8 = 5 ∧ 4 ≤ r1.length ∧ r' = r1.drop 4) ∨
  (tag % 8 = 2 ∧ ∃ len r2, readVarint r1 = some (len, r2) ∧ len ≤ r2.length ∧ r' = r2.drop len)

theorem check_inv {fuel b : Nat} {bs : List Nat} {n : Nesting}
    (h : checkNesting (fuel + 1) (b :: bs) n = true) :
    ∃ tag64 r1 r', readVarint (b :: bs) = some (tag64, r1) ∧ Cont (tag64 % 2 ^ 32) r1 r'
      ∧ checkNesting fuel r' n = true
      ∧ (∀ sub len r2, readVarint r1 = some (len, r2) → tag64 % 2 ^ 32 % 8 = 2 →
          nestedOf n (tag64 % 2 ^ 32) = some sub → checkNesting fuel (r2.take len) sub = true) := by
  rw [checkNesting_cons] at h
  split at h
  · cases h
  · rename_i tag64 r1 htag
    refine ⟨tag64, r1, ?_⟩
    split at h
    · rename_i h8
      split at h
      · rename_i v r2 hv
        exact ⟨r2, htag, Or.inl ⟨h8, v, hv⟩, h, fun sub len r2 _ h2 => by omega⟩
      · cases h
    · rename_i h8
      split at h
      · rename_i hl
        exact ⟨_, htag, Or.inr (Or.inl ⟨h8, hl, rfl⟩), h, fun sub len r2 _ h2 => by omega⟩
      · cases h
    · rename_i h8
      split at h
      · rename_i hl
        exact ⟨_, htag, Or.inr (Or.inr (Or.inl ⟨h8, hl, rfl⟩)), h, fun sub len r2 _ h2 => by omega⟩
      · cases h
    · rename_i h8
      split at h
      · cases h
      · rename_i len r2 hv
        split at h
        · cases h
        · rename_i hl
          rw [Bool.and_eq_true] at h
          refine ⟨_, htag, Or.inr (Or.inr (Or.inr ⟨h8, len, r2, hv, by omega, rfl⟩)), h.2, ?_⟩
          intro sub len' r2' hv' _ hsub
          rw [hv] at hv'
          cases hv'
          have h1 := h.1
          rw [hsub] at h1
          exact h1
    · cases h

theorem cont_length {tag : Nat} {r1 r' : List Nat} (h : Cont tag r1 r') :
    r'.length ≤ r1.length := by
  rcases h with ⟨_, v, hv⟩ | ⟨_, _, rfl⟩ | ⟨_, _, rfl⟩ | ⟨_, len, r2, hv, _, rfl⟩
  · exact Nat.le_of_lt (readVarint_length hv)
  · simp
  · simp
  · have := readVarint_length hv
    simp only [List.length_drop]; omega

theorem cont_unknown {tag : Nat} {r1 r' : List Nat} (tail : List Nat) (h : Cont tag r1 r') :
    readUnknown tag (r1 ++ tail) r1.length = .ok () (r' ++ tail) r'.length := by
  rcases h with ⟨h8, v, hv⟩ | ⟨h8, hl, rfl⟩ | ⟨h8, hl, rfl⟩ | ⟨h8, len, r2, hv, hl, rfl⟩
  · simp only [readUnknown, h8, readVarint64_of_readVarint tail hv]
  · simp only [readUnknown, h8]
    rw [if_neg (by omega), List.drop_append_of_le_length hl, List.length_drop]
  · simp only [readUnknown, h8]
    rw [if_neg (by omega), List.drop_append_of_le_length hl, List.length_drop]
  · simp only [readUnknown, h8, readVarint64_of_readVarint tail hv]
    rw [if_neg (by omega), List.drop_append_of_le_length hl, List.length_drop]

theorem cont_varint32 {tag : Nat} {r1 r' : List Nat} (tail : List Nat) (h : Cont tag r1 r')
    (h8 : tag % 8 = 0) :
    ∃ v, readVarint32 (r1 ++ tail) r1.length = .ok v (r' ++ tail) r'.length := by
  rcases h with ⟨_, v, hv⟩ | ⟨h8', _⟩ | ⟨h8', _⟩ | ⟨h8', _⟩
  · exact ⟨_, readVarint32_of_readVarint tail hv⟩
  all_goals omega

theorem cont_bytes {tag : Nat} {r1 r' : List Nat} (tail : List Nat) (h : Cont tag r1 r')
    (h8 : tag % 8 = 2) (hlt : r1.length < 2 ^ 32) :
    ∃ v, readBytes (r1 ++ tail) r1.length = .ok v (r' ++ tail) r'.length := by
  rcases h with ⟨h8', _⟩ | ⟨h8', _⟩ | ⟨h8', _⟩ | ⟨_, len, r2, hv, hl, rfl⟩
  · omega
  · omega
  · omega
  · have := readVarint_length hv
    rw [readBytes, readVarint32_of_readVarint tail hv, Nat.mod_eq_of_lt (by omega)]
    simp only
    rw [if_neg (by simp; omega), if_neg (by omega), List.drop_append_of_le_length hl,
      List.length_drop]
    exact ⟨_, rfl⟩

/-- result of a reader on a slice followed by `tail`: consumed exactly the slice, or failed -/
def Safe {α : Type} (x : PRes α) (tail : List Nat) : Prop := (∃ v, x = .ok v tail 0) ∨ x = .err

theorem cont_nested {α : Type} (body : List Nat → Nat → PRes α) {tag : Nat} {r1 r' : List Nat}
    (tail : List Nat) (h : Cont tag r1 r') (h8 : tag % 8 = 2) (hlt : r1.length < 2 ^ 32)
    (hbody : ∀ len r2, readVarint r1 = some (len, r2) → len ≤ r2.length →
      Safe (body (r2 ++ tail) len) (r2.drop len ++ tail)) :
    (∃ v, readNested body (r1 ++ tail) r1.length = .ok v (r' ++ tail) r'.length)
      ∨ readNested body (r1 ++ tail) r1.length = .err := by
  rcases h with ⟨h8', _⟩ | ⟨h8', _⟩ | ⟨h8', _⟩ | ⟨_, len, r2, hv, hl, rfl⟩
  · omega
  · omega
  · omega
  · have := readVarint_length hv
    rw [readNested, readVarint32_of_readVarint tail hv, Nat.mod_eq_of_lt (by omega)]
    simp only
    rw [if_neg (by simp; omega), if_neg (by omega)]
    rcases hbody len r2 hv hl with ⟨v, hb⟩ | hb
    · left; rw [hb]; simp only [List.length_drop]; exact ⟨_, rfl⟩
    · right; rw [hb]

/-! ### the parser loops on accepted slices -/

theorem entryLoop_safe : ∀ (f : Nat) (bs : List Nat), checkNesting f bs .leaf = true →
    bs.length < 2 ^ 32 → ∀ (pf : Nat) (e : Entry) (tail : List Nat), bs.length + 1 ≤ pf →
    Safe (entryLoop pf e (bs ++ tail) bs.length) tail := by
  intro f
  induction f with
  | zero => intro bs h; simp [checkNesting] at h
  | succ f ih =>
    intro bs h hl pf e tail hpf
    obtain ⟨pf, rfl⟩ : ∃ k, pf = k + 1 := ⟨pf - 1, by omega⟩
    cases bs with
    | nil => exact Or.inl ⟨e, by simp [entryLoop]⟩
    | cons b bs =>
      obtain ⟨tag64, r1, r', htag, hcont, hrest, hnest⟩ := check_inv h
      have hr1 := readVarint_length htag
      have hr' := cont_length hcont
      rw [entryLoop, if_neg (by simp), readVarint32_of_readVarint tail htag]
      simp only
      have next : ∀ e', Safe (entryLoop pf e' (r' ++ tail) r'.length) tail :=
        fun e' => ih r' hrest (by omega) pf e' tail (by omega)
      split
      · rename_i ht
        obtain ⟨v, hv⟩ := cont_bytes tail hcont (by omega) (by omega)
        rw [hv]; exact next _
      split
      · rename_i ht
        obtain ⟨v, hv⟩ := cont_varint32 tail hcont (by omega)
        rw [hv]; exact next _
      split
      · rename_i ht
        obtain ⟨v, hv⟩ := cont_varint32 tail hcont (by omega)
        rw [hv]; exact next _
      split
      · rename_i ht
        obtain ⟨v, hv⟩ := cont_varint32 tail hcont (by omega)
        rw [hv]; exact next _
      split
      · rename_i ht
        obtain ⟨v, hv⟩ := cont_varint32 tail hcont (by omega)
        rw [hv]; exact next _
      · rw [cont_unknown tail hcont]; exact next _

theorem blockLoop_safe : ∀ (f : Nat) (bs : List Nat), checkNesting f bs .leaf = true →
    bs.length < 2 ^ 32 → ∀ (pf : Nat) (e : Block) (tail : List Nat), bs.length + 1 ≤ pf →
    Safe (blockLoop pf e (bs ++ tail) bs.length) tail := by
  intro f
  induction f with
  | zero => intro bs h; simp [checkNesting] at h
  | succ f ih =>
    intro bs h hl pf e tail hpf
    obtain ⟨pf, rfl⟩ : ∃ k, pf = k + 1 := ⟨pf - 1, by omega⟩
    cases bs with
    | nil => exact Or.inl ⟨e, by simp [blockLoop]⟩
    | cons b bs =>
      obtain ⟨tag64, r1, r', htag, hcont, hrest, hnest⟩ := check_inv h
      have hr1 := readVarint_length htag
      have hr' := cont_length hcont
      rw [blockLoop, if_neg (by simp), readVarint32_of_readVarint tail htag]
      simp only
      have next : ∀ e', Safe (blockLoop pf e' (r' ++ tail) r'.length) tail :=
        fun e' => ih r' hrest (by omega) pf e' tail (by omega)
      split
      · rename_i ht
        obtain ⟨v, hv⟩ := cont_bytes tail hcont (by omega) (by omega)
        rw [hv]; exact next _
      split
      · rename_i ht
        obtain ⟨v, hv⟩ := cont_bytes tail hcont (by omega) (by omega)
        rw [hv]; exact next _
      · rw [cont_unknown tail hcont]; exact next _

theorem presenceLoop_safe : ∀ (f : Nat) (bs : List Nat), checkNesting f bs .leaf = true →
    bs.length < 2 ^ 32 → ∀ (pf : Nat) (e : Presence) (tail : List Nat), bs.length + 1 ≤ pf →
    Safe (presenceLoop pf e (bs ++ tail) bs.length) tail := by
  intro f
  induction f with
  | zero => intro bs h; simp [checkNesting] at h
  | succ f ih =>
    intro bs h hl pf e tail hpf
    obtain ⟨pf, rfl⟩ : ∃ k, pf = k + 1 := ⟨pf - 1, by omega⟩
    cases bs with
    | nil => exact Or.inl ⟨e, by simp [presenceLoop]⟩
    | cons b bs =>
      obtain ⟨tag64, r1, r', htag, hcont, hrest, hnest⟩ := check_inv h
      have hr1 := readVarint_length htag
      have hr' := cont_length hcont
      rw [presenceLoop, if_neg (by simp), readVarint32_of_readVarint tail htag]
      simp only
      have next : ∀ e', Safe (presenceLoop pf e' (r' ++ tail) r'.length) tail :=
        fun e' => ih r' hrest (by omega) pf e' tail (by omega)
      split
      · rename_i ht
        obtain ⟨v, hv⟩ := cont_bytes tail hcont (by omega) (by omega)
        rw [hv]; exact next _
      split
      · rename_i ht
        obtain ⟨v, hv⟩ := cont_varint32 tail hcont (by omega)
        rw [hv]; exact next _
      · rw [cont_unknown tail hcont]; exact next _

/-- a nested parser (`parseX avail len = xLoop (len + 1) {} avail len`) on an accepted slice -/
theorem nested_safe {α : Type} (loop : Nat → α → List Nat → Nat → PRes α) (dflt : α) (f : Nat)
    (sub : Nesting)
    (hloop : ∀ (bs : List Nat), checkNesting f bs sub = true → bs.length < 2 ^ 32 →
      ∀ (pf : Nat) (e : α) (tail : List Nat), bs.length + 1 ≤ pf →
      Safe (loop pf e (bs ++ tail) bs.length) tail)
    (r2 tail : List Nat) (len : Nat) (hlen : len ≤ r2.length) (hlt : r2.length < 2 ^ 32)
    (hc : checkNesting f (r2.take len) sub = true) :
    Safe (loop (len + 1) dflt (r2 ++ tail) len) (r2.drop len ++ tail) := by
  have hl : (r2.take len).length = len := by rw [List.length_take]; omega
  have := hloop (r2.take len) hc (by omega) (len + 1) dflt (r2.drop len ++ tail) (by omega)
  rwa [← List.append_assoc, List.take_append_drop, hl] at this

theorem wantlistLoop_safe : ∀ (f : Nat) (bs : List Nat), checkNesting f bs .wantlist = true →
    bs.length < 2 ^ 32 → ∀ (pf : Nat) (e : Wantlist) (tail : List Nat), bs.length + 1 ≤ pf →
    Safe (wantlistLoop pf e (bs ++ tail) bs.length) tail := by
  intro f
  induction f with
  | zero => intro bs h; simp [checkNesting] at h
  | succ f ih =>
    intro bs h hl pf e tail hpf
    obtain ⟨pf, rfl⟩ : ∃ k, pf = k + 1 := ⟨pf - 1, by omega⟩
    cases bs with
    | nil => exact Or.inl ⟨e, by simp [wantlistLoop]⟩
    | cons b bs =>
      obtain ⟨tag64, r1, r', htag, hcont, hrest, hnest⟩ := check_inv h
      have hr1 := readVarint_length htag
      have hr' := cont_length hcont
      rw [wantlistLoop, if_neg (by simp), readVarint32_of_readVarint tail htag]
      simp only
      have next : ∀ e', Safe (wantlistLoop pf e' (r' ++ tail) r'.length) tail :=
        fun e' => ih r' hrest (by omega) pf e' tail (by omega)
      split
      · rename_i ht
        have hn := cont_nested parseEntry tail hcont (by omega) (by omega)
          (fun len r2 hv hlen => nested_safe entryLoop {} f .leaf (entryLoop_safe f) r2 tail len
            hlen (by have := readVarint_length hv; omega)
            (hnest .leaf len r2 hv (by omega) (by simp [nestedOf, ht])))
        rcases hn with ⟨v, hv⟩ | hv
        · rw [hv]; exact next _
        · rw [hv]; exact Or.inr rfl
      split
      · rename_i ht
        obtain ⟨v, hv⟩ := cont_varint32 tail hcont (by omega)
        rw [hv]; exact next _
      · rw [cont_unknown tail hcont]; exact next _

theorem messageLoop_safe : ∀ (f : Nat) (bs : List Nat), checkNesting f bs .message = true →
    bs.length < 2 ^ 32 → ∀ (pf : Nat) (e : Message) (tail : List Nat), bs.length + 1 ≤ pf →
    Safe (messageLoop pf e (bs ++ tail) bs.length) tail := by
  intro f
  induction f with
  | zero => intro bs h; simp [checkNesting] at h
  | succ f ih =>
    intro bs h hl pf e tail hpf
    obtain ⟨pf, rfl⟩ : ∃ k, pf = k + 1 := ⟨pf - 1, by omega⟩
    cases bs with
    | nil => exact Or.inl ⟨e, by simp [messageLoop]⟩
    | cons b bs =>
      obtain ⟨tag64, r1, r', htag, hcont, hrest, hnest⟩ := check_inv h
      have hr1 := readVarint_length htag
      have hr' := cont_length hcont
      rw [messageLoop, if_neg (by simp), readVarint32_of_readVarint tail htag]
      simp only
      have next : ∀ e', Safe (messageLoop pf e' (r' ++ tail) r'.length) tail :=
        fun e' => ih r' hrest (by omega) pf e' tail (by omega)
      split
      · rename_i ht
        have hn := cont_nested parseWantlist tail hcont (by omega) (by omega)
          (fun len r2 hv hlen => nested_safe wantlistLoop {} f .wantlist (wantlistLoop_safe f)
            r2 tail len hlen (by have := readVarint_length hv; omega)
            (hnest .wantlist len r2 hv (by omega) (by simp [nestedOf, ht])))
        rcases hn with ⟨v, hv⟩ | hv
        · rw [hv]; exact next _
        · rw [hv]; exact Or.inr rfl
      split
      · rename_i ht
        have hn := cont_nested parseBlock tail hcont (by omega) (by omega)
          (fun len r2 hv hlen => nested_safe blockLoop {} f .leaf (blockLoop_safe f)
            r2 tail len hlen (by have := readVarint_length hv; omega)
            (hnest .leaf len r2 hv (by omega) (by simp [nestedOf, ht])))
        rcases hn with ⟨v, hv⟩ | hv
        · rw [hv]; exact next _
        · rw [hv]; exact Or.inr rfl
      split
      · rename_i ht
        have hn := cont_nested parsePresence tail hcont (by omega) (by omega)
          (fun len r2 hv hlen => nested_safe presenceLoop {} f .leaf (presenceLoop_safe f)
            r2 tail len hlen (by have := readVarint_length hv; omega)
            (hnest .leaf len r2 hv (by omega) (by simp [nestedOf, ht])))
        rcases hn with ⟨v, hv⟩ | hv
        · rw [hv]; exact next _
        · rw [hv]; exact Or.inr rfl
      split
      · rename_i ht
        obtain ⟨v, hv⟩ := cont_varint32 tail hcont (by omega)
        rw [hv]; exact next _
      · rw [cont_unknown tail hcont]; exact next _

/-- The parser on a slice accepted by the pre-check consumes exactly the slice or fails. -/
theorem parseMessage_checked (fuel : Nat) (bs rest : List Nat) (hl : bs.length < 2 ^ 32)
    (h : checkNesting fuel bs .message = true) :
    (∃ m, parseMessage (bs ++ rest) bs.length = .ok m rest 0)
      ∨ parseMessage (bs ++ rest) bs.length = .err :=
  messageLoop_safe fuel bs h hl (bs.length + 1) {} rest (Nat.le_refl _)

end Beetswap.Proofs.Codec
