import Beetswap.Proofs.CodecEmit
import Beetswap.Proofs.CodecCheck
/-!
Frame layer: `Frame.decode` on valid frames, on strict prefixes, on bad length prefixes.
-/
namespace Beetswap.Proofs.Codec
open Beetswap Beetswap.Proto Beetswap.Frame Beetswap.Spec.Wire Beetswap.Spec.Limit

theorem maxMessageSize_lt : maxMessageSize < 2 ^ 32 := by decide

theorem decode_enc_frame (body rest : List Nat) (m : Message)
    (hs : body.length ≤ maxMessageSize)
    (hc : checkNesting (body.length + 1) body .message = true)
    (hp : parseMessage (body ++ rest) body.length = .ok m rest 0) :
    decode (Varint.enc body.length ++ (body ++ rest)) = .ok m rest := by
  have hlt : body.length < 2 ^ 64 := by have := maxMessageSize_lt; omega
  unfold decode
  rw [dec_enc _ hlt]
  have h1 : ¬ (Varint.enc body.length).length
      ≠ (Varint.enc body.length ++ (body ++ rest)).length - (body ++ rest).length := by
    simp
  have h2 : ¬ body.length > maxMessageSize := by omega
  have h3 : ¬ (body ++ rest).length < body.length := by simp
  simp only [h1, h2, h3, if_false, hp, List.drop_left', List.take_left', hc, Bool.not_true,
    Bool.false_eq_true]

theorem decode_valid_frame' (fs : List MsgFld) (h : MsgValid fs)
    (hs : (serMessage fs).length ≤ maxMessageSize) (rest : List Nat) :
    decode (uvar (serMessage fs).length ++ serMessage fs ++ rest)
      = .ok (interpMessage fs) rest := by
  rw [uvar_eq_enc', List.append_assoc]
  exact decode_enc_frame _ _ _ hs (check_serMessage fs _ h.1 (Nat.le_refl _))
    (parseMessage_ser fs h.1 rest)

theorem decode_encode' (m : Message) (h : MessageWF m) (hs : (encodeBody m).length < 2 ^ 32)
    (rest : List Nat) :
    parseMessage (encodeBody m ++ rest) (encodeBody m).length = .ok m rest 0 := by
  have hv := messageFields_valid' m h hs
  have := parseMessage_ser (messageFields m) hv.1 rest
  rwa [← encodeBody_eq, interpMessage_fields m h] at this

theorem frame_roundtrip' (m : Message) (h : MessageWF m) (hs : sizeMessage m ≤ maxMessageSize)
    (rest : List Nat) : decode (encode m ++ rest) = .ok m rest := by
  rw [sizeMessage_eq] at hs
  have hlt := maxMessageSize_lt
  unfold encode
  rw [sizeMessage_eq, List.append_assoc]
  have hv := messageFields_valid' m h (by omega)
  have hc := check_serMessage (messageFields m) _ hv.1 (Nat.le_refl _)
  rw [← encodeBody_eq] at hc
  exact decode_enc_frame _ _ _ hs hc (decode_encode' m h (by omega) rest)

/-! ### strict prefixes -/

theorem decAux_cont : ∀ (p : List Nat) (i acc : Nat), (∀ b ∈ p, 128 ≤ b) → i + p.length ≤ 9 →
    Varint.decAux i acc p = .insufficient := by
  intro p
  induction p with
  | nil => intro i acc _ _; rfl
  | cons b bs ih =>
    intro i acc hb hl
    simp only [List.length_cons] at hl
    have h1 : ¬ b < 128 := by have := hb b (by simp); omega
    have h2 : ¬ i = 9 := by omega
    simp only [Varint.decAux, h1, h2, if_false]
    exact ih _ _ (fun b' hb' => hb b' (by simp [hb'])) (by omega)

theorem take_enc_cont (n : Nat) : ∀ (k : Nat), k < (Varint.enc n).length →
    ∀ b ∈ (Varint.enc n).take k, 128 ≤ b := by
  induction n using Nat.strongRecOn with
  | _ n ih =>
    intro k hk b hb
    by_cases hn : n < 128
    · rw [enc_lt hn] at hk hb
      simp at hk; subst hk; simp at hb
    · rw [enc_ge hn] at hk hb
      cases k with
      | zero => simp at hb
      | succ k =>
        simp only [List.take_succ_cons, List.mem_cons] at hb
        simp only [List.length_cons] at hk
        rcases hb with rfl | hb
        · omega
        · exact ih (n / 128) (by omega) k (by omega) b hb

theorem dec_take_enc (n : Nat) (hn : n < 2 ^ 64) (k : Nat) (hk : k < (Varint.enc n).length) :
    Varint.dec ((Varint.enc n).take k) = .insufficient := by
  apply decAux_cont _ _ _ (take_enc_cont n k hk)
  have := enc_length_le_ten hn
  simp; omega

theorem decode_strict_prefix_frame (body p : List Nat) (hs : body.length ≤ maxMessageSize)
    (hp : p <+: Varint.enc body.length ++ body) (hne : p ≠ Varint.enc body.length ++ body) :
    decode p = .needMore := by
  have hlt : body.length < 2 ^ 64 := by have := maxMessageSize_lt; omega
  have hlen : p.length < (Varint.enc body.length ++ body).length := by
    have h1 := hp.length_le
    rcases Nat.lt_or_ge p.length (Varint.enc body.length ++ body).length with h | h
    · exact h
    · exact absurd (hp.eq_of_length_le h) hne
  have htake := List.prefix_iff_eq_take.mp hp
  rw [List.take_append] at htake
  by_cases hk : p.length < (Varint.enc body.length).length
  · have h0 : p.length - (Varint.enc body.length).length = 0 := by omega
    rw [h0, List.take_zero, List.append_nil] at htake
    unfold decode
    rw [htake, dec_take_enc _ hlt _ hk]
  · rw [List.take_of_length_le (by omega)] at htake
    simp only [List.length_append] at hlen
    unfold decode
    rw [htake, dec_enc _ hlt]
    have h1 : ¬ (Varint.enc body.length).length
        ≠ (Varint.enc body.length ++ List.take (p.length - (Varint.enc body.length).length) body).length
          - (List.take (p.length - (Varint.enc body.length).length) body).length := by
      simp
    have h2 : ¬ body.length > maxMessageSize := by omega
    have h3 : (List.take (p.length - (Varint.enc body.length).length) body).length
        < body.length := by
      rw [List.length_take]; omega
    simp only [h1, h2, h3, if_false, if_true]

theorem needMore_on_strict_prefix' (m : Message)
    (hs : sizeMessage m ≤ maxMessageSize) (p : List Nat) (hp : p <+: encode m)
    (hne : p ≠ encode m) : decode p = .needMore := by
  rw [sizeMessage_eq] at hs
  unfold encode at hp hne
  rw [sizeMessage_eq] at hp hne
  exact decode_strict_prefix_frame _ p hs hp hne

/-! ### C09: bad length prefixes -/

theorem decAux_overflow : ∀ (p : List Nat) (i acc : Nat) (rest : List Nat),
    (∀ b ∈ p, 128 ≤ b) → i + p.length = 10 → i ≤ 9 →
    Varint.decAux i acc (p ++ rest) = .overflow := by
  intro p
  induction p with
  | nil => intro i acc rest _ hl hi; simp at hl; omega
  | cons b bs ih =>
    intro i acc rest hb hl hi
    simp only [List.length_cons] at hl
    have h1 : ¬ b < 128 := by have := hb b (by simp); omega
    simp only [List.cons_append, Varint.decAux, h1, if_false]
    by_cases h9 : i = 9
    · simp [h9]
    · simp only [h9, if_false]
      exact ih _ _ rest (fun b' hb' => hb b' (by simp [hb'])) (by omega) (by omega)

theorem natValue_append_last (init : List Nat) (last : Nat) :
    natValue (init ++ [last]) = natValue init + last % 128 * 128 ^ init.length := by
  induction init with
  | nil => simp [natValue]
  | cons b bs ih =>
    simp only [List.cons_append, natValue, ih, List.length_cons, Nat.pow_succ]
    grind

theorem natValue_lt (p : List Nat) : natValue p < 128 ^ p.length := by
  induction p with
  | nil => simp [natValue]
  | cons b bs ih =>
    simp only [natValue, List.length_cons, Nat.pow_succ]
    omega

theorem decAux_complete : ∀ (init : List Nat) (last i acc : Nat) (rest : List Nat),
    (∀ b ∈ init, 128 ≤ b) → last < 128 → i + init.length ≤ 9 →
    Varint.decAux i acc (init ++ [last] ++ rest)
      = if last = 0 ∧ 0 < i + init.length then .notMinimal
        else .ok ((acc + natValue (init ++ [last]) * 2 ^ (7 * i)) % 2 ^ 64) rest := by
  intro init
  induction init with
  | nil =>
    intro last i acc rest _ hl _
    simp [Varint.decAux, hl, natValue]
  | cons b bs ih =>
    intro last i acc rest hb hl hi
    simp only [List.length_cons] at hi
    have h1 : ¬ b < 128 := by have := hb b (by simp); omega
    have h2 : ¬ i = 9 := by omega
    simp only [List.cons_append, Varint.decAux, h1, h2, if_false]
    have := ih last (i + 1) ((acc + b % 128 * 2 ^ (7 * i)) % 2 ^ 64) rest
      (fun b' hb' => hb b' (by simp [hb'])) hl (by omega)
    simp only [List.append_assoc, List.cons_append, List.nil_append] at this ⊢
    rw [this]
    have e1 : (0 < i + 1 + bs.length) = (0 < i + (bs.length + 1)) := by
      apply propext; omega
    simp only [List.length_cons, e1]
    have e2 : ((acc + b % 128 * 2 ^ (7 * i)) % 2 ^ 64
          + natValue (bs ++ [last]) * 2 ^ (7 * (i + 1))) % 2 ^ 64
        = (acc + natValue (b :: (bs ++ [last])) * 2 ^ (7 * i)) % 2 ^ 64 := by
      rw [Nat.mod_add_mod]
      congr 1
      simp only [natValue]
      have : 2 ^ (7 * (i + 1)) = 128 * 2 ^ (7 * i) := by
        rw [show 7 * (i + 1) = 7 + 7 * i by omega, Nat.pow_add]
      rw [this]
      grind
    rw [e2]

theorem dec_complete_short (init : List Nat) (last : Nat) (rest : List Nat)
    (hb : ∀ b ∈ init, 128 ≤ b) (hl : last < 128) (hi : init.length ≤ 9) :
    Varint.dec (init ++ [last] ++ rest)
      = if last = 0 ∧ 0 < init.length then .notMinimal
        else .ok (natValue (init ++ [last]) % 2 ^ 64) rest := by
  have := decAux_complete init last 0 0 rest hb hl (by omega)
  simpa [Varint.dec] using this

theorem dec_complete_long (init : List Nat) (tail : List Nat)
    (hb : ∀ b ∈ init, 128 ≤ b) (hi : 10 ≤ init.length) :
    Varint.dec (init ++ tail) = .overflow := by
  have e : init ++ tail = init.take 10 ++ (init.drop 10 ++ tail) := by
    rw [← List.append_assoc, List.take_append_drop]
  rw [e]
  apply decAux_overflow
  · intro b hb'; exact hb b (List.mem_of_mem_take hb')
  · rw [List.length_take]; omega
  · omega

theorem overlong_rejected' (p : List Nat) (hl : p.length = 10) (hc : ∀ b ∈ p, 128 ≤ b)
    (rest : List Nat) : decode (p ++ rest) = .err := by
  unfold decode
  rw [dec_complete_long p rest hc (by omega)]

theorem nonminimal_rejected' (p : List Nat) (hp : CompleteVarint p) (hm : ¬ Minimal p)
    (rest : List Nat) : decode (p ++ rest) = .err := by
  obtain ⟨init, last, rfl, hl, hb⟩ := hp
  have hb' : ∀ b ∈ init, 128 ≤ b := fun b h => (hb b h).1
  unfold Minimal at hm
  simp at hm
  obtain ⟨h1, h2⟩ := hm
  unfold decode
  by_cases hi : init.length ≤ 9
  · rw [dec_complete_short init last rest hb' hl hi]
    have : last = 0 ∧ 0 < init.length := ⟨h2, List.length_pos_iff.mpr h1⟩
    simp only [this, and_self, if_true]
  · rw [List.append_assoc, dec_complete_long init _ hb' (by omega)]

theorem oversize_rejected' (p : List Nat) (hp : CompleteVarint p)
    (hv : natValue p > maxMessageSize) (rest : List Nat) : decode (p ++ rest) = .err := by
  obtain ⟨init, last, rfl, hl, hb⟩ := hp
  have hb' : ∀ b ∈ init, 128 ≤ b := fun b h => (hb b h).1
  unfold decode
  by_cases hi : init.length ≤ 9
  · rw [dec_complete_short init last rest hb' hl hi]
    by_cases hc : last = 0 ∧ 0 < init.length
    · simp only [hc, and_self, if_true]
    · simp only [hc, if_false]
      split
      · rfl
      · rename_i hlen
        simp only [List.length_append, List.length_cons, List.length_nil, Decidable.not_not]
          at hlen
        split
        · rfl
        · rename_i hmax
          exfalso
          have hmax' : natValue (init ++ [last]) % 2 ^ 64 ≤ maxMessageSize := by omega
          have h4 := enc_length_le_four hmax'
          by_cases hbig : natValue (init ++ [last]) < 2 ^ 64
          · rw [Nat.mod_eq_of_lt hbig] at hmax'; omega
          · have h5 : natValue (init ++ [last]) < 128 ^ (init.length + 1) := by
              simpa using natValue_lt (init ++ [last])
            have h6 : 128 ^ (init.length + 1) ≤ 128 ^ 4 :=
              Nat.pow_le_pow_right (by decide) (by omega)
            have : (128 : Nat) ^ 4 < 2 ^ 64 := by decide
            omega
  · rw [List.append_assoc, dec_complete_long init _ hb' (by omega)]

/-! ### C09: buffer bound -/

theorem decAux_insufficient_length : ∀ (buf : List Nat) (i acc : Nat), i ≤ 9 →
    Varint.decAux i acc buf = .insufficient → i + buf.length ≤ 9 := by
  intro buf
  induction buf with
  | nil => intro i acc hi _; simpa using hi
  | cons b bs ih =>
    intro i acc hi h
    simp only [Varint.decAux] at h
    split at h
    · split at h <;> cases h
    · split at h
      · cases h
      · have := ih _ _ (by omega) h
        simp only [List.length_cons]; omega

theorem decAux_ok_length : ∀ (buf : List Nat) (i acc len : Nat) (rest : List Nat),
    Varint.decAux i acc buf = .ok len rest → rest.length ≤ buf.length := by
  intro buf
  induction buf with
  | nil => intro i acc len rest h; simp [Varint.decAux] at h
  | cons b bs ih =>
    intro i acc len rest h
    simp only [Varint.decAux] at h
    split at h
    · split at h
      · cases h
      · cases h; simp
    · split at h
      · cases h
      · have := ih _ _ _ _ h
        simp only [List.length_cons]; omega

theorem needMore_bounded' (buf : List Nat) (h : decode buf = .needMore) :
    buf.length < maxMessageSize + 4 := by
  unfold decode at h
  split at h
  · rename_i hd
    have := decAux_insufficient_length buf 0 0 (by omega) hd
    simp [maxMessageSize]; omega
  · cases h
  · cases h
  · rename_i len rest hd
    have hr := decAux_ok_length buf 0 0 len rest hd
    split at h
    · cases h
    · rename_i h1
      simp only [Decidable.not_not] at h1
      split at h
      · cases h
      · rename_i h2
        split at h
        · rename_i h3
          have := enc_length_le_four (show len ≤ maxMessageSize by omega)
          omega
        · split at h
          · cases h
          · split at h <;> cases h

theorem drain_none : ∀ (fuel : Nat) (buf : List Nat) (acc a : List Message) (b : List Nat),
    drain fuel buf acc = (a, b, none) → decode b = .needMore := by
  intro fuel
  induction fuel with
  | zero => intro buf acc a b h; simp [drain] at h
  | succ fuel ih =>
    intro buf acc a b h
    simp only [drain] at h
    split at h
    · exact ih _ _ _ _ h
    · rename_i hd
      simp only [Prod.mk.injEq, and_true] at h
      rw [← h.2]; exact hd
    · simp at h
    · simp at h

theorem run_maxBuf : ∀ (chunks : List (List Nat)) (buf : List Nat) (acc : List Message)
    (mb mk : Nat), (∀ c ∈ chunks, c.length ≤ 8192) → buf.length ≤ maxMessageSize + 4 →
    mb ≤ maxMessageSize + 4 + 8192 →
    (run chunks buf acc mb mk).maxBuf ≤ maxMessageSize + 4 + 8192 := by
  intro chunks
  induction chunks with
  | nil =>
    intro buf acc mb mk _ _ hmb
    simp only [run]
    split <;> exact hmb
  | cons c cs ih =>
    intro buf acc mb mk hc hbuf hmb
    have hcl := hc c (by simp)
    simp only [run]
    split
    · rename_i a b hd
      apply ih
      · intro c' hc'; exact hc c' (by simp [hc'])
      · have := needMore_bounded' b (drain_none _ _ _ _ _ hd); omega
      · simp only [List.length_append]; omega
    · simp only [List.length_append]; omega

theorem buffer_bounded' (chunks : List (List Nat)) (hc : ∀ c ∈ chunks, c.length ≤ 8192) :
    (framedRead chunks).maxBuf ≤ maxMessageSize + 4 + 8192 := by
  unfold framedRead
  exact run_maxBuf chunks [] [] 0 0 hc (by simp) (by simp)

/-! ### C10: streams -/

def Good (m : Message) : Prop := MessageWF m ∧ sizeMessage m ≤ maxMessageSize

/-- every prefix of `p` makes the decoder wait -/
def Pre (p : List Nat) : Prop := ∀ q, q <+: p → decode q = .needMore

theorem decode_nil : decode [] = .needMore := by
  simp [decode, Varint.dec, Varint.decAux]

theorem pre_nil : Pre [] := by
  intro q hq
  rw [List.prefix_nil] at hq
  subst hq; exact decode_nil

theorem pre_strict_prefix (m : Message) (hm : Good m) (p : List Nat) (hp : p <+: encode m)
    (hne : p ≠ encode m) : Pre p := by
  intro q hq
  apply needMore_on_strict_prefix' m hm.2 q (hq.trans hp)
  rintro rfl
  exact hne (hp.eq_of_length_le hq.length_le)

theorem encode_length_pos (m : Message) : 0 < (encode m).length := by
  unfold encode
  have := enc_length_pos (sizeMessage m)
  simp only [List.length_append]; omega

theorem drain_stream (p : List Nat) (hp : Pre p) : ∀ (ms : List Message) (buf : List Nat)
    (acc : List Message) (fuel : Nat),
    (∀ m ∈ ms, Good m) → buf <+: (ms.map encode).flatten ++ p → buf.length + 1 ≤ fuel →
    ∃ ms₁ ms₂ q, ms = ms₁ ++ ms₂ ∧ buf = (ms₁.map encode).flatten ++ q
      ∧ (∀ m ms₃, ms₂ = m :: ms₃ → q.length < (encode m).length)
      ∧ drain fuel buf acc = (acc ++ ms₁, q, none) := by
  intro ms
  induction ms with
  | nil =>
    intro buf acc fuel _ hpre hf
    obtain ⟨fuel, rfl⟩ : ∃ k, fuel = k + 1 := ⟨fuel - 1, by omega⟩
    refine ⟨[], [], buf, rfl, by simp, by simp, ?_⟩
    simp only [List.map_nil, List.flatten_nil, List.nil_append] at hpre
    simp only [drain, hp buf hpre, List.append_nil]
  | cons m ms ih =>
    intro buf acc fuel hg hpre hf
    obtain ⟨fuel, rfl⟩ : ∃ k, fuel = k + 1 := ⟨fuel - 1, by omega⟩
    simp only [List.map_cons, List.flatten_cons, List.append_assoc] at hpre
    have hm := hg m (by simp)
    by_cases hlen : buf.length < (encode m).length
    · have hbp : buf <+: encode m :=
        List.prefix_of_prefix_length_le hpre (List.prefix_append _ _) (by omega)
      have hne : buf ≠ encode m := by rintro rfl; omega
      refine ⟨[], m :: ms, buf, rfl, by simp, ?_, ?_⟩
      · intro m' ms₃ h; cases h; exact hlen
      · simp only [drain, needMore_on_strict_prefix' m hm.2 buf hbp hne, List.append_nil]
    · have hbp : encode m <+: buf :=
        List.prefix_of_prefix_length_le (List.prefix_append _ _) hpre (by omega)
      obtain ⟨buf', rfl⟩ := hbp
      rw [List.prefix_append_right_inj] at hpre
      have hpos := encode_length_pos m
      simp only [List.length_append] at hf
      obtain ⟨ms₁, ms₂, q, h1, h2, h3, h4⟩ :=
        ih buf' (acc ++ [m]) fuel (fun m' hm' => hg m' (by simp [hm'])) hpre (by omega)
      refine ⟨m :: ms₁, ms₂, q, by simp [h1], by simp [h2], h3, ?_⟩
      simp only [drain, frame_roundtrip' m hm.1 hm.2 buf', h4, List.append_assoc,
        List.cons_append, List.nil_append]

theorem run_stream (p : List Nat) (hp : Pre p) : ∀ (chunks : List (List Nat))
    (ms : List Message) (buf : List Nat) (acc : List Message) (mb mk : Nat),
    (∀ m ∈ ms, Good m) → buf ++ chunks.flatten = (ms.map encode).flatten ++ p →
    (∀ m ms', ms = m :: ms' → buf.length < (encode m).length) →
    (run chunks buf acc mb mk).msgs = acc ++ ms
      ∧ (run chunks buf acc mb mk).fin = (if p.isEmpty then .eof else .err) := by
  intro chunks
  induction chunks with
  | nil =>
    intro ms buf acc mb mk _ heq hw
    simp only [List.flatten_nil, List.append_nil] at heq
    cases ms with
    | cons m ms' =>
      exfalso
      have := hw m ms' rfl
      rw [heq] at this
      simp only [List.map_cons, List.flatten_cons, List.length_append] at this
      omega
    | nil =>
      simp only [List.map_nil, List.flatten_nil, List.nil_append] at heq
      subst heq
      simp only [run]
      split <;> simp_all
  | cons c cs ih =>
    intro ms buf acc mb mk hg heq hw
    simp only [List.flatten_cons, ← List.append_assoc] at heq
    have hpre : buf ++ c <+: (ms.map encode).flatten ++ p := ⟨cs.flatten, heq⟩
    obtain ⟨ms₁, ms₂, q, h1, h2, h3, h4⟩ :=
      drain_stream p hp ms (buf ++ c) acc ((buf ++ c).length + 1) hg hpre (Nat.le_refl _)
    simp only [run, h4]
    subst h1
    rw [h2] at heq
    simp only [List.map_append, List.flatten_append, List.append_assoc] at heq
    have heq' := List.append_cancel_left heq
    have := ih ms₂ q (acc ++ ms₁) (max mb (buf ++ c).length) (max mk q.length)
      (fun m hm => hg m (by simp [hm])) heq' h3
    simpa [List.append_assoc] using this

theorem chunk_independent' (ms : List Message)
    (hwf : ∀ m ∈ ms, MessageWF m ∧ sizeMessage m ≤ maxMessageSize)
    (chunks : List (List Nat))
    (hcat : chunks.flatten = (ms.map encode).flatten) :
    (framedRead chunks).msgs = ms ∧ (framedRead chunks).fin = .eof := by
  have := run_stream [] pre_nil chunks ms [] [] 0 0 hwf (by simpa using hcat)
    (fun m _ _ => encode_length_pos m)
  simpa [framedRead] using this

theorem truncated_stream' (ms : List Message) (m : Message)
    (hwf : ∀ m' ∈ m :: ms, MessageWF m' ∧ sizeMessage m' ≤ maxMessageSize)
    (p : List Nat) (hp : p <+: encode m) (hp0 : p ≠ []) (hp1 : p ≠ encode m)
    (chunks : List (List Nat))
    (hcat : chunks.flatten = (ms.map encode).flatten ++ p) :
    (framedRead chunks).msgs = ms ∧ (framedRead chunks).fin = .err := by
  have := run_stream p (pre_strict_prefix m (hwf m (by simp)) p hp hp1) chunks ms [] [] 0 0
    (fun m' hm' => hwf m' (by simp [hm'])) (by simpa using hcat)
    (fun m _ _ => encode_length_pos m)
  simpa [framedRead, hp0] using this

end Beetswap.Proofs.Codec
