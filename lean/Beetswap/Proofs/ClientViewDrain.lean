import Beetswap.Proofs.ClientViewInv
/-!
The `drain` operation: task phase (`pollTasks`), the per-peer `updatePeer`, and the fold
`updateHandlers`, with their effect on `PeerInv`.
-/
namespace Beetswap.Proofs.ClientView
open Std Beetswap.Client Beetswap.Wl Beetswap.Spec.ClientSpec


theorem get_tab_keys' {V W : Type} (m : KMap V) (f : V → W) (k : Nat) :
    (KMap.tab m.keys (fun p => (m[p]?).map f))[k]? = (m[k]?).map f :=
  get_tab_keys m (fun _ => f) k

/-- `GInv` minus the queue conjunct, for a state and a ghost map that may be out of step. -/
structure MidInv (G : KMap Ghost) (s : State) : Prop where
  peers : ∀ (p : Nat) (ps : PeerSt), s.peers[p]? = some ps → ∃ g, G[p]? = some g ∧ PeerInv s ps g
  rev_zero : s.wantlist.revision = 0 → ∀ k : Nat, k ∉ s.wantlist.cids
  conns_nonempty : ∀ (p : Nat) (ps : PeerSt), s.peers[p]? = some ps → ps.conns.isEmpty = false

theorem MidInv.congr {G : KMap Ghost} {s s' : State} (h : MidInv G s)
    (hw : s'.wantlist = s.wantlist) (hp : s'.peers = s.peers) : MidInv G s' := by
  constructor
  · intro p ps hps
    rw [hp] at hps
    obtain ⟨g, hg, hi⟩ := h.peers p ps hps
    exact ⟨g, hg, hi.congr hw rfl⟩
  · rw [hw]; exact h.rev_zero
  · rw [hp]; exact h.conns_nonempty

/-- what polling one task can do to the wantlist and the peer table -/
inductive PollEff (s s' : State) : Prop where
  | same : s'.wantlist = s.wantlist → s'.peers = s.peers → PollEff s s'
  | want (k : Nat) : k ∉ s.wantlist.cids → s'.wantlist = (s.wantlist.insert k).1 →
      s'.peers = KMap.tab s.peers.keys (fun p => (s.peers[p]?).map (fun ps => { ps with wl := ps.wl.wantedAgain k })) →
      PollEff s s'

theorem pollTask_eff (s : State) (seq id : Nat) :
    PollEff s (pollTask s seq id).1 ∧ (pollTask s seq id).1.queue = s.queue ∧
    (pollTask s seq id).1.deadline = s.deadline ∧
    ∀ p c m, Out.send p c m ∉ (pollTask s seq id).2.2 := by
  unfold pollTask
  split
  · exact ⟨.same rfl rfl, rfl, rfl, by simp⟩
  · split
    · exact ⟨.same rfl rfl, rfl, rfl, by simp⟩
    · split
      · exact ⟨.same rfl rfl, rfl, rfl, by simp⟩
      · exact ⟨.same rfl rfl, rfl, rfl, by simp⟩
      · exact ⟨.same rfl rfl, rfl, rfl, by simp⟩
      · split
        · exact ⟨.same rfl rfl, rfl, rfl, by simp⟩
        · rename_i q k _ _ _
          by_cases hk : k ∈ s.wantlist.cids
          · refine ⟨.same ?_ ?_, rfl, rfl, by simp⟩
            · simp [Wantlist.insert, hk]
            · simp [Wantlist.insert, hk]
          · refine ⟨.want k hk ?_ ?_, rfl, rfl, by simp⟩
            · simp [Wantlist.insert, hk]
            · simp [Wantlist.insert, hk]
        · exact ⟨.same rfl rfl, rfl, rfl, by simp⟩
      · split
        · exact ⟨.same rfl rfl, rfl, rfl, by simp⟩
        · exact ⟨.same rfl rfl, rfl, rfl, by simp⟩

def pframe (ps : PeerSt) : KSet × Sending × Bool := (ps.conns, ps.sending, ps.sendFull)

/-- the part of the state that the task phase of a drain leaves alone -/
def Frame (s s' : State) : Prop :=
  (∀ p : Nat, (s'.peers[p]?).map pframe =
        (s.peers[p]?).map pframe) ∧
  s'.queue = s.queue ∧ s'.deadline = s.deadline

theorem Frame.refl (s : State) : Frame s s := ⟨fun _ => rfl, rfl, rfl⟩
theorem Frame.trans {s s1 s2 : State} (h1 : Frame s s1) (h2 : Frame s1 s2) : Frame s s2 :=
  ⟨fun p => (h2.1 p).trans (h1.1 p), h2.2.1.trans h1.2.1, h2.2.2.trans h1.2.2⟩

theorem Frame.mem_iff {s s' : State} (h : Frame s s') (p : Nat) : p ∈ s'.peers ↔ p ∈ s.peers := by
  have := h.1 p
  rw [kmap_mem_iff, kmap_mem_iff]
  cases h1 : s'.peers[p]? <;> cases h2 : s.peers[p]? <;> simp [h1, h2] at this ⊢

theorem PollEff.frame {s s' : State} (h : PollEff s s') (p : Nat) :
    (s'.peers[p]?).map pframe =
      (s.peers[p]?).map pframe := by
  cases h with
  | same _ hp => rw [hp]
  | want k _ _ hp =>
    rw [hp, get_tab_keys' s.peers (fun (ps : PeerSt) => ({ ps with wl := ps.wl.wantedAgain k } : PeerSt))]
    cases s.peers[p]? <;> rfl

theorem PollEff.mid {G : KMap Ghost} {s s' : State} (h : PollEff s s') (hm : MidInv G s) : MidInv G s' := by
  cases h with
  | same hw hp => exact hm.congr hw hp
  | want k hk hw hp =>
    have hget : ∀ p : Nat, s'.peers[p]? = (s.peers[p]?).map (fun (ps : PeerSt) => ({ ps with wl := ps.wl.wantedAgain k } : PeerSt)) := by
      intro p; rw [hp, get_tab_keys' s.peers (fun (ps : PeerSt) => ({ ps with wl := ps.wl.wantedAgain k } : PeerSt))]
    constructor
    · intro p ps' hps'
      rw [hget p] at hps'
      cases hps : s.peers[p]? with
      | none => simp [hps] at hps'
      | some ps =>
        simp only [hps, Option.map_some, Option.some.injEq] at hps'
        obtain ⟨g, hg, hi⟩ := hm.peers p ps hps
        exact ⟨g, hg, peerInv_insert hi k hk hw (by rw [← hps'])⟩
    · intro h0
      rw [hw, insert_revision] at h0
      simp [hk] at h0
    · intro p ps' hps'
      rw [hget p] at hps'
      cases hps : s.peers[p]? with
      | none => simp [hps] at hps'
      | some ps =>
        simp only [hps, Option.map_some, Option.some.injEq] at hps'
        rw [← hps']
        exact hm.conns_nonempty p ps hps

theorem pollTasks_ok (G : KMap Ghost) (ids : List Nat) (s : State) (seq : Nat) :
    (MidInv G s → MidInv G (pollTasks s seq ids).1) ∧ Frame s (pollTasks s seq ids).1 ∧
    ∀ p c m, Out.send p c m ∉ (pollTasks s seq ids).2.2 := by
  induction ids generalizing s seq with
  | nil => exact ⟨id, Frame.refl s, by simp [pollTasks]⟩
  | cons id ids ih =>
    obtain ⟨e1, e2, e3, e4⟩ := pollTask_eff s seq id
    obtain ⟨i1, i2, i3⟩ := ih (pollTask s seq id).1 (pollTask s seq id).2.1
    simp only [pollTasks]
    refine ⟨fun h => i1 (e1.mid h), Frame.trans ⟨e1.frame, e2, e3⟩ i2, ?_⟩
    intro p c m hm
    rcases List.mem_append.1 hm with h | h
    · exact e4 p c m h
    · exact i3 p c m h



theorem pickConn_mem (conns : KSet) (pref : Option Nat) (h : conns.isEmpty = false) :
    pickConn conns pref ∈ conns := by
  have hmin : conns.toList.head?.getD 0 ∈ conns := by
    cases hm : conns.toList with
    | nil =>
      rw [ExtTreeSet.toList_eq_nil_iff] at hm
      simp [hm] at h
    | cons a l =>
      have : a ∈ conns.toList := by rw [hm]; exact List.mem_cons_self
      simpa using (ExtTreeSet.mem_toList.1 this)
  unfold pickConn
  split
  · split
    · assumption
    · exact hmin
  · exact hmin

/-- the `go` part of `updatePeer` -/
def goPeer (w : Wantlist) (now : Nat) (pref : Option Nat) (ps : PeerSt) : Option PeerSt × Option (Nat × WlMsg) :=
    if ps.conns.isEmpty then (none, none)
    else
      let c := pickConn ps.conns pref
      let (wl, m) := if ps.sendFull then ps.wl.genFull w else ps.wl.genUpdate w
      if !ps.sendFull && m.isEmpty then (some { ps with wl := wl }, none)
      else (some { ps with wl := wl, sendFull := false, sending := .requested now c }, some (c, m))

theorem updatePeer_eq (w : Wantlist) (now : Nat) (ps : PeerSt) (pref : Option Nat) :
    updatePeer w now ps pref =
      match ps.sending with
      | .ready => goPeer w now pref ps
      | .requested t c =>
        if now - t < receiveRequestTimeout then (some ps, none)
        else goPeer w now pref { ps with conns := ps.conns.erase c, sendFull := true, sending := .ready }
      | .requestReceived _ => (some ps, none)
      | .sending _ => (some ps, none)
      | .failed c => goPeer w now pref { ps with conns := ps.conns.erase c, sendFull := true, sending := .ready } := rfl

theorem goPeer_empty (w : Wantlist) (now : Nat) (pref : Option Nat) (ps : PeerSt)
    (hc : ps.conns.isEmpty = true) : goPeer w now pref ps = (none, none) := by
  simp [goPeer, hc]

theorem goPeer_full (w : Wantlist) (now : Nat) (pref : Option Nat) (ps : PeerSt) (hf : ps.sendFull = true)
    (hc : ps.conns.isEmpty = false) :
    goPeer w now pref ps =
      (some { ps with wl := (ps.wl.genFull w).1, sendFull := false,
                      sending := .requested now (pickConn ps.conns pref) },
       some (pickConn ps.conns pref, (ps.wl.genFull w).2)) := by
  simp [goPeer, hf, hc]

theorem goPeer_upd (w : Wantlist) (now : Nat) (pref : Option Nat) (ps : PeerSt) (hf : ps.sendFull = false)
    (hc : ps.conns.isEmpty = false) :
    goPeer w now pref ps =
      if (ps.wl.genUpdate w).2.isEmpty then (some { ps with wl := (ps.wl.genUpdate w).1 }, none)
      else (some { ps with wl := (ps.wl.genUpdate w).1, sendFull := false,
                           sending := .requested now (pickConn ps.conns pref) },
            some (pickConn ps.conns pref, (ps.wl.genUpdate w).2)) := by
  simp [goPeer, hf, hc]

/-- Everything `goPeer` can return, as a relation. -/
inductive GoRes (w : Wantlist) (now : Nat) (pref : Option Nat) (ps : PeerSt) :
    Option PeerSt × Option (Nat × WlMsg) → Prop where
  | drop : ps.conns.isEmpty = true → GoRes w now pref ps (none, none)
  | full : ps.conns.isEmpty = false → ps.sendFull = true →
      GoRes w now pref ps
        (some { ps with wl := (ps.wl.genFull w).1, sendFull := false,
                        sending := .requested now (pickConn ps.conns pref) },
         some (pickConn ps.conns pref, (ps.wl.genFull w).2))
  | quiet : ps.conns.isEmpty = false → ps.sendFull = false → (ps.wl.genUpdate w).2.isEmpty = true →
      GoRes w now pref ps (some { ps with wl := (ps.wl.genUpdate w).1 }, none)
  | upd : ps.conns.isEmpty = false → ps.sendFull = false → (ps.wl.genUpdate w).2.isEmpty = false →
      GoRes w now pref ps
        (some { ps with wl := (ps.wl.genUpdate w).1, sendFull := false,
                        sending := .requested now (pickConn ps.conns pref) },
         some (pickConn ps.conns pref, (ps.wl.genUpdate w).2))

theorem goPeer_res (w : Wantlist) (now : Nat) (pref : Option Nat) (ps : PeerSt) :
    GoRes w now pref ps (goPeer w now pref ps) := by
  by_cases hc : ps.conns.isEmpty = true
  · rw [goPeer_empty _ _ _ _ hc]; exact .drop hc
  · have hc : ps.conns.isEmpty = false := by simpa using hc
    by_cases hf : ps.sendFull = true
    · rw [goPeer_full _ _ _ _ hf hc]; exact .full hc hf
    · have hf : ps.sendFull = false := by simpa using hf
      rw [goPeer_upd _ _ _ _ hf hc]
      by_cases he : (ps.wl.genUpdate w).2.isEmpty = true
      · simp only [he, if_true]; exact .quiet hc hf he
      · have he : (ps.wl.genUpdate w).2.isEmpty = false := by simpa using he
        simp only [he, Bool.false_eq_true, if_false]; exact .upd hc hf he

/-- Everything `updatePeer` can return. `ps0` is the state `go` started from. -/
inductive UpdRes (w : Wantlist) (now : Nat) (pref : Option Nat) (ps : PeerSt) :
    Option PeerSt × Option (Nat × WlMsg) → Prop where
  | idle : UpdRes w now pref ps (some ps, none)
  | go (ps0 : PeerSt) (res) : ps0.wl = ps.wl → (∀ c, c ∈ ps0.conns → c ∈ ps.conns) →
      (ps0.sendFull = true ∨ ps0 = ps) → GoRes w now pref ps0 res → UpdRes w now pref ps res

theorem updatePeer_res (w : Wantlist) (now : Nat) (ps : PeerSt) (pref : Option Nat) :
    UpdRes w now pref ps (updatePeer w now ps pref) := by
  rw [updatePeer_eq]
  cases hs : ps.sending with
  | ready => exact .go ps _ rfl (fun _ h => h) (.inr rfl) (goPeer_res _ _ _ _)
  | requested t c =>
    dsimp only
    split
    · exact .idle
    · exact .go { ps with conns := ps.conns.erase c, sendFull := true, sending := .ready } _ rfl
        (fun c h => ((kset_mem_erase _ _ _).1 h).2) (.inl rfl) (goPeer_res _ _ _ _)
  | requestReceived c => exact .idle
  | sending c => exact .idle
  | failed c =>
    exact .go { ps with conns := ps.conns.erase c, sendFull := true, sending := .ready } _ rfl
      (fun c h => ((kset_mem_erase _ _ _).1 h).2) (.inl rfl) (goPeer_res _ _ _ _)

/-- the history after the optional send of one `updatePeer` -/
def afterSend (g : Ghost) (want : KSet) : Option (Nat × WlMsg) → Ghost
  | some (_, m) => g.recordSend want m
  | none => g

theorem updatePeer_inv {s s' : State} {ps ps' : PeerSt} {g : Ghost} {now : Nat} {pref : Option Nat}
    {om : Option (Nat × WlMsg)}
    (h : PeerInv s ps g) (hc : ps.conns.isEmpty = false) (hw : s'.wantlist = s.wantlist)
    (hu : updatePeer s.wantlist now ps pref = (some ps', om)) :
    PeerInv s' ps' (afterSend g s.wantlist.cids om) ∧ ps'.conns.isEmpty = false := by
  have hr := updatePeer_res s.wantlist now ps pref
  rw [hu] at hr
  generalize hres : (some ps', om) = res at hr
  cases hr with
  | idle =>
    cases hres
    exact ⟨h.congr hw rfl, hc⟩
  | go ps0 _ hwl hsub _ hgo =>
    have h0 : PeerInv s ps0 g := h.congr rfl hwl
    cases hgo with
    | drop => cases hres
    | full hc0 hf =>
      cases hres
      exact ⟨peerInv_genFull h0 hw rfl, hc0⟩
    | quiet hc0 hf he =>
      cases hres
      refine ⟨?_, hc0⟩
      have := peerInv_genUpdate (s' := s') (ps' := { ps0 with wl := (ps0.wl.genUpdate s.wantlist).1 }) h0 hw rfl
      rw [recordSend_empty _ _ _ (genUpdate_full _ _) he] at this
      exact this
    | upd hc0 hf he =>
      cases hres
      exact ⟨peerInv_genUpdate h0 hw rfl, hc0⟩

theorem updatePeer_msg {w : Wantlist} {now : Nat} {ps : PeerSt} {pref : Option Nat} {c : Nat} {m : WlMsg}
    {ops : Option PeerSt}
    (hu : updatePeer w now ps pref = (ops, some (c, m))) :
    m = (ps.wl.genFull w).2 ∨ m = (ps.wl.genUpdate w).2 := by
  have hr := updatePeer_res w now ps pref
  rw [hu] at hr
  generalize hres : (ops, some (c, m)) = res at hr
  cases hr with
  | idle => cases hres
  | go ps0 _ hwl hsub _ hgo =>
    cases hgo with
    | drop => cases hres
    | full hc0 hf => cases hres; left; rw [hwl]
    | quiet hc0 hf he => cases hres
    | upd hc0 hf he => cases hres; right; rw [hwl]



/-- the send produced for peer `p` by `update_handlers` run on `s` -/
def sendOf (s : State) (now : Nat) (pref : Nat → Option Nat) (p : Nat) : Option Out :=
  match s.peers[p]? with
  | none => none
  | some ps =>
    match (updatePeer s.wantlist now ps (pref p)).2 with
    | some (c, m) => some (Out.send p c m)
    | none => none

def nextPeer (s : State) (now : Nat) (pref : Nat → Option Nat) (p : Nat) : Option PeerSt :=
  (s.peers[p]?).bind (fun ps => (updatePeer s.wantlist now ps (pref p)).1)

def uhStep (now : Nat) (pref : Nat → Option Nat) (acc : State × List Out) (p : Nat) : State × List Out :=
    match acc.1.peers[p]? with
    | none => acc
    | some ps =>
      let (ps', m) := updatePeer acc.1.wantlist now ps (pref p)
      let peers := match ps' with
        | some ps' => acc.1.peers.insert p ps'
        | none => acc.1.peers.erase p
      ({ acc.1 with peers := peers },
       match m with
       | some (c, m) => acc.2 ++ [Out.send p c m]
       | none => acc.2)

theorem updateHandlers_eq (s : State) (now : Nat) (pref : Nat → Option Nat) :
    updateHandlers s now pref = s.peers.keys.foldl (uhStep now pref) (s, []) := rfl

theorem uhStep_spec (now : Nat) (pref : Nat → Option Nat) (acc : State × List Out) (p : Nat) :
    (uhStep now pref acc p).1.wantlist = acc.1.wantlist ∧
    (uhStep now pref acc p).1.queue = acc.1.queue ∧
    (uhStep now pref acc p).1.deadline = acc.1.deadline ∧
    (∀ q, (uhStep now pref acc p).1.peers[q]? = if q = p then nextPeer acc.1 now pref p else acc.1.peers[q]?) ∧
    (uhStep now pref acc p).2 = acc.2 ++ (sendOf acc.1 now pref p).toList := by
  unfold uhStep nextPeer sendOf
  cases hp : acc.1.peers[p]? with
  | none =>
    refine ⟨rfl, rfl, rfl, ?_, by simp⟩
    intro q; by_cases hq : q = p
    · subst hq; simp [hp]
    · simp [hq]
  | some ps =>
    dsimp only
    rcases hu : updatePeer acc.1.wantlist now ps (pref p) with ⟨ps', m⟩
    refine ⟨rfl, rfl, rfl, ?_, ?_⟩
    · intro q
      cases ps' with
      | none => simp only [kmap_get_erase, Option.bind_some, hu]
      | some ps' => simp only [kmap_get_insert, Option.bind_some, hu]
    · rcases m with _ | ⟨c, m⟩ <;> simp

theorem sendOf_congr {s s' : State} {now : Nat} {pref : Nat → Option Nat} {p : Nat}
    (hw : s'.wantlist = s.wantlist) (hp : s'.peers[p]? = s.peers[p]?) :
    sendOf s' now pref p = sendOf s now pref p := by
  unfold sendOf; rw [hp, hw]

theorem nextPeer_congr {s s' : State} {now : Nat} {pref : Nat → Option Nat} {p : Nat}
    (hw : s'.wantlist = s.wantlist) (hp : s'.peers[p]? = s.peers[p]?) :
    nextPeer s' now pref p = nextPeer s now pref p := by
  unfold nextPeer; rw [hp, hw]

theorem filterMap_congr' {α β : Type} {f g : α → Option β} (l : List α) (h : ∀ a ∈ l, f a = g a) :
    l.filterMap f = l.filterMap g := by
  induction l with
  | nil => rfl
  | cons a as ih =>
    rw [List.filterMap_cons, List.filterMap_cons, h a (List.mem_cons_self ..),
      ih (fun b hb => h b (List.mem_cons_of_mem _ hb))]

theorem filterMap_cons_toList {α β : Type} (f : α → Option β) (a : α) (l : List α) :
    (a :: l).filterMap f = (f a).toList ++ l.filterMap f := by
  rw [List.filterMap_cons]; cases f a <;> rfl

theorem uh_fold (now : Nat) (pref : Nat → Option Nat) (l : List Nat) (hl : l.Nodup) (acc : State × List Out) :
    (l.foldl (uhStep now pref) acc).1.wantlist = acc.1.wantlist ∧
    (l.foldl (uhStep now pref) acc).1.queue = acc.1.queue ∧
    (l.foldl (uhStep now pref) acc).1.deadline = acc.1.deadline ∧
    (∀ p, (l.foldl (uhStep now pref) acc).1.peers[p]? =
      if p ∈ l then nextPeer acc.1 now pref p else acc.1.peers[p]?) ∧
    (l.foldl (uhStep now pref) acc).2 = acc.2 ++ l.filterMap (sendOf acc.1 now pref) := by
  induction l generalizing acc with
  | nil => simp
  | cons a as ih =>
    obtain ⟨hna, has⟩ := List.nodup_cons.1 hl
    obtain ⟨s1, s2, s3, s4, s5⟩ := uhStep_spec now pref acc a
    obtain ⟨i1, i2, i3, i4, i5⟩ := ih has (uhStep now pref acc a)
    simp only [List.foldl_cons]
    refine ⟨i1.trans s1, i2.trans s2, i3.trans s3, ?_, ?_⟩
    · intro p
      rw [i4 p]
      by_cases hpa : p = a
      · subst hpa; simp [hna, s4]
      · have hpe := s4 p
        simp only [hpa, if_false] at hpe
        simp only [List.mem_cons, hpa, false_or]
        rw [nextPeer_congr s1 hpe, hpe]
    · rw [i5, s5, filterMap_cons_toList, List.append_assoc]
      congr 2
      have : List.filterMap (sendOf (uhStep now pref acc a).1 now pref) as
          = List.filterMap (sendOf acc.1 now pref) as := by
        apply filterMap_congr'
        intro p hp
        have hpa : p ≠ a := fun e => hna (e ▸ hp)
        have hpe := s4 p
        simp only [hpa, if_false] at hpe
        exact sendOf_congr s1 hpe
      exact this

theorem updateHandlers_spec (s : State) (now : Nat) (pref : Nat → Option Nat) :
    (updateHandlers s now pref).1.wantlist = s.wantlist ∧
    (updateHandlers s now pref).1.queue = s.queue ∧
    (updateHandlers s now pref).1.deadline = s.deadline ∧
    (∀ p, (updateHandlers s now pref).1.peers[p]? = nextPeer s now pref p) ∧
    (updateHandlers s now pref).2 = s.peers.keys.filterMap (sendOf s now pref) := by
  rw [updateHandlers_eq]
  obtain ⟨i1, i2, i3, i4, i5⟩ := uh_fold now pref s.peers.keys ExtTreeMap.nodup_keys (s, [])
  refine ⟨i1, i2, i3, ?_, by simpa using i5⟩
  intro p
  rw [i4 p]
  by_cases hp : p ∈ s.peers.keys
  · simp [hp]
  · simp only [hp, if_false]
    have : s.peers[p]? = none := by
      rw [kmap_mem_keys] at hp
      cases h : s.peers[p]? with
      | none => rfl
      | some v => exact absurd ⟨v, h⟩ hp
    simp [nextPeer, this]

theorem mem_sends_iff (s : State) (now : Nat) (pref : Nat → Option Nat) (p c : Nat) (m : WlMsg) :
    Out.send p c m ∈ s.peers.keys.filterMap (sendOf s now pref) ↔
      ∃ ps, s.peers[p]? = some ps ∧ (updatePeer s.wantlist now ps (pref p)).2 = some (c, m) := by
  simp only [List.mem_filterMap, kmap_mem_keys]
  constructor
  · rintro ⟨a, ⟨ps, hps⟩, h⟩
    unfold sendOf at h
    simp only [hps] at h
    split at h
    · rename_i c' m' hu
      cases h
      exact ⟨ps, hps, hu⟩
    · cases h
  · rintro ⟨ps, hps, hu⟩
    refine ⟨p, ⟨ps, hps⟩, ?_⟩
    unfold sendOf
    simp only [hps, hu]

theorem sendsTo_append (a b : List Out) (p : Nat) : sendsTo (a ++ b) p = sendsTo a p ++ sendsTo b p := by
  simp [sendsTo]

theorem sendsTo_nil_of_nosend (a : List Out) (p : Nat) (h : ∀ q c m, Out.send q c m ∉ a) :
    sendsTo a p = [] := by
  unfold sendsTo
  rw [List.filterMap_eq_nil_iff]
  intro o ho
  cases o with
  | send q c m => exact absurd ho (h q c m)
  | _ => rfl

theorem sendsTo_sends (s : State) (now : Nat) (pref : Nat → Option Nat) (l : List Nat) (hl : l.Nodup) (p : Nat) :
    sendsTo (l.filterMap (sendOf s now pref)) p =
      if p ∈ l then
        (match s.peers[p]? with
          | none => []
          | some ps =>
            match (updatePeer s.wantlist now ps (pref p)).2 with
            | some (_, m) => [m]
            | none => [])
      else [] := by
  induction l with
  | nil => simp [sendsTo]
  | cons a as ih =>
    obtain ⟨hna, has⟩ := List.nodup_cons.1 hl
    rw [filterMap_cons_toList]
    have hhead : sendsTo (sendOf s now pref a).toList p =
        if p = a then
          (match s.peers[p]? with
            | none => []
            | some ps =>
              match (updatePeer s.wantlist now ps (pref p)).2 with
              | some (_, m) => [m]
              | none => [])
        else [] := by
      unfold sendOf
      by_cases hpa : p = a
      · subst hpa
        simp only [if_true]
        cases s.peers[p]? with
        | none => rfl
        | some ps =>
          dsimp only
          rcases (updatePeer s.wantlist now ps (pref p)).2 with _ | ⟨c, m⟩
          · rfl
          · simp [sendsTo]
      · simp only [hpa, if_false]
        cases s.peers[a]? with
        | none => rfl
        | some ps =>
          dsimp only
          rcases (updatePeer s.wantlist now ps (pref a)).2 with _ | ⟨c, m⟩
          · rfl
          · have : a ≠ p := fun e => hpa e.symm
            simp [sendsTo, this]
    rw [sendsTo_append, hhead, ih has]
    by_cases hpa : p = a
    · subst hpa; simp [hna]
    · simp [hpa]


/-! ### `drain` as a composition -/

def refresh (s : State) (now : Nat) : State :=
  if s.deadline ≤ now then
    { s with peers := KMap.tab s.peers.keys (fun p => (s.peers[p]?).map (fun ps => { ps with sendFull := true })),
             deadline := now + sendFullInterval }
  else s

/-- state after the task phase of `drain` -/
def afterTasks (s : State) (now seq : Nat) : State × Nat × List Out :=
  let s1 := refresh { s with queue := [] } now
  pollTasks { s1 with runq := [] } seq s1.runq

theorem drain_eq (s : State) (now seq : Nat) (pref : Nat → Option Nat) :
    drain s now seq pref =
      ((updateHandlers (afterTasks s now seq).1 now pref).1, (afterTasks s now seq).2.1,
       s.queue ++ (afterTasks s now seq).2.2 ++ (updateHandlers (afterTasks s now seq).1 now pref).2) := rfl

theorem refresh_peers (s : State) (now p : Nat) :
    (refresh s now).peers[p]? =
      (s.peers[p]?).map (fun ps => ({ ps with sendFull := ps.sendFull || decide (s.deadline ≤ now) } : PeerSt)) := by
  unfold refresh
  by_cases h : s.deadline ≤ now
  · simp only [h, if_true, decide_true, Bool.or_true]
    exact get_tab_keys' s.peers (fun ps => ({ ps with sendFull := true } : PeerSt)) p
  · simp only [h, if_false, decide_false, Bool.or_false]
    cases s.peers[p]? <;> rfl

theorem refresh_wantlist (s : State) (now : Nat) : (refresh s now).wantlist = s.wantlist := by
  unfold refresh; split <;> rfl
theorem refresh_queue (s : State) (now : Nat) : (refresh s now).queue = s.queue := by
  unfold refresh; split <;> rfl
theorem refresh_deadline (s : State) (now : Nat) :
    (refresh s now).deadline = if s.deadline ≤ now then now + sendFullInterval else s.deadline := by
  unfold refresh; split <;> rfl

theorem refresh_mid {G : KMap Ghost} {s : State} (now : Nat) (h : MidInv G s) : MidInv G (refresh s now) := by
  constructor
  · intro p ps' hps'
    rw [refresh_peers] at hps'
    cases hps : s.peers[p]? with
    | none => simp [hps] at hps'
    | some ps =>
      simp only [hps, Option.map_some, Option.some.injEq] at hps'
      obtain ⟨g, hg, hi⟩ := h.peers p ps hps
      exact ⟨g, hg, hi.congr (refresh_wantlist s now) (by rw [← hps'])⟩
  · rw [refresh_wantlist]; exact h.rev_zero
  · intro p ps' hps'
    rw [refresh_peers] at hps'
    cases hps : s.peers[p]? with
    | none => simp [hps] at hps'
    | some ps =>
      simp only [hps, Option.map_some, Option.some.injEq] at hps'
      rw [← hps']
      exact h.conns_nonempty p ps hps

theorem afterTasks_spec (s : State) (now seq : Nat) :
    (∀ G, MidInv G s → MidInv G (afterTasks s now seq).1) ∧
    (∀ p : Nat, ((afterTasks s now seq).1.peers[p]?).map pframe =
      (s.peers[p]?).map (fun ps => (ps.conns, ps.sending, ps.sendFull || decide (s.deadline ≤ now)))) ∧
    (afterTasks s now seq).1.queue = [] ∧
    (afterTasks s now seq).1.deadline = (if s.deadline ≤ now then now + sendFullInterval else s.deadline) ∧
    (∀ p c m, Out.send p c m ∉ (afterTasks s now seq).2.2) := by
  unfold afterTasks
  generalize hs1 : refresh { s with queue := [] } now = s1
  have hpeers : ∀ p : Nat, s1.peers[p]? =
      (s.peers[p]?).map (fun ps => ({ ps with sendFull := ps.sendFull || decide (s.deadline ≤ now) } : PeerSt)) := by
    intro p; rw [← hs1, refresh_peers]
  dsimp only
  refine ⟨?_, ?_, ?_, ?_, ?_⟩
  · intro G hm
    have h0 : MidInv G { s with queue := [] } := hm.congr rfl rfl
    have h1 : MidInv G s1 := hs1 ▸ refresh_mid now h0
    exact (pollTasks_ok G s1.runq { s1 with runq := [] } seq).1 (h1.congr rfl rfl)
  · intro p
    have := (pollTasks_ok ∅ s1.runq { s1 with runq := [] } seq).2.1.1 p
    rw [this]
    show (s1.peers[p]?).map pframe = _
    rw [hpeers p]
    cases s.peers[p]? <;> rfl
  · have := (pollTasks_ok ∅ s1.runq { s1 with runq := [] } seq).2.1.2.1
    rw [this]
    show s1.queue = []
    rw [← hs1, refresh_queue]
  · have := (pollTasks_ok ∅ s1.runq { s1 with runq := [] } seq).2.1.2.2
    rw [this]
    show s1.deadline = _
    rw [← hs1, refresh_deadline]
  · exact (pollTasks_ok ∅ s1.runq { s1 with runq := [] } seq).2.2

theorem afterTasks_mem (s : State) (now seq p : Nat) :
    p ∈ (afterTasks s now seq).1.peers ↔ p ∈ s.peers := by
  have := (afterTasks_spec s now seq).2.1 p
  rw [kmap_mem_iff, kmap_mem_iff]
  cases h1 : (afterTasks s now seq).1.peers[p]? <;> cases h2 : s.peers[p]? <;> simp [h1, h2] at this ⊢

/-- what one peer gets out of `update_handlers` run on `s` -/
def sentTo (s : State) (now : Nat) (pref : Nat → Option Nat) (p : Nat) : Option (Nat × WlMsg) :=
  (s.peers[p]?).bind (fun ps => (updatePeer s.wantlist now ps (pref p)).2)

theorem drain_spec (s : State) (now seq : Nat) (pref : Nat → Option Nat)
    (hq : ∀ p c m, Out.send p c m ∉ s.queue) :
    (drain s now seq pref).1.wantlist = (afterTasks s now seq).1.wantlist ∧
    (drain s now seq pref).1.queue = [] ∧
    (drain s now seq pref).1.deadline = (if s.deadline ≤ now then now + sendFullInterval else s.deadline) ∧
    (∀ p, (drain s now seq pref).1.peers[p]? = nextPeer (afterTasks s now seq).1 now pref p) ∧
    (∀ p, sendsTo (drain s now seq pref).2.2 p =
      match sentTo (afterTasks s now seq).1 now pref p with
      | some (_, m) => [m]
      | none => []) ∧
    (∀ p c m, Out.send p c m ∈ (drain s now seq pref).2.2 ↔
      sentTo (afterTasks s now seq).1 now pref p = some (c, m)) := by
  rw [drain_eq]
  obtain ⟨a1, a2, a3, a4, a5⟩ := afterTasks_spec s now seq
  obtain ⟨u1, u2, u3, u4, u5⟩ := updateHandlers_spec (afterTasks s now seq).1 now pref
  dsimp only
  refine ⟨u1, u2.trans a3, u3.trans a4, u4, ?_, ?_⟩
  · intro p
    rw [sendsTo_append, sendsTo_append, sendsTo_nil_of_nosend _ p hq, sendsTo_nil_of_nosend _ p a5, u5,
      sendsTo_sends _ _ _ _ ExtTreeMap.nodup_keys]
    unfold sentTo
    by_cases hp : p ∈ (afterTasks s now seq).1.peers.keys
    · simp only [hp, if_true, List.nil_append]
      cases (afterTasks s now seq).1.peers[p]? with
      | none => rfl
      | some ps =>
        simp only [Option.bind_some]
        try (rcases (updatePeer (afterTasks s now seq).1.wantlist now ps (pref p)).2 with _ | ⟨c, m⟩ <;> rfl)
    · simp only [hp, if_false, List.nil_append]
      rw [kmap_mem_keys] at hp
      cases h : (afterTasks s now seq).1.peers[p]? with
      | none => rfl
      | some v => exact absurd ⟨v, h⟩ hp
  · intro p c m
    rw [u5, List.mem_append, List.mem_append, mem_sends_iff]
    unfold sentTo
    constructor
    · rintro ((h | h) | ⟨ps, hps, hu⟩)
      · exact absurd h (hq p c m)
      · exact absurd h (a5 p c m)
      · simp [hps, hu]
    · intro h
      right
      cases hps : (afterTasks s now seq).1.peers[p]? with
      | none => simp [hps] at h
      | some ps =>
        simp only [hps, Option.bind_some] at h
        exact ⟨ps, rfl, h⟩

/-- the part of `drain_spec` that needs no assumption on the event queue -/
theorem drain_spec_nq (s : State) (now seq : Nat) (pref : Nat → Option Nat) :
    (drain s now seq pref).1.deadline = (if s.deadline ≤ now then now + sendFullInterval else s.deadline) ∧
    (∀ p, (drain s now seq pref).1.peers[p]? = nextPeer (afterTasks s now seq).1 now pref p) ∧
    (∀ p c m, sentTo (afterTasks s now seq).1 now pref p = some (c, m) →
      Out.send p c m ∈ (drain s now seq pref).2.2) := by
  rw [drain_eq]
  obtain ⟨a1, a2, a3, a4, a5⟩ := afterTasks_spec s now seq
  obtain ⟨u1, u2, u3, u4, u5⟩ := updateHandlers_spec (afterTasks s now seq).1 now pref
  dsimp only
  refine ⟨u3.trans a4, u4, ?_⟩
  intro p c m h
  rw [u5, List.mem_append, mem_sends_iff]
  right
  unfold sentTo at h
  cases hps : (afterTasks s now seq).1.peers[p]? with
  | none => simp [hps] at h
  | some ps =>
    simp only [hps, Option.bind_some] at h
    exact ⟨ps, rfl, h⟩

end Beetswap.Proofs.ClientView
