import Beetswap.Proofs.NetDefs
import Beetswap.Proofs.Server
import Beetswap.Proofs.ClientViewDrain
/-!
Helpers for `Proofs/NetB.lean`, part 1: `absorbB`, the trivial client half of the serving node,
`Node.step … (.drain [] [])` on such a node, list helpers.
-/
namespace Beetswap.Proofs.Net
open Std Beetswap.Net Beetswap.Wl
open Beetswap.Client (PeerSt Sending StoreRes Out TaskSt TaskKind Sys sendFullInterval)

/-! ### `absorbB` -/

def outBlocks : Out → Option (List (Nat × Nat))
  | .blocks _ bs => some bs
  | _ => none

def outCalls : Out → Option (Nat × Nat)
  | .callGet n k => some (n, k)
  | _ => none

theorem absorbB_spec (outs : List Out) (s : State) :
    absorbB s outs = { s with wireBA := s.wireBA ++ outs.filterMap outBlocks,
                              callsB := s.callsB ++ outs.filterMap outCalls } := by
  induction outs generalizing s with
  | nil => simp [absorbB]
  | cons o os ih =>
    have : absorbB s (o :: os) = absorbB (absorbB s [o]) os := by simp [absorbB]
    rw [this, ih]
    cases o <;> simp [absorbB, List.filterMap_cons, outBlocks, outCalls]

theorem drainB_eq (s : State) :
    step s .drainB =
      absorbB { s with b := (Node.step s.b (.drain [] [])).1 } (Node.step s.b (.drain [] [])).2.1 := rfl

/-! ### The client half of `b` -/

/-- a client half without lookup tasks and queued events -/
def ClTriv (c : Client.State) : Prop :=
  c.tasks = [] ∧ c.runq = [] ∧ c.queue = [] ∧ c.newBlocks = []

def isSendOut (o : Out) : Prop := ∃ p c m, o = Out.send p c m

theorem cl_uhStep (now : Nat) (pref : Nat → Option Nat) (acc : Client.State × List Out) (p : Nat)
    (h : ClTriv acc.1 ∧ ∀ o ∈ acc.2, isSendOut o) :
    ClTriv (ClientView.uhStep now pref acc p).1 ∧
      ∀ o ∈ (ClientView.uhStep now pref acc p).2, isSendOut o := by
  unfold ClientView.uhStep
  split
  · exact h
  · dsimp only
    refine ⟨h.1, ?_⟩
    split
    · intro o ho
      rcases List.mem_append.1 ho with ho | ho
      · exact h.2 o ho
      · simp at ho; exact ⟨_, _, _, ho⟩
    · exact h.2

theorem cl_uh_fold (now : Nat) (pref : Nat → Option Nat) (l : List Nat)
    (acc : Client.State × List Out) (h : ClTriv acc.1 ∧ ∀ o ∈ acc.2, isSendOut o) :
    ClTriv (l.foldl (ClientView.uhStep now pref) acc).1 ∧
      ∀ o ∈ (l.foldl (ClientView.uhStep now pref) acc).2, isSendOut o := by
  induction l generalizing acc with
  | nil => exact h
  | cons p l ih => exact ih _ (cl_uhStep now pref acc p h)

theorem client_drain_triv (c : Client.State) (now seq : Nat) (pref : Nat → Option Nat)
    (h : ClTriv c) :
    ClTriv (Client.drain c now seq pref).1 ∧ (Client.drain c now seq pref).2.1 = seq ∧
    ∀ o ∈ (Client.drain c now seq pref).2.2, isSendOut o := by
  obtain ⟨h1, h2, h3, h4⟩ := h
  have hr : (ClientView.refresh { c with queue := [] } now).runq = [] := by
    unfold ClientView.refresh; split <;> exact h2
  have ha : ClientView.afterTasks c now seq =
      ({ ClientView.refresh { c with queue := [] } now with runq := [] }, seq, []) := by
    unfold ClientView.afterTasks
    dsimp only
    rw [hr]; rfl
  have ht : ClTriv (ClientView.afterTasks c now seq).1 := by
    rw [ha]
    unfold ClientView.refresh
    split <;> exact ⟨h1, rfl, rfl, h4⟩
  rw [ClientView.drain_eq, ClientView.updateHandlers_eq]
  obtain ⟨f1, f2⟩ := cl_uh_fold now pref (ClientView.afterTasks c now seq).1.peers.keys
    ((ClientView.afterTasks c now seq).1, []) ⟨ht, by simp⟩
  refine ⟨f1, by rw [ha], ?_⟩
  have hout : (ClientView.afterTasks c now seq).2.2 = [] := by rw [ha]
  dsimp only
  rw [h3, hout]
  simpa using f2

theorem filterMap_sends (f : Out → Option α) (hf : ∀ p c m, f (Out.send p c m) = none)
    (l : List Out) (h : ∀ o ∈ l, isSendOut o) : l.filterMap f = [] := by
  rw [List.filterMap_eq_nil_iff]
  intro o ho
  obtain ⟨p, c, m, rfl⟩ := h o ho
  exact hf p c m

theorem node_drain_eq (b : Node.State) :
    Node.step b (.drain [] []) =
      let r1 := Client.drain b.client b.now b.seq (fun _ => none)
      let r2 := Client.takeNewBlocks r1.1
      let sv := if r2.2.isEmpty then b.server else Server.newBlocks b.server r2.2
      let r3 := Server.drain sv r1.2.1 (fun _ => none)
      ({ b with client := r2.1, server := r3.1, seq := r3.2.1 }, r1.2.2 ++ r3.2.2, none) := rfl

/-- draining a node whose client half is trivial is draining its server half -/
theorem node_drain_triv (b : Node.State) (h : ClTriv b.client) :
    (Node.step b (.drain [] [])).1.server = (Server.drain b.server b.seq (fun _ => none)).1 ∧
    (Node.step b (.drain [] [])).1.seq = (Server.drain b.server b.seq (fun _ => none)).2.1 ∧
    ClTriv (Node.step b (.drain [] [])).1.client ∧
    (Node.step b (.drain [] [])).2.1.filterMap outCalls =
      (Server.drain b.server b.seq (fun _ => none)).2.2.filterMap outCalls ∧
    (Node.step b (.drain [] [])).2.1.filterMap outBlocks =
      (Server.drain b.server b.seq (fun _ => none)).2.2.filterMap outBlocks := by
  obtain ⟨c1, c2, c3⟩ := client_drain_triv b.client b.now b.seq (fun _ => none) h
  rw [node_drain_eq]
  generalize Client.drain b.client b.now b.seq (fun _ => none) = r1 at c1 c2 c3
  have hnb : (Client.takeNewBlocks r1.1).2 = [] := c1.2.2.2
  dsimp only
  rw [hnb, c2]
  simp only [List.isEmpty_nil, if_true, List.filterMap_append]
  rw [filterMap_sends outCalls (fun _ _ _ => rfl) _ c3,
    filterMap_sends outBlocks (fun _ _ _ => rfl) _ c3]
  exact ⟨trivial, trivial, ⟨c1.1, c1.2.1, c1.2.2.1, rfl⟩, rfl, rfl⟩

/-! ### Lists -/

theorem mem_enqueue (l : List Nat) (a x : Nat) : x ∈ Client.enqueue l a ↔ x ∈ l ∨ x = a := by
  unfold Client.enqueue
  split
  · rename_i h
    constructor
    · exact Or.inl
    · rintro (h' | rfl)
      · exact h'
      · exact h
  · simp

theorem uniq_of_nodup_map {α : Type} (f : α → Nat) {l : List α} (h : (l.map f).Nodup) {a b : α}
    (ha : a ∈ l) (hb : b ∈ l) (e : f a = f b) : a = b := by
  induction l with
  | nil => cases ha
  | cons x xs ih =>
    simp only [List.map_cons, List.nodup_cons] at h
    rcases List.mem_cons.1 ha with ha' | ha' <;> rcases List.mem_cons.1 hb with hb' | hb'
    · rw [ha', hb']
    · subst ha'
      exact absurd (e ▸ List.mem_map_of_mem (f := f) hb') h.1
    · subst hb'
      exact absurd (e ▸ List.mem_map_of_mem (f := f) ha') h.1
    · exact ih h.2 ha' hb'

theorem lookupRes_hit (store : KMap Nat) (k d : Nat) :
    lookupRes store k = StoreRes.hit d ↔ store[k]? = some d := by
  unfold lookupRes
  cases store[k]? <;> simp

theorem lookupRes_of_get {store : KMap Nat} {k d : Nat} (h : store[k]? = some d) :
    lookupRes store k = StoreRes.hit d := (lookupRes_hit store k d).2 h

end Beetswap.Proofs.Net
