import Beetswap.Proofs.NetGhost
import Beetswap.Proofs.NetB
/-!
The invariant across the connection (`XInv`): `b`'s record of `a`'s wants against what `a` told `b`.
-/
namespace Beetswap.Proofs.Net
open Std Beetswap.Net Beetswap.Wl
open Beetswap.Client (PeerSt Sending StoreRes Out TaskSt TaskKind Sys sendFullInterval)
open Beetswap.Spec.ClientSpec (GSys Ghost gstep grun GInv)
open Beetswap.Server (maxWantlistEntries processWantlist Entry)
open Beetswap.Proofs.Server (kset_mem_insert kset_mem_erase kset_nodup_toList kset_mem_toList)

/-! ### The cap of `b`'s record cannot bind while few CIDs are in play -/

/-- a set inside a list misses no element of the list once it is as large as the list -/
theorem kset_size_lt (t : KSet) (L : List Nat) (k : Nat) (ht : ∀ j, j ∈ t → j ∈ L) (hk : k ∈ L)
    (hkt : k ∉ t) : t.size < L.length := by
  have hnd : (k :: t.toList).Nodup := by
    rw [List.nodup_cons]
    exact ⟨fun h => hkt (kset_mem_toList.1 h), kset_nodup_toList t⟩
  have hsub : (k :: t.toList) ⊆ L := by
    intro j hj
    rcases List.mem_cons.1 hj with rfl | hj
    · exact hk
    · exact ht j (kset_mem_toList.1 hj)
  have := hnd.length_le_of_subset hsub
  simp only [List.length_cons, ExtTreeSet.length_toList] at this
  omega

theorem addLoop_mono (ks : List Nat) (cur : KSet) (added : List Nat) (k : Nat) (hk : k ∈ cur) :
    k ∈ (processWantlist.addLoop cur added ks).1 := by
  obtain ⟨a, _, _, _, a4, _, _⟩ := Server.addLoop_spec ks cur added
  exact (a4 k).2 (Or.inl hk)

/-- the add loop of an update records every entry while the CIDs in play are at most the cap -/
theorem addLoop_all (L : List Nat) (hL : L.length ≤ maxWantlistEntries) (ks : List Nat) (cur : KSet)
    (added : List Nat) (hcur : ∀ j, j ∈ cur → j ∈ L) (hks : ∀ j, j ∈ ks → j ∈ L) :
    ∀ k, k ∈ ks → k ∈ (processWantlist.addLoop cur added ks).1 := by
  induction ks generalizing cur added with
  | nil => intro k hk; cases hk
  | cons x xs ih =>
    intro k hk
    unfold processWantlist.addLoop
    split
    · rename_i hfull
      show k ∈ cur
      apply Classical.byContradiction
      intro hkc
      have := kset_size_lt cur L k hcur (hks k hk) hkc
      omega
    · split
      · rename_i hx
        rcases List.mem_cons.1 hk with rfl | hk'
        · exact addLoop_mono xs cur added _ hx
        · exact ih cur added hcur (fun j hj => hks j (List.mem_cons_of_mem _ hj)) k hk'
      · have hcur' : ∀ j, j ∈ cur.insert x → j ∈ L := by
          intro j hj
          rcases kset_mem_insert.1 hj with rfl | hj
          · exact hks _ (List.mem_cons_self ..)
          · exact hcur j hj
        rcases List.mem_cons.1 hk with rfl | hk'
        · exact addLoop_mono xs _ _ _ (kset_mem_insert.2 (Or.inl rfl))
        · exact ih _ _ hcur' (fun j hj => hks j (List.mem_cons_of_mem _ hj)) k hk'

/-! ### The entries of a wantlist message -/

theorem mem_entriesOf_add (m : WlMsg) (k : Nat) :
    (⟨some k, false⟩ : Entry) ∈ entriesOf m ↔ k ∈ m.wantHave ∨ k ∈ m.wantBlock := by
  simp [entriesOf]

theorem mem_entriesOf_cancel (m : WlMsg) (k : Nat) :
    (⟨some k, true⟩ : Entry) ∈ entriesOf m ↔ k ∈ m.cancel := by
  simp [entriesOf]

/-- the non-cancel CIDs of the entries of a message without want-block entries -/
theorem filterMap_entriesOf (m : WlMsg) (hwb : m.wantBlock = []) :
    (entriesOf m).filterMap (fun e => if e.cancel then none else e.cid) = m.wantHave := by
  unfold entriesOf
  rw [hwb, List.append_nil, List.filterMap_append]
  have h1 : ∀ l : List Nat, (l.map (fun k => (⟨some k, false⟩ : Entry))).filterMap
      (fun e => if e.cancel then none else e.cid) = l := by
    intro l; induction l with
    | nil => rfl
    | cons a l ih => simp [ih]
  have h2 : ∀ l : List Nat, (l.map (fun k => (⟨some k, true⟩ : Entry))).filterMap
      (fun e => if e.cancel then none else e.cid) = [] := by
    intro l; induction l with
    | nil => rfl
    | cons a l ih => simp [ih]
  rw [h1, h2, List.append_nil]

/-- what `b` records from a wantlist message (processed against `cur`) -/
theorem record_sub (cur : KSet) (m : WlMsg) (k : Nat)
    (h : k ∈ (processWantlist cur m.full (entriesOf m)).1) :
    (k ∈ m.wantHave ∨ k ∈ m.wantBlock) ∨ (m.full = false ∧ k ∈ cur ∧ k ∉ m.cancel) := by
  cases hf : m.full with
  | true =>
    rw [hf] at h
    left
    rw [Server.mem_full_new] at h
    exact (mem_entriesOf_add m k).1 (Server.mem_fullWanted_sub _ k h)
  | false =>
    rw [hf] at h
    rcases Server.update_mem_new cur _ k h with ⟨h1, h2⟩ | h1
    · right; exact ⟨rfl, h1, fun hc => h2 ((mem_entriesOf_cancel m k).2 hc)⟩
    · left; exact (mem_entriesOf_add m k).1 h1

/-- … and it records all of it while the cap cannot bind -/
theorem record_sup (L : List Nat) (hL : L.length ≤ maxWantlistEntries) (cur : KSet) (m : WlMsg)
    (hwb : m.wantBlock = []) (hnd : m.wantHave.Nodup) (hcur : ∀ j, j ∈ cur → j ∈ L)
    (hm : ∀ j, j ∈ m.wantHave → j ∈ L) (k : Nat)
    (h : k ∈ m.wantHave ∨ (m.full = false ∧ k ∈ cur ∧ k ∉ m.cancel)) :
    k ∈ (processWantlist cur m.full (entriesOf m)).1 := by
  cases hf : m.full with
  | true =>
    rw [Server.mem_full_new]
    rcases h with h | ⟨h, _⟩
    · unfold Server.fullWanted
      rw [filterMap_entriesOf m hwb, List.take_of_length_le]
      · exact h
      · exact Nat.le_trans (hnd.length_le_of_subset hm) hL
    · rw [hf] at h; cases h
  | false =>
    rw [Server.processWantlist_update]
    obtain ⟨c1, _, _⟩ := Server.cancelLoop_spec (Server.updCancels (entriesOf m)) cur []
    have hcur' : ∀ j, j ∈ (Server.cancelLoop cur [] (Server.updCancels (entriesOf m))).1 → j ∈ L :=
      fun j hj => hcur j ((c1 j).1 hj).1
    show k ∈ (processWantlist.addLoop _ _ _).1
    rcases h with h | ⟨_, h2, h3⟩
    · apply addLoop_all L hL _ _ _ hcur'
      · intro j hj
        have := (mem_entriesOf_add m j).1 ((Server.mem_updAdds _ j).1 hj)
        rw [hwb] at this
        rcases this with h | h
        · exact hm j h
        · cases h
      · exact (Server.mem_updAdds _ k).2 ((mem_entriesOf_add m k).2 (Or.inl h))
    · apply addLoop_mono
      rw [c1, Server.mem_updCancels, mem_entriesOf_cancel]
      exact ⟨h2, h3⟩

/-! ### `XInv` is inductive -/

theorem XInv.frame {g g' : GS} (hx : XInv g) (hh : ahist g' = ahist g) (hb : bset g'.s = bset g.s)
    (hab : g'.s.wireAB = g.s.wireAB) (hba : g'.s.wireBA = g.s.wireBA) (hst : g'.s.storeB = g.s.storeB)
    (hask : ∀ k, k ∈ g.asked → k ∈ g'.asked) (hlen : g.asked.length ≤ g'.asked.length) : XInv g' := by
  constructor
  · intro k hk; rw [hh] at hk; exact hask k (hx.told_asked k hk)
  · intro k hk; rw [hb] at hk; exact hask k (hx.set_asked k hk)
  · rw [hab]; exact hx.msg_wb
  · rw [hab]; exact hx.msg_nodup
  · rw [hab, hh]; exact hx.msg_told
  · rw [hab, hh, hb]; exact hx.set_told
  · intro hcap
    rw [hab, hba, hh, hb]
    exact hx.told_set (Nat.le_trans hlen hcap)
  · rw [hh, hst]; exact hx.deliv_store

theorem ahist_ginit (store : KMap Nat) : ahist (ginit store) = {} := by
  rw [ahist_eq]
  show hist1 (gstep {} (.connect 1 1)).1 = {}
  have h1 : 1 ∈ (Beetswap.Client.step ({} : GSys).sys (.connect 1 1)).1.s.peers := by
    show 1 ∈ (Client.connect {} 1 1).peers
    simp [Client.connect]
  rw [hist1_gstep _ _ h1]
  show ClientView.base {} 1 = {}
  apply ClientView.base_of_none
  exact ClientView.kmap_get_empty 1

theorem bset_init (store : KMap Nat) : bset (init store) = ∅ := by
  simp [bset, init, Node.step, Server.connect]

theorem xinv_init (store : KMap Nat) : XInv (ginit store) := by
  have hh := ahist_ginit store
  have hb : bset (ginit store).s = ∅ := bset_init store
  have hw : (ginit store).s.wireAB = [] := rfl
  constructor
  · intro k hk; rw [hh] at hk; exact absurd hk ExtTreeSet.not_mem_empty
  · intro k hk; rw [hb] at hk; exact absurd hk ExtTreeSet.not_mem_empty
  · intro m hm; rw [hw] at hm; cases hm
  · intro m hm; rw [hw] at hm; cases hm
  · intro m hm; rw [hw] at hm; cases hm
  · intro k hk; rw [hb] at hk; exact absurd hk ExtTreeSet.not_mem_empty
  · intro _ k hk; rw [hh] at hk; exact absurd hk ExtTreeSet.not_mem_empty
  · intro k hk; rw [hh] at hk; exact absurd hk ExtTreeSet.not_mem_empty

/-- the user actions and the blockstore completions of `a` leave the wires alone -/
theorem step_wires_user (s : State) (act : Act)
    (h : act = .refresh ∨ (∃ k, act = .get k) ∨ (∃ q, act = .cancel q) ∨ (∃ n, act = .lookupA n) ∨
      (∃ n, act = .putDoneA n)) :
    (step s act).wireAB = s.wireAB ∧ (step s act).wireBA = s.wireBA := by
  rcases h with rfl | ⟨k, rfl⟩ | ⟨q, rfl⟩ | ⟨n, rfl⟩ | ⟨n, rfl⟩
  · exact ⟨rfl, rfl⟩
  · exact ⟨rfl, rfl⟩
  · exact ⟨rfl, rfl⟩
  · simp only [step]; split <;> exact ⟨rfl, rfl⟩
  · simp only [step]; split <;> exact ⟨rfl, rfl⟩

theorem xinv_user (g : GS) (act : Act) (ha : AInv g) (hx : XInv g)
    (h : act = .refresh ∨ (∃ k, act = .get k) ∨ (∃ q, act = .cancel q) ∨ (∃ n, act = .lookupA n) ∨
      (∃ n, act = .putDoneA n)) : XInv (gnext g act) := by
  have hne1 : act ≠ .drainA := by rcases h with rfl | ⟨k, rfl⟩ | ⟨q, rfl⟩ | ⟨n, rfl⟩ | ⟨n, rfl⟩ <;> simp
  have hne2 : act ≠ .deliverBA := by rcases h with rfl | ⟨k, rfl⟩ | ⟨q, rfl⟩ | ⟨n, rfl⟩ | ⟨n, rfl⟩ <;> simp
  have htb : act.touchesB = false := by
    rcases h with rfl | ⟨k, rfl⟩ | ⟨q, rfl⟩ | ⟨n, rfl⟩ | ⟨n, rfl⟩ <;> rfl
  obtain ⟨w1, w2⟩ := step_wires_user g.s act h
  apply hx.frame (ahist_calm g act ha (aOps_calm g.s act hne1 hne2)) (bset_frame g.s act htb) w1 w2
    (step_storeB g.s act)
  · intro k hk
    show k ∈ (gnext g act).asked
    simp only [gnext]
    split
    · exact List.mem_append_left _ hk
    · exact hk
  · show g.asked.length ≤ (gnext g act).asked.length
    simp only [gnext]
    split
    · simp
    · exact Nat.le_refl _

theorem xinv_lookupB (g : GS) (n : Nat) (hb : BInv g.s) (ha : AInv g) (hx : XInv g) :
    XInv (gnext g (.lookupB n)) := by
  obtain ⟨_, f2, f3, _⟩ := lookupB_frame g.s n
  exact hx.frame (ahist_calm g _ ha (aOps_calm g.s _ (by simp) (by simp))) (lookupB_bset g.s hb n) f2 f3
    (step_storeB g.s _) (fun k hk => hk) (Nat.le_refl _)

theorem xinv_drainB (g : GS) (hb : BInv g.s) (ha : AInv g) (hx : XInv g) : XInv (gnext g .drainB) := by
  have hh : ahist (gnext g .drainB) = ahist g := ahist_calm g _ ha (aOps_calm g.s _ (by simp) (by simp))
  obtain ⟨_, f2, _⟩ := drainB_frame g.s
  obtain ⟨new, hnew⟩ := drainB_wire g.s
  have hsub := drainB_bset_sub g.s hb
  have hlost := drainB_lost g.s hb
  constructor
  · intro k hk; rw [hh] at hk; exact hx.told_asked k hk
  · intro k hk; exact hx.set_asked k (hsub k hk)
  · show ∀ m ∈ (step g.s .drainB).wireAB, _; rw [f2]; exact hx.msg_wb
  · show ∀ m ∈ (step g.s .drainB).wireAB, _; rw [f2]; exact hx.msg_nodup
  · show ∀ m ∈ (step g.s .drainB).wireAB, _; rw [f2, hh]; exact hx.msg_told
  · intro k hk hm
    rw [hh]
    exact hx.set_told k (hsub k hk) (by rw [← f2]; exact hm)
  · intro hcap k hk
    rw [hh] at hk ⊢
    show _ ∨ (∃ bs ∈ (step g.s .drainB).wireBA, _) ∨ (∃ m ∈ (step g.s .drainB).wireAB, _) ∨
      (k ∈ bset (step g.s .drainB) ∧ ∀ m ∈ (step g.s .drainB).wireAB, _)
    rw [f2]
    rcases hx.told_set hcap k hk with h | ⟨bs, hbs, h⟩ | h | ⟨h1, h2⟩
    · exact Or.inl h
    · exact Or.inr (Or.inl ⟨bs, by rw [hnew]; exact List.mem_append_left _ hbs, h⟩)
    · exact Or.inr (Or.inr (Or.inl h))
    · by_cases hk' : k ∈ bset (step g.s .drainB)
      · exact Or.inr (Or.inr (Or.inr ⟨hk', h2⟩))
      · exact Or.inr (Or.inl (hlost k h1 hk'))
  · intro k hk; rw [hh] at hk
    show ∃ d, (step g.s .drainB).storeB[k]? = some d
    rw [step_storeB]; exact hx.deliv_store k hk

theorem gnext_asked (g : GS) (act : Act) (h : ∀ k, act ≠ .get k) : (gnext g act).asked = g.asked := by
  cases act <;> first | rfl | exact absurd rfl (h _)

theorem xinv_deliverAB (g : GS) (hb : BInv g.s) (ha : AInv g) (hx : XInv g) :
    XInv (gnext g .deliverAB) := by
  have hh : ahist (gnext g .deliverAB) = ahist g :=
    ahist_calm g _ ha (aOps_calm g.s _ (by simp) (by simp))
  cases hw : g.s.wireAB with
  | nil =>
    have e := deliverAB_nil g.s hw
    apply hx.frame hh
    · show bset (step g.s .deliverAB) = _; rw [e]
    · show (step g.s .deliverAB).wireAB = _; rw [e]
    · show (step g.s .deliverAB).wireBA = _; rw [e]
    · exact step_storeB g.s _
    · intro k hk; exact hk
    · exact Nat.le_refl _
  | cons m rest =>
    obtain ⟨f1, f2, _⟩ := deliverAB_frame g.s m rest hw
    have hrest : rest = [] := by
      rcases ha.wire with ⟨_, h⟩ | ⟨_, m0, h⟩
      · rw [hw] at h; cases h
      · rw [hw] at h; simp at h; exact h.2
    have hbs := deliverAB_bset g.s hb m rest hw
    have hmem : m ∈ g.s.wireAB := by rw [hw]; exact List.mem_cons_self ..
    have hwb := hx.msg_wb m hmem
    have hwire' : (gnext g .deliverAB).s.wireAB = [] := by
      show (step g.s .deliverAB).wireAB = []; rw [f1, hrest]
    have hall : ∀ (k : Nat), (∀ m' ∈ g.s.wireAB, m'.full = false ∧ k ∉ m'.cancel) ↔
        (m.full = false ∧ k ∉ m.cancel) := by
      intro k; rw [hw, hrest]; simp
    constructor
    · intro k hk; rw [hh] at hk; exact hx.told_asked k hk
    · intro k hk
      change k ∈ bset (step g.s .deliverAB) at hk
      rw [hbs] at hk
      rcases record_sub _ m k hk with (h | h) | ⟨_, h, _⟩
      · exact hx.told_asked k (hx.msg_told m hmem k h)
      · rw [hwb] at h; cases h
      · exact hx.set_asked k h
    · intro m' hm'; rw [hwire'] at hm'; cases hm'
    · intro m' hm'; rw [hwire'] at hm'; cases hm'
    · intro m' hm'; rw [hwire'] at hm'; cases hm'
    · intro k hk _
      change k ∈ bset (step g.s .deliverAB) at hk
      rw [hbs] at hk
      rw [hh]
      rcases record_sub _ m k hk with (h | h) | ⟨h1, h2, h3⟩
      · exact hx.msg_told m hmem k h
      · rw [hwb] at h; cases h
      · exact hx.set_told k h2 ((hall k).2 ⟨h1, h3⟩)
    · intro hcap k hk
      rw [hh] at hk ⊢
      have hcap' : g.asked.length ≤ maxWantlistEntries := hcap
      have hsup := record_sup g.asked hcap' (bset g.s) m hwb (hx.msg_nodup m hmem) hx.set_asked
        (fun j hj => hx.told_asked j (hx.msg_told m hmem j hj))
      show _ ∨ (∃ bs ∈ (step g.s .deliverAB).wireBA, _) ∨ (∃ m' ∈ (gnext g .deliverAB).s.wireAB, _) ∨
        (k ∈ bset (step g.s .deliverAB) ∧ ∀ m' ∈ (gnext g .deliverAB).s.wireAB, _)
      rw [f2, hwire', hbs]
      rcases hx.told_set hcap' k hk with h | h | ⟨m', hm', h⟩ | ⟨h1, h2⟩
      · exact Or.inl h
      · exact Or.inr (Or.inl h)
      · have : m' = m := by rw [hw, hrest] at hm'; simpa using hm'
        subst this
        exact Or.inr (Or.inr (Or.inr ⟨hsup k (Or.inl h), by simp⟩))
      · have := (hall k).1 h2
        exact Or.inr (Or.inr (Or.inr ⟨hsup k (Or.inr ⟨this.1, h1, this.2⟩), by simp⟩))
    · intro k hk; rw [hh] at hk
      show ∃ d, (step g.s .deliverAB).storeB[k]? = some d
      rw [step_storeB]; exact hx.deliv_store k hk

theorem xinv_deliverBA (g : GS) (hb : BInv g.s) (ha : AInv g) (hx : XInv g)
    (ha' : AInv (gnext g .deliverBA)) : XInv (gnext g .deliverBA) := by
  have hbset : bset (gnext g .deliverBA).s = bset g.s := bset_frame g.s _ rfl
  cases hw : g.s.wireBA with
  | nil =>
    have e : step g.s .deliverBA = g.s := by simp only [step, hw]
    have hh : ahist (gnext g .deliverBA) = ahist g := by
      rw [ahist_eq, ahist_eq]; simp only [gnext, aOps, hw, grun]
    apply hx.frame hh hbset
    · show (step g.s .deliverBA).wireAB = _; rw [e]
    · show (step g.s .deliverBA).wireBA = _; rw [e]
    · exact step_storeB g.s _
    · intro k hk; exact hk
    · exact Nat.le_refl _
  | cons bs rest =>
    obtain ⟨ht, hd⟩ := ahist_deliverBA g ha ha' bs rest hw
    have hab : (gnext g .deliverBA).s.wireAB = g.s.wireAB := by
      show (step g.s .deliverBA).wireAB = _; simp only [step, hw]
    have hba : (gnext g .deliverBA).s.wireBA = rest := by
      show (step g.s .deliverBA).wireBA = _; simp only [step, hw]
    constructor
    · intro k hk; rw [ht] at hk; exact hx.told_asked k hk
    · intro k hk; rw [hbset] at hk; exact hx.set_asked k hk
    · rw [hab]; exact hx.msg_wb
    · rw [hab]; exact hx.msg_nodup
    · rw [hab, ht]; exact hx.msg_told
    · rw [hab, ht, hbset]; exact hx.set_told
    · intro hcap k hk
      rw [ht] at hk
      rw [hab, hba, hbset]
      rcases hx.told_set hcap k hk with h | ⟨bs', hbs', d, h⟩ | h | h
      · exact Or.inl ((hd k).2 (Or.inl h))
      · rw [hw] at hbs'
        rcases List.mem_cons.1 hbs' with rfl | hbs'
        · exact Or.inl ((hd k).2 (Or.inr (List.mem_map.2 ⟨(k, d), h, rfl⟩)))
        · exact Or.inr (Or.inl ⟨bs', hbs', d, h⟩)
      · exact Or.inr (Or.inr (Or.inl h))
      · exact Or.inr (Or.inr (Or.inr h))
    · intro k hk
      show ∃ d, (step g.s .deliverBA).storeB[k]? = some d
      rw [step_storeB]
      rcases (hd k).1 hk with h | h
      · exact hx.deliv_store k h
      · obtain ⟨kd, hkd, rfl⟩ := List.mem_map.1 h
        exact ⟨kd.2, hb.wire_ok bs (by rw [hw]; exact List.mem_cons_self ..) kd hkd⟩

theorem drainA_wantlist (g : GS) (ha : AInv g) :
    (step g.s .drainA).a.client.wantlist = (midA g.s).wantlist := by
  have hq : ∀ p c m, Out.send p c m ∉ g.s.a.client.queue := by
    have := ha.ginv.queue_nosend; rw [ha.coh] at this; exact this
  obtain ⟨d1, _⟩ := ClientView.drain_spec g.s.a.client g.s.a.now g.s.a.seq (Node.prefOf []) hq
  rw [step_drainA_a g.s ha.srv]
  simp only [drainedA]
  split
  · show (Client.sendingChanged _ _ _ _).wantlist = _
    rw [(ClientSending.sendingChanged_fields _ _ _ _).2.1]; exact d1
  · exact d1

theorem xinv_drainA (g : GS) (ha : AInv g) (hx : XInv g) (ha' : AInv (gnext g .drainA)) :
    XInv (gnext g .drainA) := by
  obtain ⟨hwire, hhist⟩ := drainA_sent g ha ha'
  have hbset : bset (gnext g .drainA).s = bset g.s := bset_frame g.s _ rfl
  have hba : (gnext g .drainA).s.wireBA = g.s.wireBA := by
    show (step g.s .drainA).wireBA = _
    rw [step_drainA g.s ha.srv]; exact (absorbA_b _ _).2.2.1
  cases hs : sentA g.s with
  | none =>
    rw [hs] at hwire hhist
    apply hx.frame hhist hbset
    · show (step g.s .drainA).wireAB = _; rw [hwire]; simp [sentList]
    · exact hba
    · exact step_storeB g.s _
    · intro k hk; exact hk
    · exact Nat.le_refl _
  | some cm =>
    obtain ⟨c, m⟩ := cm
    have hok := sentA_ok g ha c m hs
    rw [hs] at hwire hhist
    simp only [sentList] at hwire
    simp only [ClientView.afterSend] at hhist
    have hw0 : g.s.wireAB = [] := by
      rcases ha'.wire with ⟨_, h⟩ | ⟨_, m0, h⟩
      · change (step g.s .drainA).wireAB = [] at h
        rw [hwire] at h; simp at h
      · change (step g.s .drainA).wireAB = [m0] at h
        rw [hwire] at h
        cases hw : g.s.wireAB with
        | nil => rfl
        | cons a l => rw [hw] at h; simp at h
    have hwire' : (gnext g .drainA).s.wireAB = [m] := by
      show (step g.s .drainA).wireAB = _; rw [hwire, hw0]; rfl
    have htold : ∀ k, k ∈ (ahist (gnext g .drainA)).told ↔
        if m.full = true then k ∈ m.wantHave else ((k ∈ (ahist g).told ∧ k ∉ m.cancel) ∨ k ∈ m.wantHave) := by
      intro k; rw [hhist, ClientView.recordSend_told, hok.wb]; simp
    have hdeliv : ∀ k, k ∈ (ahist (gnext g .drainA)).deliv ↔ k ∈ (ahist g).deliv ∧ k ∉ m.wantHave := by
      intro k; rw [hhist, ClientView.recordSend_deliv, hok.wb]; simp
    have hasked : ∀ k, k ∈ m.wantHave → k ∈ g.asked := by
      intro k hk
      have := ha'.want_asked k (by
        show k ∈ (step g.s .drainA).a.client.wantlist.cids
        rw [drainA_wantlist g ha]; exact hok.sub k hk)
      exact this
    constructor
    · intro k hk
      rw [htold] at hk
      split at hk
      · exact hasked k hk
      · rcases hk with ⟨h, _⟩ | h
        · exact hx.told_asked k h
        · exact hasked k h
    · intro k hk; rw [hbset] at hk; exact hx.set_asked k hk
    · intro m' hm'; rw [hwire'] at hm'; simp at hm'; subst hm'; exact hok.wb
    · intro m' hm'; rw [hwire'] at hm'; simp at hm'; subst hm'; exact hok.nodup
    · intro m' hm' k hk; rw [hwire'] at hm'; simp at hm'; subst hm'
      rw [htold]; split
      · exact hk
      · exact Or.inr hk
    · intro k hk hall
      rw [hbset] at hk
      have := hall m (by rw [hwire']; exact List.mem_singleton.2 rfl)
      rw [htold, this.1]
      simp only [Bool.false_eq_true, if_false]
      exact Or.inl ⟨hx.set_told k hk (by rw [hw0]; intro m' hm'; cases hm'), this.2⟩
    · intro hcap k hk
      rw [hwire', hba, hbset]
      by_cases hkm : k ∈ m.wantHave
      · exact Or.inr (Or.inr (Or.inl ⟨m, List.mem_singleton.2 rfl, hkm⟩))
      · rw [htold] at hk
        split at hk
        · exact absurd hk hkm
        · rename_i hfull
          rcases hk with ⟨h1, h2⟩ | h
          · rcases hx.told_set hcap k h1 with h | h | ⟨m', hm', _⟩ | ⟨h3, _⟩
            · exact Or.inl ((hdeliv k).2 ⟨h, hkm⟩)
            · exact Or.inr (Or.inl h)
            · rw [hw0] at hm'; cases hm'
            · refine Or.inr (Or.inr (Or.inr ⟨h3, ?_⟩))
              intro m' hm'
              rw [List.mem_singleton] at hm'; subst hm'
              exact ⟨by simpa using hfull, h2⟩
          · exact absurd h hkm
    · intro k hk
      show ∃ d, (step g.s .drainA).storeB[k]? = some d
      rw [step_storeB]
      exact hx.deliv_store k ((hdeliv k).1 hk).1

/-- `XInv` is preserved by every action (given the node invariants before and `AInv` after). -/
theorem xinv_step (g : GS) (act : Act) (hb : BInv g.s) (ha : AInv g) (hx : XInv g)
    (ha' : AInv (gnext g act)) : XInv (gnext g act) := by
  cases act with
  | get k => exact xinv_user g _ ha hx (Or.inr (Or.inl ⟨k, rfl⟩))
  | cancel q => exact xinv_user g _ ha hx (Or.inr (Or.inr (Or.inl ⟨q, rfl⟩)))
  | refresh => exact xinv_user g _ ha hx (Or.inl rfl)
  | lookupA n => exact xinv_user g _ ha hx (Or.inr (Or.inr (Or.inr (Or.inl ⟨n, rfl⟩))))
  | putDoneA n => exact xinv_user g _ ha hx (Or.inr (Or.inr (Or.inr (Or.inr ⟨n, rfl⟩))))
  | drainA => exact xinv_drainA g ha hx ha'
  | drainB => exact xinv_drainB g hb ha hx
  | lookupB n => exact xinv_lookupB g n hb ha hx
  | deliverAB => exact xinv_deliverAB g hb ha hx
  | deliverBA => exact xinv_deliverBA g hb ha hx ha'

end Beetswap.Proofs.Net
