import Beetswap.Spec.ClientSpec
/-!
Proofs about query bookkeeping (C03, C13 client part, and the wantlist gate used by C01).
The statements are used by `Props/` and must keep these exact statements.
-/
namespace Beetswap.Proofs.ClientQuery
open Std Beetswap.Client Beetswap.Wl Beetswap.Spec.ClientSpec

/-- States reachable from the initial state, with all outputs emitted so far. -/
def Reach (x : Sys) (outs : List Out) : Prop := ∃ ops, run {} ops = (x, outs)

/-! ### C03 -/

/-- Every call to `get` returns a fresh id: the counter value, which then increases. -/
theorem get_fresh (s : State) (k : Nat) (fits : Bool) :
    (get s k fits).2 = s.nextQuery ∧ (get s k fits).1.nextQuery = s.nextQuery + 1 := by
  sorry

theorem nextQuery_mono (x : Sys) (op : Op) : x.s.nextQuery ≤ (step x op).1.s.nextQuery := by
  sorry

/-- The bookkeeping invariant: a query is held at most once (as a running lookup, a waiter or a
queued event), never after an event for it was emitted, and only if it was issued. -/
theorem presence_bound (x : Sys) (outs : List Out) (h : Reach x outs) (q : Nat) :
    eventsFor outs q + presence x.s q ≤ 1 ∧
    (0 < eventsFor outs q + presence x.s q → q < x.s.nextQuery) := by
  sorry

/-- At most one event is ever emitted per query id … -/
theorem at_most_one_event (ops : List Op) (q : Nat) : eventsFor (run {} ops).2 q ≤ 1 := by
  sorry

/-- … and none for ids that were not issued. -/
theorem only_issued (ops : List Op) (q : Nat) (h : 0 < eventsFor (run {} ops).2 q) :
    q < (run {} ops).1.s.nextQuery := by
  sorry

/-- A CID present in the local blockstore is answered from it: the hit produces the response and
touches neither the wantlist nor any peer's exchange state, so no wantlist entry is caused. -/
theorem hit_adds_no_want (s : State) (seq id q k d : Nat) (t : Task)
    (ht : s.tasks.find? (·.id == id) = some t) (hk : t.kind = TaskKind.get q k)
    (hs : t.st = TaskSt.done (StoreRes.hit d)) (ha : t.aborted = false) :
    (pollTask s seq id).2.2 = [Out.resp q d] ∧ (pollTask s seq id).1.wantlist = s.wantlist
      ∧ (pollTask s seq id).1.waiters = s.waiters ∧ (pollTask s seq id).1.peers = s.peers := by
  sorry

/-- A CID whose multihash does not fit yields exactly one queued `GetQueryError` and nothing else. -/
theorem oversize_one_error (s : State) (k : Nat) :
    (get s k false).1.queue = s.queue ++ [Out.err s.nextQuery 0] ∧ (get s k false).1.tasks = s.tasks
      ∧ (get s k false).1.wantlist = s.wantlist ∧ (get s k false).1.waiters = s.waiters := by
  sorry

/-- A failed blockstore lookup yields exactly one `GetQueryError` and no want. -/
theorem lookup_error_one_error (s : State) (seq id q k : Nat) (t : Task)
    (ht : s.tasks.find? (·.id == id) = some t) (hk : t.kind = TaskKind.get q k)
    (hs : t.st = TaskSt.done StoreRes.error) (ha : t.aborted = false) :
    (pollTask s seq id).2.2 = [Out.err q 1] ∧ (pollTask s seq id).1.wantlist = s.wantlist
      ∧ (pollTask s seq id).1.waiters = s.waiters := by
  sorry

/-- After `cancel q` the state no longer holds `q` unless its event is already queued … -/
theorem cancel_releases (x : Sys) (outs : List Out) (h : Reach x outs) (q : Nat)
    (hq : x.s.queue.filter (aboutQuery q) = []) : presence (cancel x.s q) q = 0 := by
  sorry

/-- … so a query cancelled before its answer reached the node yields no event, ever. -/
theorem cancel_silences (ops1 ops2 : List Op) (q : Nat)
    (hi : q < (run {} ops1).1.s.nextQuery)
    (h0 : eventsFor (run {} ops1).2 q = 0)
    (hq : (run {} ops1).1.s.queue.filter (aboutQuery q) = []) :
    eventsFor (run (step (run {} ops1).1 (Op.cancel q)).1 ops2).2 q = 0 := by
  sorry

/-- Cancelling one query leaves every other query where it was. -/
theorem cancel_preserves_others (x : Sys) (outs : List Out) (h : Reach x outs) (q q' : Nat)
    (hne : q' ≠ q) : presence (cancel x.s q) q' = presence x.s q' := by
  sorry

/-- The wantlist is exactly the set of CIDs with at least one waiting query
(this also discharges the `debug_assert!` in `process_incoming_message`). -/
theorem wantlist_eq_waiter_keys (x : Sys) (outs : List Out) (h : Reach x outs) (k : Nat) :
    k ∈ x.s.wantlist.cids ↔ ∃ qs, x.s.waiters[k]? = some qs ∧ qs ≠ [] := by
  sorry

/-- The gate of `process_incoming_message`: a block for a CID that is not wanted changes nothing
(no event, no store write, no exchange-state change). -/
theorem unwanted_block_inert (s : State) (p k d : Nat) (acc : List (Nat × Nat))
    (h : k ∉ s.wantlist.cids) : applyBlock s p k d acc = (s, acc) := by
  sorry

/-- A wanted block answers exactly the queries waiting for that CID, with that data, removes the
want, and is scheduled for storing under that CID. -/
theorem wanted_block_answers (s : State) (p k d : Nat) (acc : List (Nat × Nat))
    (h : k ∈ s.wantlist.cids) :
    (applyBlock s p k d acc).2 = acc ++ [(k, d)] ∧
    (applyBlock s p k d acc).1.queue = s.queue ++ ((s.waiters[k]?).getD []).map (fun q => Out.resp q d) ∧
    k ∉ (applyBlock s p k d acc).1.wantlist.cids ∧ (applyBlock s p k d acc).1.waiters[k]? = none := by
  sorry

/-! ### C13 (client part) -/

/-- Abort handles are kept only for queries whose lookup is still running. -/
theorem abort_released (x : Sys) (outs : List Out) (h : Reach x outs) (q : Nat)
    (hq : q ∈ x.s.abort) : ∃ t ∈ x.s.tasks, isLiveGet q t = true := by
  sorry

/-- Everything about a peer is dropped when its last connection closes. -/
theorem client_drop_on_last_close (s : State) (p c : Nat) (ps : PeerSt)
    (h : s.peers[p]? = some ps) (hl : ∀ c', c' ∈ ps.conns → c' = c) :
    (closed s p c).peers[p]? = none := by
  sorry

/-- Waiter lists never hold a query twice and never are empty; a query waits for at most one CID. -/
theorem waiters_wellformed (x : Sys) (outs : List Out) (h : Reach x outs) (k : Nat) (qs : List Nat)
    (hk : x.s.waiters[k]? = some qs) : qs ≠ [] ∧ qs.Nodup := by
  sorry

/-- When no query is live and no peer is connected, the client retains nothing but blocks waiting
to be handed to the server half. -/
theorem retained_released (x : Sys) (outs : List Out) (h : Reach x outs)
    (hq : ∀ q, presence x.s q = 0) (hp : x.s.peers.isEmpty = true) (ht : x.s.tasks = []) :
    retained x.s = x.s.newBlocks.length := by
  sorry

end Beetswap.Proofs.ClientQuery
