import Beetswap.Spec.ClientSpec
import Beetswap.Proofs.ClientQueryStep
/-!
Proofs about query bookkeeping (C03, C13 client part, and the wantlist gate used by C01).
The statements are used by `Props/` and must keep these exact statements.
-/
namespace Beetswap.Proofs.ClientQuery
open Std Beetswap.Client Beetswap.Wl Beetswap.Spec.ClientSpec

/-- States reachable from the initial state, with all outputs emitted so far. -/
def Reach (x : Sys) (outs : List Out) : Prop := ∃ ops, run {} ops = (x, outs)

theorem reach_inv {x : Sys} {outs : List Out} (h : Reach x outs) : QInv x.s outs := by
  obtain ⟨ops, ho⟩ := h
  have hi := QInv.reach ops
  rw [ho] at hi
  exact hi

/-! ### C03 -/

/-- Every call to `get` returns a fresh id: the counter value, which then increases. -/
theorem get_fresh (s : State) (k : Nat) (fits : Bool) :
    (get s k fits).2 = s.nextQuery ∧ (get s k fits).1.nextQuery = s.nextQuery + 1 := by
  cases fits <;> simp [Client.get, pushTask]

theorem nextQuery_mono (x : Sys) (op : Op) : x.s.nextQuery ≤ (step x op).1.s.nextQuery := by
  cases op with
  | connect p c => exact Nat.le_refl _
  | closed p c =>
    simp only [step]; unfold closed
    split
    · exact Nat.le_refl _
    · dsimp only; split <;> exact Nat.le_refl _
  | get k fits => simp only [step, get_nextQuery]; omega
  | cancel q =>
    simp only [step, cancel_eq]
    exact Nat.le_of_eq ((cancelW_nextQuery _ _).trans (cancelA_nextQuery _ _)).symm
  | complete n r =>
    simp only [step]; unfold complete
    split <;> exact Nat.le_refl _
  | msg p hs ds bs => simp only [step, incoming_nextQuery]; exact Nat.le_refl _
  | sending p src st =>
    simp only [step]; unfold sendingChanged setSending
    split
    · exact Nat.le_refl _
    · split <;> exact Nat.le_refl _
  | tick ms => exact Nat.le_refl _
  | drain pref => simp only [step, drain_nextQuery]; exact Nat.le_refl _
  | takeNewBlocks => exact Nat.le_refl _

/-- The bookkeeping invariant: a query is held at most once (as a running lookup, a waiter or a
queued event), never after an event for it was emitted, and only if it was issued. -/
theorem presence_bound (x : Sys) (outs : List Out) (h : Reach x outs) (q : Nat) :
    eventsFor outs q + presence x.s q ≤ 1 ∧
    (0 < eventsFor outs q + presence x.s q → q < x.s.nextQuery) := by
  have hi := reach_inv h
  exact ⟨hi.bound q, hi.issued q⟩

/-- At most one event is ever emitted per query id … -/
theorem at_most_one_event (ops : List Op) (q : Nat) : eventsFor (run {} ops).2 q ≤ 1 := by
  have := (QInv.reach ops).bound q
  omega

/-- … and none for ids that were not issued. -/
theorem only_issued (ops : List Op) (q : Nat) (h : 0 < eventsFor (run {} ops).2 q) :
    q < (run {} ops).1.s.nextQuery := by
  apply (QInv.reach ops).issued q
  omega

/-- A CID present in the local blockstore is answered from it: the hit produces the response and
touches neither the wantlist nor any peer's exchange state, so no wantlist entry is caused. -/
theorem hit_adds_no_want (s : State) (seq id q k d : Nat) (t : Task)
    (ht : s.tasks.find? (·.id == id) = some t) (hk : t.kind = TaskKind.get q k)
    (hs : t.st = TaskSt.done (StoreRes.hit d)) (ha : t.aborted = false) :
    (pollTask s seq id).2.2 = [Out.resp q d] ∧ (pollTask s seq id).1.wantlist = s.wantlist
      ∧ (pollTask s seq id).1.waiters = s.waiters ∧ (pollTask s seq id).1.peers = s.peers := by
  unfold pollTask
  rw [ht]
  simp [ha, hk, hs]

/-- A CID whose multihash does not fit yields exactly one queued `GetQueryError` and nothing else. -/
theorem oversize_one_error (s : State) (k : Nat) :
    (get s k false).1.queue = s.queue ++ [Out.err s.nextQuery 0] ∧ (get s k false).1.tasks = s.tasks
      ∧ (get s k false).1.wantlist = s.wantlist ∧ (get s k false).1.waiters = s.waiters := by
  simp [Client.get]

/-- A failed blockstore lookup yields exactly one `GetQueryError` and no want. -/
theorem lookup_error_one_error (s : State) (seq id q k : Nat) (t : Task)
    (ht : s.tasks.find? (·.id == id) = some t) (hk : t.kind = TaskKind.get q k)
    (hs : t.st = TaskSt.done StoreRes.error) (ha : t.aborted = false) :
    (pollTask s seq id).2.2 = [Out.err q 1] ∧ (pollTask s seq id).1.wantlist = s.wantlist
      ∧ (pollTask s seq id).1.waiters = s.waiters := by
  unfold pollTask
  rw [ht]
  simp [ha, hk, hs]

/-- After `cancel q` the state no longer holds `q` unless its event is already queued … -/
theorem cancel_releases (x : Sys) (outs : List Out) (h : Reach x outs) (q : Nat)
    (hq : x.s.queue.filter (aboutQuery q) = []) : presence (cancel x.s q) q = 0 := by
  have hi := reach_inv h
  obtain ⟨hA, a1, _, a3, a4, _, _⟩ := cancelA_spec hi q
  obtain ⟨_, b1, _, b3, b4, _⟩ := cancelW_spec hA q
  rw [cancel_eq, presence_eq, b1, b3, b4, a1, a4]
  simpa [eventsFor] using hq

/-- … so a query cancelled before its answer reached the node yields no event, ever. -/
theorem cancel_silences (ops1 ops2 : List Op) (q : Nat)
    (hi : q < (run {} ops1).1.s.nextQuery)
    (h0 : eventsFor (run {} ops1).2 q = 0)
    (hq : (run {} ops1).1.s.queue.filter (aboutQuery q) = []) :
    eventsFor (run (step (run {} ops1).1 (Op.cancel q)).1 ops2).2 q = 0 := by
  have hi := QInv.reach ops1
  have hr : Reach (run {} ops1).1 (run {} ops1).2 := ⟨ops1, rfl⟩
  have hp := cancel_releases _ _ hr q hq
  have hc : QInv (step (run {} ops1).1 (Op.cancel q)).1.s (run {} ops1).2 := by
    simpa [step] using hi.cancel q
  have hn : (step (run {} ops1).1 (Op.cancel q)).1.s.nextQuery = (run {} ops1).1.s.nextQuery := by
    simp only [step, cancel_eq]
    exact (cancelW_nextQuery _ _).trans (cancelA_nextQuery _ _)
  -- account for `q` as if its event had been emitted already
  have hc' : QInv (step (run {} ops1).1 (Op.cancel q)).1.s ((run {} ops1).2 ++ [Out.err q 0]) := by
    have hp' : presence (step (run {} ops1).1 (Op.cancel q)).1.s q = 0 := hp
    constructor
    · intro q'
      have := hc.bound q'
      simp only [eventsFor_append, eventsFor_err]
      by_cases e : q = q'
      · subst e; simp; omega
      · simp [e]; omega
    · intro q'
      have := hc.issued q'
      simp only [eventsFor_append, eventsFor_err]
      by_cases e : q = q'
      · subst e; intro _; omega
      · simp [e]; omega
    · exact hc.ids_nodup
    · exact hc.ids_lt
    · exact hc.abort_task
    · exact hc.task_abort
    · exact hc.want_iff
    · exact hc.nonempty
    · exact hc.queue_ev
  have := (hc'.run ops2).bound q
  simp only [eventsFor_append, eventsFor_err] at this
  simp at this
  omega

/-- Cancelling one query leaves every other query where it was. -/
theorem cancel_preserves_others (x : Sys) (outs : List Out) (h : Reach x outs) (q q' : Nat)
    (hne : q' ≠ q) : presence (cancel x.s q) q' = presence x.s q' := by
  have hi := reach_inv h
  obtain ⟨hA, _, a2, a3, a4, _, _⟩ := cancelA_spec hi q
  obtain ⟨_, _, b2, b3, b4, _⟩ := cancelW_spec hA q
  rw [cancel_eq, presence_eq, presence_eq, b2 q' hne, b3, b4, a2 q' hne, a3, a4]

/-- The wantlist is exactly the set of CIDs with at least one waiting query
(this also discharges the `debug_assert!` in `process_incoming_message`). -/
theorem wantlist_eq_waiter_keys (x : Sys) (outs : List Out) (h : Reach x outs) (k : Nat) :
    k ∈ x.s.wantlist.cids ↔ ∃ qs, x.s.waiters[k]? = some qs ∧ qs ≠ [] := by
  have hi := reach_inv h
  exact hi.want_iff k

/-- The gate of `process_incoming_message`: a block for a CID that is not wanted changes nothing
(no event, no store write, no exchange-state change). -/
theorem unwanted_block_inert (s : State) (p k d : Nat) (acc : List (Nat × Nat))
    (h : k ∉ s.wantlist.cids) : applyBlock s p k d acc = (s, acc) := by
  exact applyBlock_unwanted s p k d acc h

/-- A wanted block answers exactly the queries waiting for that CID, with that data, removes the
want, and is scheduled for storing under that CID. -/
theorem wanted_block_answers (s : State) (p k d : Nat) (acc : List (Nat × Nat))
    (h : k ∈ s.wantlist.cids) :
    (applyBlock s p k d acc).2 = acc ++ [(k, d)] ∧
    (applyBlock s p k d acc).1.queue = s.queue ++ ((s.waiters[k]?).getD []).map (fun q => Out.resp q d) ∧
    k ∉ (applyBlock s p k d acc).1.wantlist.cids ∧ (applyBlock s p k d acc).1.waiters[k]? = none := by
  obtain ⟨e0, e1, e2, e3, _⟩ := applyBlock_wanted s p k d acc h
  refine ⟨e0, e1, ?_, ?_⟩
  · rw [e2]; simp
  · rw [e3]; simp

/-! ### C13 (client part) -/

/-- Abort handles are kept only for queries whose lookup is still running. -/
theorem abort_released (x : Sys) (outs : List Out) (h : Reach x outs) (q : Nat)
    (hq : q ∈ x.s.abort) : ∃ t ∈ x.s.tasks, isLiveGet q t = true := by
  have hi := reach_inv h
  rw [ExtTreeMap.mem_iff_isSome_getElem?] at hq
  cases ha : x.s.abort[q]? with
  | none => rw [ha] at hq; cases hq
  | some tid =>
    obtain ⟨t, ht, _, hl⟩ := hi.abort_task q tid ha
    exact ⟨t, ht, hl⟩

/-- Everything about a peer is dropped when its last connection closes. -/
theorem client_drop_on_last_close (s : State) (p c : Nat) (ps : PeerSt)
    (h : s.peers[p]? = some ps) (hl : ∀ c', c' ∈ ps.conns → c' = c) :
    (closed s p c).peers[p]? = none := by
  unfold closed
  rw [h]
  have hemp : (ps.conns.erase c).isEmpty = true := by
    rw [ExtTreeSet.isEmpty_iff, ExtTreeSet.eq_empty_iff_forall_not_mem]
    intro a ha
    rw [ExtTreeSet.mem_erase] at ha
    have := hl a ha.2
    subst this
    simp at ha
  simp [hemp]

/-- Waiter lists never hold a query twice and never are empty; a query waits for at most one CID. -/
theorem waiters_wellformed (x : Sys) (outs : List Out) (h : Reach x outs) (k : Nat) (qs : List Nat)
    (hk : x.s.waiters[k]? = some qs) : qs ≠ [] ∧ qs.Nodup := by
  have hi := reach_inv h
  refine ⟨hi.nonempty k qs hk, List.nodup_iff_count.2 ?_⟩
  intro q
  have h1 := count_le_wsum _ _ _ q hk
  have h2 := hi.bound q
  rw [presence_eq] at h2
  omega

/-- When no query is live and no peer is connected, the client retains nothing but blocks waiting
to be handed to the server half. -/
theorem retained_released (x : Sys) (outs : List Out) (h : Reach x outs)
    (hq : ∀ q, presence x.s q = 0) (hp : x.s.peers.isEmpty = true) (ht : x.s.tasks = []) :
    retained x.s = x.s.newBlocks.length := by
  have hi := reach_inv h
  have hqueue : x.s.queue = [] := by
    cases hqq : x.s.queue with
    | nil => rfl
    | cons o os =>
      obtain ⟨q, hq1⟩ := hi.queue_ev o (by simp [hqq])
      have := hq q
      rw [presence_eq, hqq] at this
      have : 0 < eventsFor (o :: os) q := by
        unfold eventsFor
        apply List.length_pos_of_mem (a := o)
        simp [hq1]
      omega
  have hwait : x.s.waiters = ∅ := by
    rw [ExtTreeMap.eq_empty_iff_forall_not_mem]
    intro k hk
    rw [ExtTreeMap.mem_iff_isSome_getElem?] at hk
    cases hw : x.s.waiters[k]? with
    | none => rw [hw] at hk; cases hk
    | some qs =>
      have hne := hi.nonempty k qs hw
      cases qs with
      | nil => exact hne rfl
      | cons q qs' =>
        have h1 := count_le_wsum _ _ _ q hw
        have h2 := hq q
        rw [presence_eq] at h2
        simp at h1
        omega
  have hcids : x.s.wantlist.cids = ∅ := by
    rw [ExtTreeSet.eq_empty_iff_forall_not_mem]
    intro k hk
    obtain ⟨qs, h1, _⟩ := (hi.want_iff k).1 hk
    rw [hwait] at h1
    simp at h1
  have habort : x.s.abort = ∅ := by
    rw [ExtTreeMap.eq_empty_iff_forall_not_mem]
    intro q hq'
    rw [ExtTreeMap.mem_iff_isSome_getElem?] at hq'
    cases ha : x.s.abort[q]? with
    | none => rw [ha] at hq'; cases hq'
    | some tid =>
      obtain ⟨t, htm, _⟩ := hi.abort_task q tid ha
      rw [ht] at htm; cases htm
  have hpeers : x.s.peers = ∅ := ExtTreeMap.isEmpty_iff.1 hp
  have e1 : (∅ : KMap (List Nat)).toList = [] := ExtTreeMap.toList_eq_nil_iff.2 rfl
  have e2 : (∅ : KMap PeerSt).toList = [] := ExtTreeMap.toList_eq_nil_iff.2 rfl
  unfold retained
  rw [hqueue, hwait, hcids, habort, hpeers, ht, e1, e2]
  simp

end Beetswap.Proofs.ClientQuery
