import Beetswap.Proofs.NetDefs
/-!
A lexicographic measure on the states of the composition, by pipeline stage, that no internal
action increases and that every productive internal action decreases (for `settle_quiesces`).
-/
namespace Beetswap.Proofs.Net
open Std Beetswap.Net Beetswap.Wl
open Beetswap.Client (PeerSt Sending StoreRes Out TaskSt TaskKind Sys sendFullInterval)

def stWt : TaskSt → Nat
  | .fresh => 4
  | .waiting _ => 2
  | .done _ => 1

/-- weight of a lookup task of `a` for a `get` -/
def wtGet (t : Client.Task) : Nat :=
  match t.kind with
  | .get .. => stWt t.st
  | .put _ => 0

/-- weight of a `put` task of `a` -/
def wtPut (t : Client.Task) : Nat :=
  match t.kind with
  | .get .. => 0
  | .put _ => stWt t.st

/-- weight of a lookup task of `b` -/
def wtB (t : Server.Task) : Nat :=
  3 * t.todo.length + (match t.st with | .fresh => 2 | .waiting _ => 1 | .ready _ => 0)

/-- `b`'s own (client-half) wantlist handshake has not started yet -/
def bReady (s : State) : Nat :=
  match s.b.client.peers[0]? with
  | some ps => if ps.sending = .ready then 1 else 0
  | none => 0

structure Meas where
  /-- lookups of `a` for the user -/
  c1 : Nat
  /-- a full wantlist is due -/
  c2 : Nat
  /-- a non-empty update is due -/
  c3 : Nat
  /-- wantlists in flight -/
  c4 : Nat
  /-- lookups of `b` -/
  c5 : Nat
  /-- block batches in flight -/
  c6 : Nat
  /-- `put`s of `a` -/
  c7 : Nat
  /-- run queues, event queue, `b`'s own handshake -/
  c8 : Nat
deriving Repr

def meas (s : State) : Meas where
  c1 := (s.a.client.tasks.map wtGet).sum + s.callsA.length
  c2 := if ((apeer s).sendFull || decide (s.a.client.deadline ≤ s.a.now)) = true then 1 else 0
  c3 := if ((apeer s).wl.genUpdate s.a.client.wantlist).2.isEmpty = true then 0 else 1
  c4 := s.wireAB.length
  c5 := (s.b.server.tasks.map wtB).sum + s.callsB.length
  c6 := s.wireBA.length
  c7 := (s.a.client.tasks.map wtPut).sum + s.putsA.length
  c8 := s.a.client.runq.length + s.b.server.runq.length + s.a.client.queue.length + bReady s

/-- strict lexicographic order -/
def Meas.lt (x y : Meas) : Prop :=
  x.c1 < y.c1 ∨ (x.c1 = y.c1 ∧ (x.c2 < y.c2 ∨ (x.c2 = y.c2 ∧ (x.c3 < y.c3 ∨ (x.c3 = y.c3 ∧
  (x.c4 < y.c4 ∨ (x.c4 = y.c4 ∧ (x.c5 < y.c5 ∨ (x.c5 = y.c5 ∧ (x.c6 < y.c6 ∨ (x.c6 = y.c6 ∧
  (x.c7 < y.c7 ∨ (x.c7 = y.c7 ∧ x.c8 < y.c8)))))))))))))

/-- lexicographic order -/
def Meas.le (x y : Meas) : Prop :=
  x.lt y ∨ (x.c1 = y.c1 ∧ x.c2 = y.c2 ∧ x.c3 = y.c3 ∧ x.c4 = y.c4 ∧ x.c5 = y.c5 ∧ x.c6 = y.c6 ∧
    x.c7 = y.c7 ∧ x.c8 = y.c8)

instance (x y : Meas) : Decidable (x.lt y) := by unfold Meas.lt; infer_instance
instance (x y : Meas) : Decidable (x.le y) := by unfold Meas.le; infer_instance

end Beetswap.Proofs.Net
