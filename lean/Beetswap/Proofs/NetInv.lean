import Beetswap.Proofs.NetX
import Beetswap.Proofs.NetA
import Beetswap.Proofs.NetB
/-!
The invariant `NInv` holds in every reachable state of the composition.
-/
namespace Beetswap.Proofs.Net
open Std Beetswap.Net Beetswap.Wl

/-! ### The invariant holds in every reachable state -/

theorem ninv_init (store : KMap Nat) : NInv store (ginit store) :=
  ⟨rfl, binv_init store, ainv_init store, xinv_init store⟩

theorem ninv_step (store : KMap Nat) (g : GS) (act : Act) (h : NInv store g) :
    NInv store (gnext g act) := by
  have ha' := ainv_step g act h.a h.b
  exact ⟨(step_storeB g.s act).trans h.store_eq, binv_step g.s act h.b, ha',
    xinv_step g act h.b h.a h.x ha'⟩

theorem ninv_reach (store : KMap Nat) (g : GS) (h : GReach store g) : NInv store g := by
  induction h with
  | init => exact ninv_init store
  | step act _ ih => exact ninv_step store _ act ih

/-- every reachable state carries a history -/
theorem reach_ghost (store : KMap Nat) (s : State) (h : Reachable store s) :
    ∃ g, GReach store g ∧ g.s = s := by
  induction h with
  | init => exact ⟨ginit store, .init, rfl⟩
  | step act _ ih =>
    obtain ⟨g, hg, rfl⟩ := ih
    exact ⟨gnext g act, .step act hg, rfl⟩

theorem reach_ninv (store : KMap Nat) (s : State) (h : Reachable store s) :
    ∃ g, g.s = s ∧ NInv store g := by
  obtain ⟨g, hg, hs⟩ := reach_ghost store s h
  exact ⟨g, hs, ninv_reach store g hg⟩

end Beetswap.Proofs.Net
