import Beetswap.Proofs.ClientQueryInv
/-!
Preservation of `QInv`: blockstore completions, incoming blocks, task polling, `drain`, and the
whole transition system.
-/
namespace Beetswap.Proofs.ClientQuery
open Std Beetswap.Client Beetswap.Wl Beetswap.Spec.ClientSpec

/-! ### rewriting task progress -/

theorem QInv.map_tasks {s : State} {outs : List Out} (h : QInv s outs) (f : Task → Task)
    (hid : ∀ t, (f t).id = t.id) (hk : ∀ t, (f t).kind = t.kind)
    (ha : ∀ t, (f t).aborted = t.aborted) : QInv { s with tasks := s.tasks.map f } outs := by
  have hl : ∀ q t, isLiveGet q (f t) = isLiveGet q t := by
    intro q t; unfold isLiveGet; rw [hk, ha]
  have hlv : ∀ q, lv (s.tasks.map f) q = lv s.tasks q := fun q =>
    lv_map_congr _ _ _ (fun t _ => hl q t)
  constructor
  · intro q
    have := h.bound q
    simp only [presence_eq, hlv] at this ⊢
    exact this
  · intro q
    have := h.issued q
    simp only [presence_eq, hlv] at this ⊢
    exact this
  · show ((s.tasks.map f).map (·.id)).Nodup
    rw [List.map_map]
    have : ((fun t : Task => t.id) ∘ f) = (fun t : Task => t.id) := by
      funext t; exact hid t
    rw [this]; exact h.ids_nodup
  · intro t' ht'
    obtain ⟨t, ht, rfl⟩ := List.mem_map.1 ht'
    rw [hid]; exact h.ids_lt t ht
  · intro q tid hq
    obtain ⟨t, ht, h1, h2⟩ := h.abort_task q tid hq
    exact ⟨f t, List.mem_map.2 ⟨t, ht, rfl⟩, by rw [hid]; exact h1, by rw [hl]; exact h2⟩
  · intro t' ht' q hlq
    obtain ⟨t, ht, rfl⟩ := List.mem_map.1 ht'
    rw [hl] at hlq
    show s.abort[q]? = some (f t).id
    rw [hid]; exact h.task_abort t ht q hlq
  · exact h.want_iff
  · exact h.nonempty
  · exact h.queue_ev

theorem QInv.set_st {s : State} {outs : List Out} (h : QInv s outs) (id : Nat) (st : TaskSt) :
    QInv { s with tasks := s.tasks.map (fun u => if u.id == id then { u with st := st } else u) }
      outs := by
  apply h.map_tasks <;> intro t <;> split <;> rfl

theorem QInv.complete {s : State} {outs : List Out} (h : QInv s outs) (seq : Nat) (r : StoreRes) :
    QInv ((complete s seq r).getD s) outs := by
  unfold Client.complete
  split
  · exact h
  · rename_i t _
    exact (h.set_st t.id (.done r)).of_eq rfl rfl rfl rfl rfl rfl rfl

/-! ### new tasks -/

theorem QInv.push_put {s : State} {outs : List Out} (h : QInv s outs) (bs : List (Nat × Nat)) :
    QInv (pushTask s (.put bs)).1 outs := by
  simp only [pushTask]
  have hlive : ∀ q, isLiveGet q { id := s.nextTask, kind := TaskKind.put bs : Task } = false := by
    intro q; simp [isLiveGet]
  constructor
  · intro q
    have := h.bound q
    simp only [presence_eq, lv_append, lv_single, hlive] at this ⊢
    simpa using this
  · intro q
    have := h.issued q
    simp only [presence_eq, lv_append, lv_single, hlive] at this ⊢
    simpa using this
  · simp only [List.map_append, List.map_cons, List.map_nil]
    refine List.nodup_append.2 ⟨h.ids_nodup, by simp, ?_⟩
    intro a ha b hb
    simp only [List.mem_singleton] at hb
    subst hb
    obtain ⟨t, ht, rfl⟩ := List.mem_map.1 ha
    exact Nat.ne_of_lt (h.ids_lt t ht)
  · intro t ht
    simp only [List.mem_append, List.mem_singleton] at ht
    rcases ht with ht | rfl
    · exact Nat.lt_succ_of_lt (h.ids_lt t ht)
    · exact Nat.lt_succ_self _
  · intro q tid hq
    obtain ⟨t, ht, h1, h2⟩ := h.abort_task q tid hq
    exact ⟨t, by simp [ht], h1, h2⟩
  · intro t ht q hl
    simp only [List.mem_append, List.mem_singleton] at ht
    rcases ht with ht | rfl
    · exact h.task_abort t ht q hl
    · rw [hlive] at hl; cases hl
  · exact h.want_iff
  · exact h.nonempty
  · exact h.queue_ev

/-! ### incoming blocks -/

theorem applyBlock_unwanted (s : State) (p k d : Nat) (acc : List (Nat × Nat))
    (h : k ∉ s.wantlist.cids) : applyBlock s p k d acc = (s, acc) := by
  simp [applyBlock, Wantlist.remove, h]

/-- The state after a wanted block, up to the `peers` field. -/
theorem applyBlock_wanted (s : State) (p k d : Nat) (acc : List (Nat × Nat))
    (h : k ∈ s.wantlist.cids) :
    (applyBlock s p k d acc).2 = acc ++ [(k, d)] ∧
    (applyBlock s p k d acc).1.queue = s.queue ++ ((s.waiters[k]?).getD []).map (fun q => Out.resp q d) ∧
    (applyBlock s p k d acc).1.wantlist.cids = s.wantlist.cids.erase k ∧
    (applyBlock s p k d acc).1.waiters = s.waiters.erase k ∧
    (applyBlock s p k d acc).1.tasks = s.tasks ∧ (applyBlock s p k d acc).1.abort = s.abort ∧
    (applyBlock s p k d acc).1.nextQuery = s.nextQuery ∧
    (applyBlock s p k d acc).1.nextTask = s.nextTask := by
  simp only [applyBlock, Wantlist.remove, h, if_true, Bool.not_true, Bool.false_eq_true, if_false]
  cases s.peers[p]? <;> simp

theorem QInv.applyBlock {s : State} {outs : List Out} (h : QInv s outs) (p k d : Nat)
    (acc : List (Nat × Nat)) : QInv (applyBlock s p k d acc).1 outs := by
  by_cases hk : k ∈ s.wantlist.cids
  · obtain ⟨_, e1, e2, e3, e4, e5, e6, e7⟩ := applyBlock_wanted s p k d acc hk
    have hws := fun q => wsum_erase s.waiters k q
    constructor
    · intro q
      have := h.bound q
      have := hws q
      simp only [presence_eq, e1, e3, e4, eventsFor_append, eventsFor_map_resp] at *
      omega
    · intro q
      have := h.issued q
      have := hws q
      simp only [presence_eq, e1, e3, e4, e6, eventsFor_append, eventsFor_map_resp] at *
      omega
    · rw [e4]; exact h.ids_nodup
    · rw [e4, e7]; exact h.ids_lt
    · rw [e4, e5]; exact h.abort_task
    · rw [e4, e5]; exact h.task_abort
    · intro k'
      rw [e2, e3, ExtTreeSet.mem_erase, h.want_iff k', ExtTreeMap.getElem?_erase]
      by_cases e : k = k'
      · subst e; simp
      · have hc : compare k k' ≠ .eq := by simpa using e
        simp [hc]
    · intro k' qs hk'
      rw [e3, ExtTreeMap.getElem?_erase] at hk'
      split at hk'
      · cases hk'
      · exact h.nonempty k' qs hk'
    · intro o ho
      rw [e1] at ho
      rcases List.mem_append.1 ho with ho | ho
      · exact h.queue_ev o ho
      · obtain ⟨q, _, rfl⟩ := List.mem_map.1 ho
        exact ⟨q, by simp [aboutQuery]⟩
  · rw [applyBlock_unwanted s p k d acc hk]; exact h

theorem QInv.applyBlocks {outs : List Out} (p : Nat) (blocks : List (Nat × Nat)) :
    ∀ (acc : State × List (Nat × Nat)), QInv acc.1 outs →
    QInv (blocks.foldl (fun (acc : State × List (Nat × Nat)) kd =>
      Client.applyBlock acc.1 p kd.1 kd.2 acc.2) acc).1 outs := by
  induction blocks with
  | nil => intro acc h; exact h
  | cons b bs ih =>
    intro acc h
    simp only [List.foldl_cons]
    exact ih _ (h.applyBlock p b.1 b.2 acc.2)

theorem QInv.incoming {s : State} {outs : List Out} (h : QInv s outs) (p : Nat)
    (hs ds : List Nat) (bs : List (Nat × Nat)) : QInv (incoming s p hs ds bs) outs := by
  unfold Client.incoming
  split
  · exact h
  · rename_i ps _
    simp only
    have h1 : QInv { s with peers := s.peers.insert p { ps with wl :=
        (ds.foldl (fun w k => w.gotDontHave k) (hs.foldl (fun w k => w.gotHave k) ps.wl)) } } outs :=
      h.of_eq rfl rfl rfl rfl rfl rfl rfl
    have h2 := QInv.applyBlocks p bs (_, []) h1
    split
    · exact h2
    · exact h2.push_put _

/-! ### polling tasks -/

theorem drop_mem {s : State} {outs : List Out} (h : QInv s outs) (t : Task) (ht : t ∈ s.tasks)
    (t' : Task) (ht' : t' ∈ s.tasks) (hne : t' ≠ t) :
    t' ∈ s.tasks.filter (·.id != t.id) := by
  refine List.mem_filter.2 ⟨ht', ?_⟩
  simp only [bne_iff_ne, ne_eq]
  intro e
  exact hne (uniq_of_nodup _ h.ids_nodup t' t ht' ht e)

/-- Dropping a task that is no live lookup (aborted, or a store write). -/
theorem QInv.drop_dead {s : State} {outs : List Out} (h : QInv s outs) (t : Task)
    (ht : t ∈ s.tasks) (hd : ∀ q, isLiveGet q t = false) :
    QInv { s with tasks := s.tasks.filter (·.id != t.id) } outs := by
  have hle := fun q => lv_filter_le s.tasks (·.id != t.id) q
  constructor
  · intro q
    have := h.bound q
    have := hle q
    simp only [presence_eq] at *
    omega
  · intro q
    have := h.issued q
    have := hle q
    simp only [presence_eq] at *
    omega
  · exact h.ids_nodup.sublist (List.filter_sublist.map _)
  · intro t' ht'
    exact h.ids_lt t' (List.mem_filter.1 ht').1
  · intro q tid hq
    obtain ⟨t', ht', h1, h2⟩ := h.abort_task q tid hq
    refine ⟨t', drop_mem h t ht t' ht' ?_, h1, h2⟩
    intro e; subst e; rw [hd] at h2; cases h2
  · intro t' ht' q hl
    exact h.task_abort t' (List.mem_filter.1 ht').1 q hl
  · exact h.want_iff
  · exact h.nonempty
  · exact h.queue_ev

/-- Consuming the result of a live lookup for `q` while emitting one event `o` for `q`. -/
theorem QInv.drop_get {s : State} {outs : List Out} (h : QInv s outs) (t : Task)
    (ht : t ∈ s.tasks) (q : Nat) (hl : isLiveGet q t = true) (o : Out)
    (ho : ∀ q', eventsFor [o] q' = if q = q' then 1 else 0) :
    QInv { s with tasks := s.tasks.filter (·.id != t.id), abort := s.abort.erase q }
      (outs ++ [o]) := by
  have hle := fun q => lv_filter_le s.tasks (·.id != t.id) q
  have hlt := lv_filter_lt s.tasks (·.id != t.id) q t ht hl (by simp)
  have hkq := (isLiveGet_iff q t).1 hl
  have hother : ∀ q', q' ≠ q → isLiveGet q' t = false := by
    intro q' hne
    obtain ⟨_, k, hk⟩ := hkq
    simp [isLiveGet, hk, Ne.symm hne]
  constructor
  · intro q'
    have := h.bound q'
    have := hle q'
    simp only [presence_eq, eventsFor_append, ho] at *
    by_cases e : q = q'
    · subst e; simp; omega
    · simp [e]; omega
  · intro q'
    have := h.issued q'
    have := h.issued q
    have := hle q'
    simp only [presence_eq, eventsFor_append, ho] at *
    by_cases e : q = q'
    · subst e; intro _; omega
    · simp [e]; omega
  · exact h.ids_nodup.sublist (List.filter_sublist.map _)
  · intro t' ht'
    exact h.ids_lt t' (List.mem_filter.1 ht').1
  · intro q' tid hq'
    simp only [ExtTreeMap.getElem?_erase] at hq'
    by_cases e : q = q'
    · subst e; simp at hq'
    · have hc : compare q q' ≠ .eq := by simpa using e
      simp only [hc, if_false] at hq'
      obtain ⟨t', ht', h1, h2⟩ := h.abort_task q' tid hq'
      refine ⟨t', drop_mem h t ht t' ht' ?_, h1, h2⟩
      intro e'; subst e'; rw [hother q' (Ne.symm e)] at h2; cases h2
  · intro t' ht' q' hl'
    have hm := List.mem_filter.1 ht'
    have h3 := h.task_abort t' hm.1 q' hl'
    show (s.abort.erase q)[q']? = some t'.id
    rw [ExtTreeMap.getElem?_erase]
    by_cases e : q = q'
    · subst e
      have h4 := h.task_abort t ht q hl
      rw [h3] at h4
      have := hm.2
      simp only [bne_iff_ne, ne_eq] at this
      simp only [Option.some.injEq] at h4
      exact absurd h4 this
    · have hc : compare q q' ≠ .eq := by simpa using e
      simp only [hc, if_false]
      exact h3
  · exact h.want_iff
  · exact h.nonempty
  · exact h.queue_ev

/-- A lookup miss: the query (already accounted for as "event emitted") becomes a waiter. -/
theorem QInv.add_waiter {s : State} {outs : List Out} {o : Out} (h : QInv s (outs ++ [o]))
    (q : Nat) (ho : ∀ q', eventsFor [o] q' = if q = q' then 1 else 0) (k : Nat) :
    QInv { s with wantlist := (s.wantlist.insert k).1,
                  waiters := s.waiters.insert k ((s.waiters[k]?.getD []) ++ [q]) } outs := by
  have hws : ∀ q', wsum (s.waiters.insert k ((s.waiters[k]?.getD []) ++ [q])) q' =
      wsum s.waiters q' + if q = q' then 1 else 0 := by
    intro q'
    have := wsum_insert s.waiters k ((s.waiters[k]?.getD []) ++ [q]) q'
    rw [List.count_append, List.count_singleton] at this
    simp only [beq_iff_eq] at this
    omega
  constructor
  · intro q'
    have := h.bound q'
    simp only [presence_eq, eventsFor_append, ho, hws] at *
    omega
  · intro q'
    have := h.issued q'
    simp only [presence_eq, eventsFor_append, ho, hws] at *
    omega
  · exact h.ids_nodup
  · exact h.ids_lt
  · exact h.abort_task
  · exact h.task_abort
  · intro k'
    show k' ∈ (s.wantlist.insert k).1.cids ↔
      ∃ qs, (s.waiters.insert k ((s.waiters[k]?.getD []) ++ [q]))[k']? = some qs ∧ qs ≠ []
    rw [mem_insert_wl, h.want_iff k', ExtTreeMap.getElem?_insert]
    by_cases e : k = k'
    · subst e; simp
    · have hc : compare k k' ≠ .eq := by simpa using e
      simp [hc, Ne.symm e]
  · intro k' qs hk'
    simp only [ExtTreeMap.getElem?_insert] at hk'
    split at hk'
    · simp only [Option.some.injEq] at hk'; subst hk'; simp
    · exact h.nonempty k' qs hk'
  · exact h.queue_ev

theorem QInv.append_silent {s : State} {outs : List Out} (h : QInv s outs) (o : List Out)
    (ho : ∀ q, eventsFor o q = 0) : QInv s (outs ++ o) := by
  constructor
  · intro q; have := h.bound q; simp only [eventsFor_append, ho] at *; omega
  · intro q; have := h.issued q; simp only [eventsFor_append, ho] at *; omega
  · exact h.ids_nodup
  · exact h.ids_lt
  · exact h.abort_task
  · exact h.task_abort
  · exact h.want_iff
  · exact h.nonempty
  · exact h.queue_ev

theorem QInv.pollTask {s : State} {outs : List Out} (h : QInv s outs) (seq id : Nat) :
    QInv (Client.pollTask s seq id).1 (outs ++ (Client.pollTask s seq id).2.2) := by
  unfold Client.pollTask
  cases hf : s.tasks.find? (·.id == id) with
  | none => simpa using h
  | some t =>
    have htm : t ∈ s.tasks := List.mem_of_find?_eq_some hf
    have hid : t.id = id := by simpa using List.find?_some hf
    subst hid
    by_cases hab : t.aborted = true
    · simp only [hab, if_true, List.append_nil]
      exact h.drop_dead t htm (fun q => by simp [isLiveGet, hab])
    · have hab' : t.aborted = false := by simpa using hab
      simp only [hab', Bool.false_eq_true, if_false]
      cases hst : t.st with
      | fresh =>
        cases hkd : t.kind with
        | get q k => exact (h.set_st t.id (.waiting seq)).append_silent _ (fun q => rfl)
        | put bs => exact (h.set_st t.id (.waiting seq)).append_silent _ (fun q => rfl)
      | waiting n => simpa using h
      | done r =>
        cases hkd : t.kind with
        | put bs =>
          have hd := h.drop_dead t htm (fun q => by simp [isLiveGet, hkd])
          cases r <;> first
            | (simp only [List.append_nil]; exact hd.of_eq rfl rfl rfl rfl rfl rfl rfl)
        | get q k =>
          have hl : isLiveGet q t = true := by simp [isLiveGet, hab', hkd]
          cases r with
          | hit d => exact h.drop_get t htm q hl _ (fun q' => eventsFor_resp q d q')
          | error => exact h.drop_get t htm q hl _ (fun q' => eventsFor_err q 1 q')
          | putOk => exact h.drop_get t htm q hl _ (fun q' => eventsFor_err q 1 q')
          | putErr => exact h.drop_get t htm q hl _ (fun q' => eventsFor_err q 1 q')
          | miss =>
            have h1 := h.drop_get t htm q hl (Out.resp q 0) (fun q' => eventsFor_resp q 0 q')
            have h2 := h1.add_waiter q (fun q' => eventsFor_resp q 0 q') k
            simp only [List.append_nil]
            exact h2.of_eq rfl rfl rfl rfl rfl rfl rfl

theorem QInv.pollTasks (ids : List Nat) : ∀ {s : State} {outs : List Out} (seq : Nat), QInv s outs →
    QInv (Client.pollTasks s seq ids).1 (outs ++ (Client.pollTasks s seq ids).2.2) := by
  induction ids with
  | nil => intro s outs seq h; simpa [Client.pollTasks] using h
  | cons id ids ih =>
    intro s outs seq h
    simp only [Client.pollTasks]
    have h1 := h.pollTask seq id
    have h2 := ih (Client.pollTask s seq id).2.1 h1
    rw [List.append_assoc] at h2
    exact h2

/-! ### update_handlers -/

/-- `update_handlers` only touches `peers` and only emits `send`. -/
theorem updateHandlers_spec (s : State) (now : Nat) (pref : Nat → Option Nat) :
    (updateHandlers s now pref).1.queue = s.queue ∧
    (updateHandlers s now pref).1.wantlist = s.wantlist ∧
    (updateHandlers s now pref).1.waiters = s.waiters ∧
    (updateHandlers s now pref).1.tasks = s.tasks ∧
    (updateHandlers s now pref).1.abort = s.abort ∧
    (updateHandlers s now pref).1.nextQuery = s.nextQuery ∧
    (updateHandlers s now pref).1.nextTask = s.nextTask ∧
    (updateHandlers s now pref).1.newBlocks = s.newBlocks ∧
    ∀ o ∈ (updateHandlers s now pref).2, ∀ q, aboutQuery q o = false := by
  unfold updateHandlers
  generalize s.peers.keys = ks
  suffices H : ∀ (acc : State × List Out),
      let r := ks.foldl (fun (acc : State × List Out) p =>
        match acc.1.peers[p]? with
        | none => acc
        | some ps =>
          let (ps', m) := updatePeer acc.1.wantlist now ps (pref p)
          let peers := match ps' with
            | some ps' => acc.1.peers.insert p ps'
            | none => acc.1.peers.erase p
          ({ acc.1 with peers := peers },
           match m with
           | some (c, m) => acc.2 ++ [Out.send p c m]
           | none => acc.2)) acc
      r.1.queue = acc.1.queue ∧ r.1.wantlist = acc.1.wantlist ∧ r.1.waiters = acc.1.waiters ∧
      r.1.tasks = acc.1.tasks ∧ r.1.abort = acc.1.abort ∧ r.1.nextQuery = acc.1.nextQuery ∧
      r.1.nextTask = acc.1.nextTask ∧ r.1.newBlocks = acc.1.newBlocks ∧
      ((∀ o ∈ acc.2, ∀ q, aboutQuery q o = false) → ∀ o ∈ r.2, ∀ q, aboutQuery q o = false) by
    have := H (s, [])
    simp only at this
    obtain ⟨a1, a2, a3, a4, a5, a6, a7, a8, a9⟩ := this
    exact ⟨a1, a2, a3, a4, a5, a6, a7, a8, a9 (by simp)⟩
  induction ks with
  | nil => intro acc; simp
  | cons p ps ih =>
    intro acc
    simp only [List.foldl_cons]
    cases hp : acc.1.peers[p]? with
    | none => exact ih acc
    | some pst =>
      simp only
      have := ih ({ acc.1 with peers := match (updatePeer acc.1.wantlist now pst (pref p)).1 with
            | some ps' => acc.1.peers.insert p ps'
            | none => acc.1.peers.erase p },
           match (updatePeer acc.1.wantlist now pst (pref p)).2 with
           | some (c, m) => acc.2 ++ [Out.send p c m]
           | none => acc.2)
      simp only at this
      obtain ⟨a1, a2, a3, a4, a5, a6, a7, a8, a9⟩ := this
      refine ⟨a1, a2, a3, a4, a5, a6, a7, a8, ?_⟩
      intro hacc
      apply a9
      split
      · intro o ho q
        rcases List.mem_append.1 ho with ho | ho
        · exact hacc o ho q
        · simp only [List.mem_singleton] at ho; subst ho; rfl
      · exact hacc

/-! ### drain and the transition system -/

theorem QInv.drain {s : State} {outs : List Out} (h : QInv s outs) (now seq : Nat)
    (pref : Nat → Option Nat) :
    QInv (Client.drain s now seq pref).1 (outs ++ (Client.drain s now seq pref).2.2) := by
  unfold Client.drain
  simp only
  -- flushing the queue
  have h0 : QInv { s with queue := [] } (outs ++ s.queue) := by
    constructor
    · intro q; have := h.bound q
      simp only [presence_eq, eventsFor_append, eventsFor_nil] at *; omega
    · intro q; have := h.issued q
      simp only [presence_eq, eventsFor_append, eventsFor_nil] at *; omega
    · exact h.ids_nodup
    · exact h.ids_lt
    · exact h.abort_task
    · exact h.task_abort
    · exact h.want_iff
    · exact h.nonempty
    · intro o ho; cases ho
  generalize hs1 : (if s.deadline ≤ now then
      { s with queue := [],
               peers := KMap.tab s.peers.keys (fun p => (s.peers[p]?).map (fun ps => { ps with sendFull := true })),
               deadline := now + sendFullInterval }
    else { s with queue := [] }) = s1
  have h1 : QInv s1 (outs ++ s.queue) := by
    subst hs1
    split
    · exact h0.of_eq rfl rfl rfl rfl rfl rfl rfl
    · exact h0
  have h2 := QInv.pollTasks s1.runq seq (h1.of_eq (s' := { s1 with runq := [] }) rfl rfl rfl rfl rfl rfl rfl)
  obtain ⟨a1, a2, a3, a4, a5, a6, a7, _, a9⟩ := updateHandlers_spec
    (Client.pollTasks { s1 with runq := [] } seq s1.runq).1 now pref
  have h3 := h2.of_eq a1 (by rw [a2]) a3 a4 a5 a6 a7
  constructor
  · intro q
    have := h3.bound q
    have e := eventsFor_eq_zero _ q (fun o ho => a9 o ho q)
    simp only [← List.append_assoc, eventsFor_append, e] at *
    omega
  · intro q
    have := h3.issued q
    have e := eventsFor_eq_zero _ q (fun o ho => a9 o ho q)
    simp only [← List.append_assoc, eventsFor_append, e] at *
    omega
  · exact h3.ids_nodup
  · exact h3.ids_lt
  · exact h3.abort_task
  · exact h3.task_abort
  · exact h3.want_iff
  · exact h3.nonempty
  · exact h3.queue_ev

theorem QInv.step {x : Sys} {outs : List Out} (h : QInv x.s outs) (op : Op) :
    QInv (Client.step x op).1.s (outs ++ (Client.step x op).2) := by
  cases op with
  | connect p c => simpa [Client.step] using h.of_eq (s' := connect x.s p c) rfl rfl rfl rfl rfl rfl rfl
  | closed p c =>
    simp only [Client.step, List.append_nil]
    unfold Client.closed
    split
    · exact h
    · dsimp only
      split
      · exact h.of_eq rfl rfl rfl rfl rfl rfl rfl
      · exact h.of_eq rfl rfl rfl rfl rfl rfl rfl
  | get k fits => simpa [Client.step] using h.get k fits
  | cancel q => simpa [Client.step] using h.cancel q
  | complete n r => simpa [Client.step] using h.complete n r
  | msg p hs ds bs => simpa [Client.step] using h.incoming p hs ds bs
  | sending p src st =>
    simp only [Client.step, List.append_nil]
    unfold sendingChanged
    split
    · exact h
    · unfold setSending
      split
      · exact h.of_eq rfl rfl rfl rfl rfl rfl rfl
      · exact h
  | tick ms => simpa [Client.step] using h
  | drain pref => simpa [Client.step] using h.drain x.now x.seq pref
  | takeNewBlocks =>
    simpa [Client.step] using h.of_eq (s' := (takeNewBlocks x.s).1) rfl rfl rfl rfl rfl rfl rfl

theorem QInv.run (ops : List Op) : ∀ {x : Sys} {outs : List Out}, QInv x.s outs →
    QInv (Client.run x ops).1.s (outs ++ (Client.run x ops).2) := by
  induction ops with
  | nil => intro x outs h; simpa [Client.run] using h
  | cons op ops ih =>
    intro x outs h
    simp only [Client.run]
    have h2 := ih (h.step op)
    rw [List.append_assoc] at h2
    exact h2

theorem QInv.reach (ops : List Op) : QInv (Client.run {} ops).1.s (Client.run {} ops).2 := by
  have := QInv.run ops (x := {}) (outs := []) QInv.init
  simpa using this

/-! ### the query counter -/

theorem cancelA_nextQuery (s : State) (q : Nat) : (cancelA s q).nextQuery = s.nextQuery := by
  unfold cancelA; split <;> rfl

theorem cancelW_nextQuery (s : State) (q : Nat) : (cancelW s q).nextQuery = s.nextQuery := by
  unfold cancelW
  split
  · rfl
  · dsimp only; split <;> rfl

theorem applyBlock_nextQuery (s : State) (p k d : Nat) (acc : List (Nat × Nat)) :
    (applyBlock s p k d acc).1.nextQuery = s.nextQuery := by
  by_cases hk : k ∈ s.wantlist.cids
  · exact (applyBlock_wanted s p k d acc hk).2.2.2.2.2.2.1
  · rw [applyBlock_unwanted s p k d acc hk]

theorem applyBlocks_nextQuery (p : Nat) (blocks : List (Nat × Nat)) :
    ∀ (acc : State × List (Nat × Nat)),
    (blocks.foldl (fun (acc : State × List (Nat × Nat)) kd =>
      applyBlock acc.1 p kd.1 kd.2 acc.2) acc).1.nextQuery = acc.1.nextQuery := by
  induction blocks with
  | nil => intro acc; rfl
  | cons b bs ih =>
    intro acc
    simp only [List.foldl_cons]
    rw [ih, applyBlock_nextQuery]

theorem incoming_nextQuery (s : State) (p : Nat) (hs ds : List Nat) (bs : List (Nat × Nat)) :
    (incoming s p hs ds bs).nextQuery = s.nextQuery := by
  unfold incoming
  split
  · rfl
  · dsimp only
    split
    · rw [applyBlocks_nextQuery]
    · simp only [pushTask]; rw [applyBlocks_nextQuery]

theorem pollTask_nextQuery (s : State) (seq id : Nat) :
    (pollTask s seq id).1.nextQuery = s.nextQuery := by
  unfold pollTask
  split
  · rfl
  · dsimp only
    split
    · rfl
    · split
      · rfl
      · rfl
      · rfl
      · split <;> rfl
      · split <;> rfl

theorem pollTasks_nextQuery (ids : List Nat) : ∀ (s : State) (seq : Nat),
    (pollTasks s seq ids).1.nextQuery = s.nextQuery := by
  induction ids with
  | nil => intro s seq; rfl
  | cons id ids ih =>
    intro s seq
    simp only [pollTasks]
    rw [ih, pollTask_nextQuery]

theorem drain_nextQuery (s : State) (now seq : Nat) (pref : Nat → Option Nat) :
    (drain s now seq pref).1.nextQuery = s.nextQuery := by
  unfold drain
  dsimp only
  rw [(updateHandlers_spec _ now pref).2.2.2.2.2.1, pollTasks_nextQuery]
  split <;> rfl

end Beetswap.Proofs.ClientQuery
