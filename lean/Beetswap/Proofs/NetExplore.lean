import Beetswap.Proofs.NetDefs
import Beetswap.Proofs.NetMeasure
import Std.Data.HashSet
/-! Scratch: executable falsification of the candidate statements of `Proofs/Net.lean`.
Not imported by anything.  Run natively (see NET_NOTES.md) or with `#eval` for small sizes. -/
namespace Beetswap.Proofs.NetExplore
open Std Beetswap.Net Beetswap.Wl Beetswap.Proofs.Net
open Beetswap.Client (PeerSt Sending sendFullInterval)

def serReq : Req → String
  | .sentWantHave => "H" | .gotHave => "h" | .gotDontHave => "d" | .sentWantBlock => "B" | .gotBlock => "b"

def serPeer (ps : PeerSt) : String :=
  s!"c{ps.conns.toList}s{repr ps.sending}r{ps.wl.req.toList.map (fun kv => (kv.1, serReq kv.2))}f{ps.wl.force}y{ps.wl.synced}F{ps.sendFull}"

def serClient (c : Client.State) : String :=
  s!"q{repr c.queue}w{c.wantlist.cids.toList}v{c.wantlist.revision}p{c.peers.toList.map (fun kv => (kv.1, serPeer kv.2))}W{c.waiters.toList}t{repr c.tasks}r{c.runq}a{c.abort.toList}n{c.nextQuery},{c.nextTask}d{c.deadline}N{c.newBlocks}"

def serServer (s : Server.State) : String :=
  s!"w{s.wl.toList.map (fun kv => (kv.1, kv.2.toList))}W{s.waiting.toList}o{s.outq}e{repr s.evq}t{repr s.tasks}r{s.runq}n{s.nextTask}"

def serNode (n : Node.State) : String := s!"C[{serClient n.client}]S[{serServer n.server}]t{n.now}s{n.seq}"

def ser (s : State) : String :=
  s!"A{serNode s.a}B{serNode s.b}ab{repr s.wireAB}ba{s.wireBA}ca{s.callsA}pa{s.putsA}cb{s.callsB}an{s.answered}er{s.errors}"

instance : Inhabited Act := ⟨.drainA⟩

/-- Candidate fix A of the composition model: a `send` output is taken over by the connection
handler at once (`SendingStateChanged(Sending)`), so the `requested` timeout cannot fire while the
wantlist is in flight. -/

def stepX (fixA : Bool) (s : State) (a : Act) : State :=
  if !fixA then step s a else
  match a with
  | .drainA =>
    let (a, outs, _) := Node.step s.a (.drain [] [])
    let a := if outs.any isSend then (Node.step a (.sending 1 1 (.sending 1))).1 else a
    absorbA { s with a := a } outs
  | a => step s a

def roundX (f : Bool) (s : State) : State :=
  let s := stepX f s .drainA
  let s := s.callsA.foldl (fun s c => stepX f s (.lookupA c.1)) s
  let s := s.putsA.foldl (fun s c => stepX f s (.putDoneA c)) s
  let s := stepX f s .drainA
  let s := s.wireAB.foldl (fun s _ => stepX f s .deliverAB) s
  let s := stepX f s .drainB
  let s := s.callsB.foldl (fun s c => stepX f s (.lookupB c.1)) s
  let s := stepX f s .drainB
  let s := s.wireBA.foldl (fun s _ => stepX f s .deliverBA) s
  stepX f s .drainA

def imp (a b : Bool) : Bool := !a || b

def cidU : List Nat := [0, 1, 2]

/-- Bool version of `InGap`. -/
def inGapB (s : State) (k : Nat) : Bool :=
  (match s.a.client.peers[1]? with
   | some ps => ps.wl.req[k]? = some Req.sentWantHave || ps.wl.req[k]? = some Req.sentWantBlock
   | none => false) &&
  (match s.b.server.wl[0]? with
   | some set => !(set.contains k)
   | none => true)

def settleMin (f : Bool) (cap : Nat) (s : State) : Nat × State := Id.run do
  let mut s := s
  for i in List.range cap do
    if quiescent s then return (i, s)
    s := roundX f s
  return (if quiescent s then cap else cap + 1, s)

def chkGap (s : State) : Bool :=
  (wants s).all fun k => s.storeB[k]? == none || inGapB s k

def chkAgree (s : State) : Bool :=
  match s.b.server.wl[0]? with
  | some set => set.toList.all fun k => (wants s).contains k
  | none => true

def chkClosed (s' : State) : Bool := (wants s').all fun k => s'.storeB[k]? == none

def chkAgreeEq (s' : State) : Bool :=
  cidU.all fun k => (wants s').contains k ==
    (match s'.b.server.wl[0]? with | some set => set.contains k | none => false)

def chkAnswers (s : State) : Bool :=
  s.answered.all fun qd => s.storeB.toList.any fun kv => kv.2 == qd.2

/-- stronger: the answer to query `q` is the store's data *for the CID of q* cannot be checked without the
query table; we check data = 100 + k for some stored k. -/

structure Cfg where
  maxGets : Nat := 4
  maxRefresh : Nat := 2
  cids : List Nat := [0, 1, 2]
  /-- refresh only when no wantlist is in flight / unacknowledged -/
  guardRefresh : Bool := false
  noCancel : Bool := false
  fixA : Bool := false
  cap : Nat := 12

def peerReady (s : State) : Bool :=
  match s.a.client.peers[1]? with
  | some ps => ps.sending == .ready
  | none => true

def acts (cfg : Cfg) (s : State) : Array Act := Id.run do
  let mut a : Array Act := #[]
  if s.a.client.nextQuery < cfg.maxGets then
    for k in cfg.cids do a := a.push (.get k)
  if !cfg.noCancel then
    for q in List.range s.a.client.nextQuery do a := a.push (.cancel q)
  if s.a.now < cfg.maxRefresh * sendFullInterval && (!cfg.guardRefresh || peerReady s) then
    a := a.push .refresh
  a := a.push .drainA
  a := a.push .drainB
  for c in s.callsA do a := a.push (.lookupA c.1)
  for c in s.putsA do a := a.push (.putDoneA c)
  for c in s.callsB do a := a.push (.lookupB c.1)
  if !s.wireAB.isEmpty then a := a.push .deliverAB
  if !s.wireBA.isEmpty then a := a.push .deliverBA
  return a

def actName : Act → String := fun a => toString (repr a)

/-- all checks at a state; returns names of violated ones, and the settle count -/
def check (cfg : Cfg) (s : State) : List String × Nat := Id.run do
  let mut v : List String := []
  let (n, t) := settleMin cfg.fixA cfg.cap s
  if n > cfg.cap then v := v ++ ["settle"]
  if !chkAnswers s then v := v ++ ["answers"]
  let mut m := n
  if n ≤ cfg.cap then
    -- t is reachable and quiescent
    if !chkGap t then v := v ++ ["gap"]
    if !chkAgree t then v := v ++ ["agree"]
    if !cfg.guardRefresh || peerReady t then
      let (n2, t') := settleMin cfg.fixA cfg.cap (stepX cfg.fixA t .refresh)
      m := max m n2
      if n2 > cfg.cap then v := v ++ ["settle2"]
      else
        if !chkClosed t' then v := v ++ ["closed"]
        if !chkAgreeEq t' then v := v ++ ["agreeEq"]
  return (v, m)

structure Res where
  states : Nat := 0
  trans : Nat := 0
  maxSettle : Nat := 0
  viol : List (String × List String) := []   -- violation name, shortest trace found
deriving Repr

def addViol (r : Res) (names : List String) (trace : List Act) : Res :=
  names.foldl (fun r n => if r.viol.any (·.1 == n) then r else
    { r with viol := r.viol ++ [(n, trace.map actName)] }) r

def bfs (cfg : Cfg) (store : KMap Nat) (depth : Nat) : Res := Id.run do
  let s0 := init store
  let mut seen : HashSet String := HashSet.emptyWithCapacity 100000
  seen := seen.insert (ser s0)
  let mut frontier : Array (State × List Act) := #[(s0, [])]
  let mut r : Res := {}
  let (v, m) := check cfg s0
  r := addViol { r with states := 1, maxSettle := m } v []
  for _ in List.range depth do
    let mut next : Array (State × List Act) := #[]
    for (s, tr) in frontier do
      for a in acts cfg s do
        let s' := stepX cfg.fixA s a
        r := { r with trans := r.trans + 1 }
        let key := ser s'
        if !seen.contains key then
          seen := seen.insert key
          let tr' := tr ++ [a]
          let (v, m) := check cfg s'
          r := addViol { r with states := r.states + 1, maxSettle := max r.maxSettle m } v tr'
          next := next.push (s', tr')
    frontier := next
  return r

def lcg (r : Nat) : Nat := (r * 6364136223846793005 + 1442695040888963407) % 18446744073709551616

def walk (cfg : Cfg) (store : KMap Nat) (walks depth seed : Nat) : Res := Id.run do
  let mut rnd := seed
  let mut r : Res := {}
  for _ in List.range walks do
    let mut s := init store
    let mut tr : List Act := []
    for _ in List.range depth do
      let as := acts cfg s
      rnd := lcg rnd
      let a := as[(rnd / 65536) % as.size]!
      s := stepX cfg.fixA s a
      tr := tr ++ [a]
      let (v, m) := check cfg s
      r := addViol { r with trans := r.trans + 1, maxSettle := max r.maxSettle m } v tr
  return r

/-- Scenario 1: `n` gets of distinct CIDs `0..n-1` (b holds those in `store`), then settle:
returns the number of rounds needed. -/
def scenRounds (store : KMap Nat) (n : Nat) : Nat × Nat :=
  let s := (List.range n).foldl (fun s k => step s (.get k)) (init store)
  let (r, t) := settleMin false (n + 20) s
  (r, (wants t).length)

/-- Scenario 2 (server cap): `n` gets of distinct CIDs `0..n-1`, b holds only CID `n-1`; settle,
refresh, settle.  Returns (rounds, rounds after refresh, is `n-1` still wanted, size of b's record). -/
def scenCap (n : Nat) : Nat × Nat × Bool × Nat :=
  let store : KMap Nat := (∅ : KMap Nat).insert (n - 1) 777
  let s := (List.range n).foldl (fun s k => step s (.get k)) (init store)
  let (r1, t) := settleMin false (n + 20) s
  let (r2, t') := settleMin false (n + 20) (step t .refresh)
  (r1, r2, (wants t').contains (n - 1), match t'.b.server.wl[0]? with | some set => set.size | none => 0)

/-! ### Bool versions of the invariant conjuncts of `NetDefs` -/

def isWaitingB : Server.LookupSt → Option Nat | .waiting n => some n | _ => none
def isWaitingA : Client.TaskSt → Option Nat | .waiting n => some n | _ => none

def binvB (s : State) : List String := Id.run do
  let sv := s.b.server
  let mut v : List String := []
  let chk (n : String) (b : Bool) (v : List String) : List String := if b then v else v ++ [n]
  v := chk "b.wl0" (sv.wl[0]?).isSome v
  v := chk "b.outq_nil" sv.outq.isEmpty v
  v := chk "b.cl" (s.b.client.tasks.isEmpty && s.b.client.runq.isEmpty && s.b.client.queue.isEmpty && s.b.client.newBlocks.isEmpty) v
  v := chk "b.ids_nodup" ((sv.tasks.map (·.id)).eraseDups.length == sv.tasks.length) v
  v := chk "b.ids_lt" (sv.tasks.all fun t => t.id < sv.nextTask) v
  v := chk "b.sched" (sv.tasks.all fun t => (sv.runq.contains t.id && (isWaitingB t.st).isNone) ||
        (match t.st, t.todo with
         | .waiting n, k :: _ => s.callsB.contains (n, k)
         | _, _ => false)) v
  v := chk "b.ready_ok" (sv.tasks.all fun t => match t.st with
        | .ready r => (match t.todo with | k :: _ => r == lookupRes s.storeB k | [] => false)
        | _ => true) v
  v := chk "b.results_ok" (sv.tasks.all fun t => t.results.all fun kr => kr.2 == lookupRes s.storeB kr.1) v
  v := chk "b.calls_task" (s.callsB.all fun c => sv.tasks.any fun t => isWaitingB t.st == some c.1 && t.todo.head? == some c.2) v
  v := chk "b.calls_lt" (s.callsB.all fun c => c.1 < s.b.seq) v
  v := chk "b.calls_nodup" ((s.callsB.map (·.1)).eraseDups.length == s.callsB.length) v
  v := chk "b.wait_lt" (sv.tasks.all fun t => match t.st with | .waiting n => n < s.b.seq | _ => true) v
  v := chk "b.wait_inj" (sv.tasks.all fun t => sv.tasks.all fun t' =>
        match isWaitingB t.st with
        | some n => imp (isWaitingB t'.st == some n) (t.id == t'.id)
        | none => true) v
  v := chk "b.wire_ok" (s.wireBA.all fun bs => bs.all fun kd => s.storeB[kd.1]? == some kd.2) v
  v := chk "b.pending" ((bset s).toList.all fun k => match s.storeB[k]? with
        | some d => sv.tasks.any fun t => t.todo.contains k || t.results.contains (k, .hit d)
        | none => true) v
  return v

def isRespOk (s : State) : Client.Out → Bool
  | .resp _ d => s.storeB.toList.any fun kv => kv.2 == d
  | _ => true

def ainvB (cids : List Nat) (g : GS) : List String := Id.run do
  let s := g.s
  let c := s.a.client
  let ps := apeer s
  let mut v : List String := []
  let chk (n : String) (b : Bool) (v : List String) : List String := if b then v else v ++ [n]
  v := chk "a.coh" (serClient g.x.sys.s == serClient c && g.x.sys.now == s.a.now && g.x.sys.seq == s.a.seq) v
  v := chk "a.srv" (s.a.server.tasks.isEmpty && s.a.server.runq.isEmpty && s.a.server.evq.isEmpty && s.a.server.outq.isEmpty && s.a.server.waiting.isEmpty) v
  v := chk "a.peer1" ((c.peers[1]?).isSome && c.peers.keys == [1]) v
  v := chk "a.wire" ((ps.sending == .ready && s.wireAB.isEmpty) || (ps.sending == .sending 1 && s.wireAB.length == 1)) v
  v := chk "a.reqvals" (ps.wl.req.toList.all fun kv => kv.2 == Req.sentWantHave || kv.2 == Req.gotBlock) v
  v := chk "a.deadline" (c.deadline ≤ s.a.now + sendFullInterval) v
  v := chk "a.no_hit" (c.tasks.all fun t => match t.st with | .done (.hit _) => false | _ => true) v
  v := chk "a.queue_ok" (c.queue.all (isRespOk s)) v
  v := chk "a.ids_nodup" ((c.tasks.map (·.id)).eraseDups.length == c.tasks.length) v
  v := chk "a.ids_lt" (c.tasks.all fun t => t.id < c.nextTask) v
  v := chk "a.sched" (c.tasks.all fun t => (c.runq.contains t.id && (t.aborted || (isWaitingA t.st).isNone)) ||
        (match t.st with
         | .waiting n => (s.callsA.map (·.1)).contains n || s.putsA.contains n
         | _ => false)) v
  v := chk "a.wait_lt" (c.tasks.all fun t => match t.st with | .waiting n => n < s.a.seq | _ => true) v
  v := chk "a.wait_inj" (c.tasks.all fun t => c.tasks.all fun t' =>
        match isWaitingA t.st with
        | some n => imp (isWaitingA t'.st == some n) (t.id == t'.id)
        | none => true) v
  v := chk "a.asked_len" (g.asked.length == c.nextQuery) v
  v := chk "a.get_asked" (c.tasks.all fun t => match t.kind with | .get _ k => g.asked.contains k | _ => true) v
  v := chk "a.want_asked" (c.wantlist.cids.toList.all fun k => g.asked.contains k) v
  -- the four PeerInv facts used
  let h := ahist g
  v := chk "p.asked_told" (cids.all fun k => imp (ps.wl.req[k]? == some Req.sentWantHave) (h.told.contains k)) v
  v := chk "p.got_deliv" (cids.all fun k => imp (ps.wl.req[k]? == some Req.gotBlock) (h.deliv.contains k)) v
  v := chk "p.got_unwanted" (cids.all fun k => imp (ps.wl.req[k]? == some Req.gotBlock) (!c.wantlist.cids.contains k)) v
  v := chk "p.told_tracked" (cids.all fun k => imp (h.told.contains k && ps.wl.req[k]? == none) (h.deliv.contains k)) v
  return v

def xinvB (cids : List Nat) (g : GS) : List String := Id.run do
  let s := g.s
  let h := ahist g
  let mut v : List String := []
  let chk (n : String) (b : Bool) (v : List String) : List String := if b then v else v ++ [n]
  let inflightOk (k : Nat) : Bool := s.wireAB.all fun m => m.full == false && !m.cancel.contains k
  v := chk "x.told_asked" (h.told.toList.all fun k => g.asked.contains k) v
  v := chk "x.set_asked" ((bset s).toList.all fun k => g.asked.contains k) v
  v := chk "x.msg_wb" (s.wireAB.all fun m => m.wantBlock.isEmpty) v
  v := chk "x.msg_nodup" (s.wireAB.all fun m => m.wantHave.eraseDups.length == m.wantHave.length) v
  v := chk "x.msg_told" (s.wireAB.all fun m => m.wantHave.all fun k => h.told.contains k) v
  v := chk "x.set_told" ((bset s).toList.all fun k => imp (inflightOk k) (h.told.contains k)) v
  v := chk "x.told_set" (h.told.toList.all fun k =>
        h.deliv.contains k || (s.wireBA.any fun bs => bs.any fun kd => kd.1 == k) ||
        (s.wireAB.any fun m => m.wantHave.contains k) || ((bset s).contains k && inflightOk k)) v
  v := chk "x.deliv_store" (h.deliv.toList.all fun k => (s.storeB[k]?).isSome) v
  let _ := cids
  return v

def cleanB (g : GS) : Bool :=
  (g.s.a.client.tasks.all fun t => match t.kind with | .get _ _ => t.aborted | _ => true) &&
  (g.s.a.client.wantlist.cids.toList.all fun k => !(ahist g).deliv.contains k)

def serG (g : GS) : String :=
  s!"{ser g.s}T{(ahist g).told.toList}D{(ahist g).deliv.toList}K{g.asked}"

/-- internal actions available -/
def iacts (s : State) : Array Act := Id.run do
  let mut a : Array Act := #[.drainA, .drainB]
  for c in s.callsA do a := a.push (.lookupA c.1)
  for c in s.putsA do a := a.push (.putDoneA c)
  for c in s.callsB do a := a.push (.lookupB c.1)
  if !s.wireAB.isEmpty then a := a.push .deliverAB
  if !s.wireBA.isEmpty then a := a.push .deliverBA
  return a

/-! ### The measure of `NetMeasure.lean` -/

def measCheck (s : State) : List String := Id.run do
  let mut v : List String := []
  let m := meas s
  for a in iacts s do
    let s' := step s a
    let m' := meas s'
    if !decide (m'.le m) then v := v ++ [s!"meas.le {actName a} {repr m} -> {repr m'}"]
    let strict : Bool := match a with
      | .drainA => !s.a.client.runq.isEmpty || !s.a.client.queue.isEmpty || !(Node.step s.a (.drain [] [])).2.1.isEmpty
      | .drainB => !s.b.server.runq.isEmpty || !(Node.step s.b (.drain [] [])).2.1.isEmpty
      | _ => true   -- iacts only lists enabled completions / deliveries
    if strict && !decide (m'.lt m) then v := v ++ [s!"meas.lt {actName a} {repr m} -> {repr m'}"]
  if !quiescent s && !decide ((meas (round s)).lt m) then v := v ++ [s!"meas.round {repr m} -> {repr (meas (round s))}"]
  return v

def gsettleMin (cap : Nat) (g : GS) : Nat × GS := Id.run do
  let mut g := g
  for i in List.range cap do
    if quiescent g.s then return (i, g)
    -- the ghost version of `round`
    g := gnext g .drainA
    for c in g.s.callsA do g := gnext g (.lookupA c.1)
    for c in g.s.putsA do g := gnext g (.putDoneA c)
    g := gnext g .drainA
    for _ in g.s.wireAB do g := gnext g .deliverAB
    g := gnext g .drainB
    for c in g.s.callsB do g := gnext g (.lookupB c.1)
    g := gnext g .drainB
    for _ in g.s.wireBA do g := gnext g .deliverBA
    g := gnext g .drainA
  return (if quiescent g.s then cap else cap + 1, g)

/-- invariant check on ghost states + Clean after refresh from quiescence (checked at every state of
a random internal schedule after the first drainA). -/
def gcheck (cfg : Cfg) (g : GS) (rnd : Nat) : List String × Nat := Id.run do
  let mut v := binvB g.s ++ ainvB cfg.cids g ++ xinvB cfg.cids g ++ measCheck g.s
  let mut rnd := rnd
  let (n, t) := gsettleMin cfg.cap g
  if n > cfg.cap then v := v ++ ["settle"]
  else
    -- t quiescent: refresh, drainA, then random internal steps: Clean must hold throughout
    let mut u := gnext (gnext t .refresh) .drainA
    if !cleanB u then v := v ++ ["clean0"]
    for _ in List.range 12 do
      let as := iacts u.s
      rnd := lcg rnd
      u := gnext u (as[(rnd / 65536) % as.size]!)
      if !cleanB u then v := v ++ ["clean"]
  return (v, rnd)

def gwalk (cfg : Cfg) (store : KMap Nat) (walks depth seed : Nat) : Res := Id.run do
  let mut rnd := seed
  let mut r : Res := {}
  for _ in List.range walks do
    let mut g := ginit store
    let mut tr : List Act := []
    for _ in List.range depth do
      let as := acts cfg g.s
      rnd := lcg rnd
      let a := as[(rnd / 65536) % as.size]!
      g := gnext g a
      tr := tr ++ [a]
      let (v, rnd') := gcheck cfg g rnd
      rnd := rnd'
      r := addViol { r with trans := r.trans + 1 } v tr
  return r

def gbfs (cfg : Cfg) (store : KMap Nat) (depth : Nat) : Res := Id.run do
  let g0 := ginit store
  let mut seen : HashSet String := HashSet.emptyWithCapacity 100000
  seen := seen.insert (serG g0)
  let mut frontier : Array (GS × List Act) := #[(g0, [])]
  let mut r : Res := {}
  r := addViol { r with states := 1 } (gcheck cfg g0 1).1 []
  for _ in List.range depth do
    let mut next : Array (GS × List Act) := #[]
    for (g, tr) in frontier do
      for a in acts cfg g.s do
        let g' := gnext g a
        r := { r with trans := r.trans + 1 }
        let key := serG g'
        if !seen.contains key then
          seen := seen.insert key
          let tr' := tr ++ [a]
          r := addViol { r with states := r.states + 1 } (gcheck cfg g' (r.trans + 17)).1 tr'
          next := next.push (g', tr')
    frontier := next
  return r

def store01 : KMap Nat := ((∅ : KMap Nat).insert 0 100).insert 1 101

end Beetswap.Proofs.NetExplore

open Beetswap.Proofs.NetExplore in
def main (args : List String) : IO Unit := do
  let mode := args.getD 0 "bfs"
  let depth := (args.getD 1 "8").toNat!
  let guard := (args.getD 2 "0") == "1"
  let gets := (args.getD 3 "4").toNat!
  let refr := (args.getD 4 "2").toNat!
  let ncid := (args.getD 5 "3").toNat!
  let walks := (args.getD 6 "1000").toNat!
  let seed := (args.getD 7 "12345").toNat!
  let nocancel := (args.getD 8 "0") == "1"
  let fixA := (args.getD 9 "0") == "1"
  let cfg : Cfg := { maxGets := gets, maxRefresh := refr, cids := List.range ncid, guardRefresh := guard, noCancel := nocancel, fixA := fixA }
  if mode == "scen" then
    IO.println s!"rounds(all held) {scenRounds ((List.range depth).foldl (fun (m : KMap Nat) k => m.insert k (100 + k)) ∅) depth}"
    IO.println s!"rounds(none held) {scenRounds ∅ depth}"
    return
  if mode == "cap" then
    IO.println s!"cap {scenCap depth}"
    return
  let r := if mode == "gbfs" then gbfs cfg store01 depth else if mode == "gwalk" then gwalk cfg store01 walks depth seed else if mode == "bfs" then bfs cfg store01 depth else walk cfg store01 walks depth seed
  IO.println s!"states {r.states} trans {r.trans} maxSettle {r.maxSettle}"
  for (n, tr) in r.viol do
    IO.println s!"VIOLATION {n}: {tr}"

/-
Runs performed (native binary, see NET_NOTES.md), store = {0 ↦ 100, 1 ↦ 101}, CIDs {0,1,2}:
* original model (before fix A): `bfs 6 0` → VIOLATION gap / closed / agreeEq after `get 0, drainA, refresh`;
  `walk 60 0 4 2 3 20000 111` → additionally VIOLATION agree (peer 1 of a dropped by the late-ack timeout).
* fixed model: `bfs 16 0 2 1 2` (42 776 states), `bfs 11 0 3 1 3` (681 230 states, 3 088 933 transitions),
  `bfs 9 0 4 2 3` (1 532 520 states, 4 239 877 transitions), `walk 60 0 4 2 3 20000 111` (1.2 M),
  `walk 150 0 8 4 3 4000 999` (0.6 M), `walk 40 0 4 2 3 30000 4242` (1.2 M): no violation, maxSettle 5.
* `scen n` (n = 1,2,3,4,6,10,20) → rounds n + 2: no numeral `settleRounds` works.
* `cap 1025` → (1025 rounds, 1 round after refresh, CID 1024 still wanted, |record of b| = 1024).
* invariant / measure validation: `gbfs 7 0 4 2 3` (118 496 states), `gbfs 14 0 2 1 2`, `gbfs 9 0 3 1 3`
  (299 362 states), `gbfs 8 0 4 2 3`, `gwalk` 60/150/40/100/120-step walks (≈ 1.8 M transitions): every
  conjunct of `NInv`, `Clean` after refresh, `meas` non-increasing / strictly decreasing: no violation.
-/
