import Beetswap.Proofs.NetProgA
import Beetswap.Proofs.NetProgB
import Beetswap.Proofs.NetInv
import Beetswap.Proofs.NetRound
/-!
Progress (`settle_quiesces`): a round of the canonical schedule strictly decreases the
lexicographic measure `meas` unless the state is quiescent.
-/
namespace Beetswap.Proofs.Net
open Std Beetswap.Net Beetswap.Wl
open Beetswap.Client (PeerSt Sending StoreRes Out TaskSt TaskKind Sys sendFullInterval)

/-- the invariants the progress argument uses, as a predicate on states -/
def PInv (store : KMap Nat) (s : State) : Prop :=
  ∃ g : GS, g.s = s ∧ NInv store g ∧ BCInv s ∧ PA.QEv s

theorem pinv_init (store : KMap Nat) : PInv store (init store) :=
  ⟨ginit store, rfl, ninv_init store, bcinv_init store, PA.qev_init store⟩

theorem pinv_step (store : KMap Nat) (s : State) (act : Act) (h : PInv store s) :
    PInv store (step s act) := by
  obtain ⟨g, rfl, hi, hc, hq⟩ := h
  exact ⟨gnext g act, rfl, ninv_step store g act hi, bcinv_step g.s act hi.b hc, PA.qev_step g.s act hq⟩

theorem pinv_reach (store : KMap Nat) (s : State) (h : Reachable store s) : PInv store s := by
  induction h with
  | init => exact pinv_init store
  | step act _ ih => exact pinv_step store _ act ih

/-- no internal action increases the measure -/
theorem meas_step_le (store : KMap Nat) (s : State) (act : Act) (hact : act.internal = true)
    (h : PInv store s) : (meas (step s act)).le (meas s) := by
  obtain ⟨g, rfl, hi, hc, hqe⟩ := h
  cases act with
  | get k => cases hact
  | cancel q => cases hact
  | refresh => cases hact
  | drainA => exact (meas_drainA g hi.a hqe).1
  | drainB => exact (meas_drainB g.s hi.b hc).1
  | lookupA n => exact (meas_lookupA g hi.a n).1
  | putDoneA n => exact (meas_putDoneA g hi.a n).1
  | lookupB n => exact (meas_lookupB g.s hi.b n).1
  | deliverAB => exact (meas_deliverAB g.s hi.b).1
  | deliverBA => exact (meas_deliverBA g hi.a).1

/-- the invariants together with a bound on the measure -/
def Below (store : KMap Nat) (m : Meas) (s : State) : Prop := PInv store s ∧ (meas s).le m

theorem below_step (store : KMap Nat) (m : Meas) (s : State) (act : Act) (hact : act.internal = true)
    (h : Below store m s) : Below store m (step s act) :=
  ⟨pinv_step store s act h.1, Meas.le_trans (meas_step_le store s act hact h.1) h.2⟩

/-- the invariants together with a strict bound on the measure -/
def SBelow (store : KMap Nat) (m : Meas) (s : State) : Prop := PInv store s ∧ (meas s).lt m

theorem sbelow_step (store : KMap Nat) (m : Meas) (s : State) (act : Act) (hact : act.internal = true)
    (h : SBelow store m s) : SBelow store m (step s act) :=
  ⟨pinv_step store s act h.1, Meas.lt_of_le_of_lt (meas_step_le store s act hact h.1) h.2⟩

/-! ### A list-shaped phase with a non-empty list is strictly decreasing -/

theorem fold_sbelow {α : Type} (store : KMap Nat) (m : Meas) (f : α → Act)
    (hf : ∀ a, (f a).internal = true) (l : List α) (s : State) (h : SBelow store m s) :
    SBelow store m (l.foldl (fun s a => step s (f a)) s) :=
  fold_closed _ (fun s act ha hs => sbelow_step store m s act ha hs) l f hf s h

theorem fold_strict {α : Type} (store : KMap Nat) (f : α → Act) (hf : ∀ a, (f a).internal = true)
    (a : α) (l : List α) (s : State) (h : PInv store s) (hlt : (meas (step s (f a))).lt (meas s)) :
    SBelow store (meas s) ((a :: l).foldl (fun s a => step s (f a)) s) := by
  simp only [List.foldl_cons]
  exact fold_sbelow store (meas s) f hf l _ ⟨pinv_step store s (f a) h, hlt⟩

/-! ### Persistence of the reasons for not being quiescent -/

theorem fold_keeps {α : Type} (Q : State → Prop) (f : α → Act) (hQ : ∀ s a, Q s → Q (step s (f a)))
    (l : List α) (s : State) (h : Q s) : Q (l.foldl (fun s a => step s (f a)) s) := by
  induction l generalizing s with
  | nil => exact h
  | cons a l ih => exact ih _ (hQ s a h)

theorem lookupA_fields (s : State) (n : Nat) :
    (step s (.lookupA n)).putsA = s.putsA ∧ (step s (.lookupA n)).wireAB = s.wireAB ∧
    (step s (.lookupA n)).wireBA = s.wireBA ∧ (step s (.lookupA n)).callsB = s.callsB := by
  simp only [step]; split <;> exact ⟨rfl, rfl, rfl, rfl⟩

theorem putDoneA_fields (s : State) (n : Nat) :
    (step s (.putDoneA n)).wireAB = s.wireAB ∧ (step s (.putDoneA n)).wireBA = s.wireBA ∧
    (step s (.putDoneA n)).callsB = s.callsB := by
  simp only [step]; split <;> exact ⟨rfl, rfl, rfl⟩

theorem drainA_fields (store : KMap Nat) (s : State) (h : PInv store s) :
    (∃ l, (step s .drainA).callsA = s.callsA ++ l) ∧ (∃ l, (step s .drainA).putsA = s.putsA ++ l) ∧
    (∃ l, (step s .drainA).wireAB = s.wireAB ++ l) ∧ (step s .drainA).wireBA = s.wireBA ∧
    (step s .drainA).callsB = s.callsB := by
  obtain ⟨g, rfl, hi, _, _⟩ := h
  rw [step_drainA g.s hi.a.srv]
  obtain ⟨f1, _, _, f4, f5⟩ := absorbA_fields
    (Client.drain g.s.a.client g.s.a.now g.s.a.seq (Node.prefOf [])).2.2 { g.s with a := drainedA g.s.a }
  obtain ⟨_, _, b3, b4⟩ := absorbA_b
    (Client.drain g.s.a.client g.s.a.now g.s.a.seq (Node.prefOf [])).2.2 { g.s with a := drainedA g.s.a }
  exact ⟨⟨_, f4⟩, ⟨_, f5⟩, ⟨_, f1⟩, b3, b4⟩

theorem ne_nil_append {α : Type} {l : List α} (h : l ≠ []) (r : List α) : l ++ r ≠ [] := by
  cases l with
  | nil => exact absurd rfl h
  | cons a l => simp

/-! ### A round strictly decreases the measure unless the state is quiescent -/

/-- the seven reasons for not being quiescent -/
theorem not_quiescent_cases (store : KMap Nat) (s : State) (h : PInv store s) (hq : quiescent s = false) :
    BusyA s ∨ s.callsA ≠ [] ∨ s.putsA ≠ [] ∨ s.wireAB ≠ [] ∨ BusyB s ∨ s.callsB ≠ [] ∨ s.wireBA ≠ [] := by
  obtain ⟨g, rfl, hi, hc, _⟩ := h
  apply Classical.byContradiction
  intro hn
  simp only [not_or, BusyA, Classical.not_not] at hn
  obtain ⟨⟨a1, a2, a3⟩, h2, h3, h4, h5, h6, h7⟩ := hn
  have hb : ¬ (g.s.b.server.runq ≠ [] ∨ (Node.step g.s.b (.drain [] [])).2.1 ≠ []) :=
    fun hh => h5 (busyB_of_out g.s hi.b hc hh)
  simp only [not_or, Classical.not_not] at hb
  have : quiescent g.s = true := by
    simp only [quiescent, Bool.and_eq_true, List.isEmpty_iff]
    exact ⟨⟨⟨⟨⟨⟨⟨⟨⟨⟨h4, h7⟩, h2⟩, h3⟩, h6⟩, a3⟩, hb.2⟩, a1⟩, hb.1⟩, hi.b.outq_nil⟩, a2⟩
  rw [this] at hq; cases hq

attribute [local irreducible] Beetswap.Net.step in
theorem round_lt (store : KMap Nat) (s : State) (h : PInv store s) (hq : quiescent s = false) :
    (meas (round s)).lt (meas s) := by
  -- names for the states along the round
  have hI : ∀ s act, act.internal = true → PInv store s → PInv store (step s act) :=
    fun s act _ hs => pinv_step store s act hs
  let s1 := step s .drainA
  let s2 := phLookupA s1
  let s3 := phPutDone s2
  let s4 := step s3 .drainA
  let s5 := phDeliverAB s4
  let s6 := step s5 .drainB
  let s7 := phLookupB s6
  let s8 := step s7 .drainB
  let s9 := phDeliverBA s8
  have hround : round s = step s9 .drainA := rfl
  -- invariants along the way
  have p1 : PInv store s1 := hI _ _ rfl h
  have p2 : PInv store s2 := fold_closed _ hI _ (fun (c : Nat × Nat) => Act.lookupA c.1) (fun _ => rfl) _ p1
  have p3 : PInv store s3 := fold_closed _ hI _ (fun c => Act.putDoneA c) (fun _ => rfl) _ p2
  have p4 : PInv store s4 := hI _ _ rfl p3
  have p5 : PInv store s5 := fold_closed _ hI _ (fun _ => Act.deliverAB) (fun _ => rfl) _ p4
  have p6 : PInv store s6 := hI _ _ rfl p5
  have p7 : PInv store s7 := fold_closed _ hI _ (fun (c : Nat × Nat) => Act.lookupB c.1) (fun _ => rfl) _ p6
  have p8 : PInv store s8 := hI _ _ rfl p7
  have p9 : PInv store s9 := fold_closed _ hI _ (fun _ => Act.deliverBA) (fun _ => rfl) _ p8
  -- the measure never increases
  have hle : ∀ (m : Meas) (t : State), Below store m t → ∀ act, act.internal = true →
      Below store m (step t act) := fun m t ht act ha => below_step store m t act ha ht
  have hS : ∀ (m : Meas) (t : State) (act : Act), act.internal = true → SBelow store m t →
      SBelow store m (step t act) := fun m t act ha ht => sbelow_step store m t act ha ht
  have q1 : Below store (meas s) s1 := hle _ _ ⟨h, Meas.le_refl _⟩ _ rfl
  have q2 : Below store (meas s) s2 :=
    fold_closed _ (fun t act ha ht => hle _ t ht act ha) _ (fun (c : Nat × Nat) => Act.lookupA c.1)
      (fun _ => rfl) _ q1
  have q3 : Below store (meas s) s3 :=
    fold_closed _ (fun t act ha ht => hle _ t ht act ha) _ (fun c => Act.putDoneA c) (fun _ => rfl) _ q2
  have q4 : Below store (meas s) s4 := hle _ _ q3 _ rfl
  have q5 : Below store (meas s) s5 :=
    fold_closed _ (fun t act ha ht => hle _ t ht act ha) _ (fun _ => Act.deliverAB) (fun _ => rfl) _ q4
  have q6 : Below store (meas s) s6 := hle _ _ q5 _ rfl
  have q7 : Below store (meas s) s7 :=
    fold_closed _ (fun t act ha ht => hle _ t ht act ha) _ (fun (c : Nat × Nat) => Act.lookupB c.1)
      (fun _ => rfl) _ q6
  have q8 : Below store (meas s) s8 := hle _ _ q7 _ rfl
  -- from a strict bound at some point to the end of the round
  have e9 : SBelow store (meas s) s9 → (meas (round s)).lt (meas s) := fun t => (hS _ _ _ rfl t).2
  have e8 : SBelow store (meas s) s8 → (meas (round s)).lt (meas s) := fun t =>
    e9 (fold_sbelow store _ (fun _ => Act.deliverBA) (fun _ => rfl) _ _ t)
  have e7 : SBelow store (meas s) s7 → (meas (round s)).lt (meas s) := fun t => e8 (hS _ _ _ rfl t)
  have e6 : SBelow store (meas s) s6 → (meas (round s)).lt (meas s) := fun t =>
    e7 (fold_sbelow store _ (fun (c : Nat × Nat) => Act.lookupB c.1) (fun _ => rfl) _ _ t)
  have e5 : SBelow store (meas s) s5 → (meas (round s)).lt (meas s) := fun t => e6 (hS _ _ _ rfl t)
  have e4 : SBelow store (meas s) s4 → (meas (round s)).lt (meas s) := fun t =>
    e5 (fold_sbelow store _ (fun _ => Act.deliverAB) (fun _ => rfl) _ _ t)
  have e3 : SBelow store (meas s) s3 → (meas (round s)).lt (meas s) := fun t => e4 (hS _ _ _ rfl t)
  have e2 : SBelow store (meas s) s2 → (meas (round s)).lt (meas s) := fun t =>
    e3 (fold_sbelow store _ (fun c => Act.putDoneA c) (fun _ => rfl) _ _ t)
  have e1 : SBelow store (meas s) s1 → (meas (round s)).lt (meas s) := fun t =>
    e2 (fold_sbelow store _ (fun (c : Nat × Nat) => Act.lookupA c.1) (fun _ => rfl) _ _ t)
  -- a strict step at a state that is below the bound gives a strict bound
  have strict : ∀ (t : State), Below store (meas s) t → ∀ act, (meas (step t act)).lt (meas t) →
      SBelow store (meas s) (step t act) := fun t ht act hlt =>
    ⟨pinv_step store t act ht.1, Meas.lt_of_lt_of_le hlt ht.2⟩
  have strictFold : ∀ {α : Type} (f : α → Act), (∀ a, (f a).internal = true) → ∀ (t : State),
      Below store (meas s) t → ∀ (a : α) (l : List α), (meas (step t (f a))).lt (meas t) →
      SBelow store (meas s) ((a :: l).foldl (fun s a => step s (f a)) t) := by
    intro α f hf t ht a l hlt
    simp only [List.foldl_cons]
    exact fold_sbelow store _ f hf l _ (strict t ht (f a) hlt)
  -- the fields along the way
  obtain ⟨⟨lc1, hc1⟩, ⟨lp1, hp1⟩, ⟨lw1, hw1⟩, hba1, hcb1⟩ := drainA_fields store s h
  obtain ⟨_, ⟨lp4, hp4⟩, ⟨lw4, hw4⟩, hba4, hcb4⟩ := drainA_fields store s3 p3
  rcases not_quiescent_cases store s h hq with hA | hA | hA | hA | hA | hA | hA
  · -- `a` is busy: the first drain is strict
    obtain ⟨g, hg, hi, hc, hqe⟩ := h
    subst hg
    exact e1 (strict _ ⟨⟨g, rfl, hi, hc, hqe⟩, Meas.le_refl _⟩ _ ((meas_drainA g hi.a hqe).2 hA))
  · -- a lookup of `a` is pending
    have hne : s1.callsA ≠ [] := by show (step s .drainA).callsA ≠ []; rw [hc1]; exact ne_nil_append hA _
    obtain ⟨g1, hg1, hi1, _, _⟩ := p1
    cases hl : s1.callsA with
    | nil => exact absurd hl hne
    | cons c l =>
      have hlt : (meas (step s1 (.lookupA c.1))).lt (meas s1) := by
        rw [← hg1]
        apply (meas_lookupA g1 hi1.a c.1).2
        rw [hg1, hl]; simp
      apply e2
      show SBelow store (meas s) (phLookupA s1)
      unfold phLookupA
      rw [hl]
      exact strictFold (fun (c : Nat × Nat) => Act.lookupA c.1) (fun _ => rfl) s1 q1 c l hlt
  · -- a `put` of `a` is pending
    have hne1 : s1.putsA ≠ [] := by show (step s .drainA).putsA ≠ []; rw [hp1]; exact ne_nil_append hA _
    have hne : s2.putsA ≠ [] := by
      show (phLookupA s1).putsA ≠ []
      unfold phLookupA
      exact fold_keeps (fun t => t.putsA ≠ []) (fun (c : Nat × Nat) => Act.lookupA c.1)
        (fun t c ht => by rw [(lookupA_fields t c.1).1]; exact ht) _ _ hne1
    obtain ⟨g2, hg2, hi2, _, _⟩ := p2
    cases hl : s2.putsA with
    | nil => exact absurd hl hne
    | cons c l =>
      have hlt : (meas (step s2 (.putDoneA c))).lt (meas s2) := by
        rw [← hg2]
        apply (meas_putDoneA g2 hi2.a c).2
        rw [hg2, hl]; simp
      apply e3
      show SBelow store (meas s) (phPutDone s2)
      unfold phPutDone
      rw [hl]
      exact strictFold (fun c => Act.putDoneA c) (fun _ => rfl) s2 q2 c l hlt
  · -- a wantlist is in flight
    have hne1 : s1.wireAB ≠ [] := by show (step s .drainA).wireAB ≠ []; rw [hw1]; exact ne_nil_append hA _
    have hne2 : s2.wireAB ≠ [] := by
      show (phLookupA s1).wireAB ≠ []
      unfold phLookupA
      exact fold_keeps (fun t => t.wireAB ≠ []) (fun (c : Nat × Nat) => Act.lookupA c.1)
        (fun t c ht => by rw [(lookupA_fields t c.1).2.1]; exact ht) _ _ hne1
    have hne3 : s3.wireAB ≠ [] := by
      show (phPutDone s2).wireAB ≠ []
      unfold phPutDone
      exact fold_keeps (fun t => t.wireAB ≠ []) (fun c => Act.putDoneA c)
        (fun t c ht => by rw [(putDoneA_fields t c).1]; exact ht) _ _ hne2
    have hne : s4.wireAB ≠ [] := by show (step s3 .drainA).wireAB ≠ []; rw [hw4]; exact ne_nil_append hne3 _
    obtain ⟨g4, hg4, hi4, _, _⟩ := p4
    cases hl : s4.wireAB with
    | nil => exact absurd hl hne
    | cons c l =>
      have hlt : (meas (step s4 .deliverAB)).lt (meas s4) := by
        rw [← hg4]
        apply (meas_deliverAB g4.s hi4.b).2
        rw [hg4, hl]; simp
      apply e5
      show SBelow store (meas s) (phDeliverAB s4)
      unfold phDeliverAB
      rw [hl]
      exact strictFold (fun _ => Act.deliverAB) (fun _ => rfl) s4 q4 c l hlt
  · -- `b` is busy
    have hb1 : BusyB s1 := busyB_frame s _ rfl hA
    have hb2 : BusyB s2 := by
      show BusyB (phLookupA s1)
      unfold phLookupA
      exact fold_keeps BusyB (fun (c : Nat × Nat) => Act.lookupA c.1) (fun t c ht => busyB_frame t _ rfl ht) _ _ hb1
    have hb3 : BusyB s3 := by
      show BusyB (phPutDone s2)
      unfold phPutDone
      exact fold_keeps BusyB (fun c => Act.putDoneA c) (fun t c ht => busyB_frame t _ rfl ht) _ _ hb2
    have hb4 : BusyB s4 := busyB_frame s3 _ rfl hb3
    have hb5 : PInv store s5 ∧ BusyB s5 := by
      show PInv store (phDeliverAB s4) ∧ BusyB (phDeliverAB s4)
      unfold phDeliverAB
      apply fold_keeps (fun t => PInv store t ∧ BusyB t) (fun _ => Act.deliverAB) _ _ _ ⟨p4, hb4⟩
      intro t _ ht
      obtain ⟨g, hg, hi, _, _⟩ := ht.1
      exact ⟨pinv_step store t _ ht.1, busyB_deliverAB t (hg ▸ hi.b) ht.2⟩
    obtain ⟨g5, hg5, hi5, hc5, _⟩ := p5
    have hlt : (meas (step s5 .drainB)).lt (meas s5) := by
      have := (meas_drainB g5.s hi5.b (hg5 ▸ hc5)).2 (hg5 ▸ hb5.2)
      rw [hg5] at this; exact this
    exact e6 (strict s5 q5 _ hlt)
  · -- a lookup of `b` is pending
    have hk : ∀ t act, act.touchesB = false → t.callsB ≠ [] → (step t act).callsB ≠ [] := by
      intro t act ha ht; rw [(step_b_frame t act ha).2.1]; exact ht
    have hn1 : s1.callsB ≠ [] := hk s _ rfl hA
    have hn2 : s2.callsB ≠ [] := by
      show (phLookupA s1).callsB ≠ []
      unfold phLookupA
      exact fold_keeps (fun t => t.callsB ≠ []) (fun (c : Nat × Nat) => Act.lookupA c.1)
        (fun t c ht => hk t _ rfl ht) _ _ hn1
    have hn3 : s3.callsB ≠ [] := by
      show (phPutDone s2).callsB ≠ []
      unfold phPutDone
      exact fold_keeps (fun t => t.callsB ≠ []) (fun c => Act.putDoneA c) (fun t c ht => hk t _ rfl ht) _ _ hn2
    have hn4 : s4.callsB ≠ [] := hk s3 _ rfl hn3
    have hn5 : s5.callsB ≠ [] := by
      show (phDeliverAB s4).callsB ≠ []
      unfold phDeliverAB
      apply fold_keeps (fun t => t.callsB ≠ []) (fun _ => Act.deliverAB) _ _ _ hn4
      intro t _ ht
      cases hw : t.wireAB with
      | nil => rw [deliverAB_nil t hw]; exact ht
      | cons m rest => rw [(deliverAB_frame t m rest hw).2.2.2.2.1]; exact ht
    obtain ⟨g5, hg5, hi5, _, _⟩ := p5
    have hn6 : s6.callsB ≠ [] := by
      show (step s5 .drainB).callsB ≠ []
      have := (drainB_fields s5 (hg5 ▸ hi5.b.cl)).2.2.2.1
      rw [this]; exact ne_nil_append hn5 _
    obtain ⟨g6, hg6, hi6, _, _⟩ := p6
    cases hl : s6.callsB with
    | nil => exact absurd hl hn6
    | cons c l =>
      have hlt : (meas (step s6 (.lookupB c.1))).lt (meas s6) := by
        have := (meas_lookupB g6.s hi6.b c.1).2 (by rw [hg6, hl]; simp)
        rw [hg6] at this; exact this
      apply e7
      show SBelow store (meas s) (phLookupB s6)
      unfold phLookupB
      rw [hl]
      exact strictFold (fun (c : Nat × Nat) => Act.lookupB c.1) (fun _ => rfl) s6 q6 c l hlt
  · -- blocks are in flight
    have hn1 : s1.wireBA ≠ [] := by show (step s .drainA).wireBA ≠ []; rw [hba1]; exact hA
    have hn2 : s2.wireBA ≠ [] := by
      show (phLookupA s1).wireBA ≠ []
      unfold phLookupA
      exact fold_keeps (fun t => t.wireBA ≠ []) (fun (c : Nat × Nat) => Act.lookupA c.1)
        (fun t c ht => by rw [(lookupA_fields t c.1).2.2.1]; exact ht) _ _ hn1
    have hn3 : s3.wireBA ≠ [] := by
      show (phPutDone s2).wireBA ≠ []
      unfold phPutDone
      exact fold_keeps (fun t => t.wireBA ≠ []) (fun c => Act.putDoneA c)
        (fun t c ht => by rw [(putDoneA_fields t c).2.1]; exact ht) _ _ hn2
    have hn4 : s4.wireBA ≠ [] := by show (step s3 .drainA).wireBA ≠ []; rw [hba4]; exact hn3
    have hn5 : s5.wireBA ≠ [] := by
      show (phDeliverAB s4).wireBA ≠ []
      unfold phDeliverAB
      apply fold_keeps (fun t => t.wireBA ≠ []) (fun _ => Act.deliverAB) _ _ _ hn4
      intro t _ ht
      cases hw : t.wireAB with
      | nil => rw [deliverAB_nil t hw]; exact ht
      | cons m rest => rw [(deliverAB_frame t m rest hw).2.1]; exact ht
    have hn6 : s6.wireBA ≠ [] := by
      show (step s5 .drainB).wireBA ≠ []
      obtain ⟨new, hnew⟩ := drainB_wire s5
      rw [hnew]; exact ne_nil_append hn5 _
    have hn7 : s7.wireBA ≠ [] := by
      show (phLookupB s6).wireBA ≠ []
      unfold phLookupB
      exact fold_keeps (fun t => t.wireBA ≠ []) (fun (c : Nat × Nat) => Act.lookupB c.1)
        (fun t c ht => by rw [(lookupB_frame t c.1).2.2.1]; exact ht) _ _ hn6
    have hn8 : s8.wireBA ≠ [] := by
      show (step s7 .drainB).wireBA ≠ []
      obtain ⟨new, hnew⟩ := drainB_wire s7
      rw [hnew]; exact ne_nil_append hn7 _
    obtain ⟨g8, hg8, hi8, _, _⟩ := p8
    cases hl : s8.wireBA with
    | nil => exact absurd hl hn8
    | cons c l =>
      have hlt : (meas (step s8 .deliverBA)).lt (meas s8) := by
        rw [← hg8]
        apply (meas_deliverBA g8 hi8.a).2
        rw [hg8, hl]; simp
      apply e9
      show SBelow store (meas s) (phDeliverBA s8)
      unfold phDeliverBA
      rw [hl]
      exact strictFold (fun _ => Act.deliverBA) (fun _ => rfl) s8 q8 c l hlt

/-- Progress: from every state satisfying the invariants the canonical schedule reaches
quiescence. -/
theorem settle_terminates (store : KMap Nat) (s : State) (h : PInv store s) :
    ∃ n, quiescent (settle n s) = true := by
  have key : ∀ m : Meas, ∀ s, PInv store s → meas s = m → ∃ n, quiescent (settle n s) = true := by
    intro m
    induction m using Meas.lt_wf.induction with
    | _ m ih =>
      intro s hs hm
      cases hq : quiescent s with
      | true => exact ⟨0, by simpa [settle] using hq⟩
      | false =>
        have hlt := round_lt store s hs hq
        have hr : PInv store (round s) :=
          round_closed _ (fun t act _ ht => pinv_step store t act ht) s hs
        obtain ⟨n, hn⟩ := ih (meas (round s)) (hm ▸ hlt) (round s) hr rfl
        refine ⟨n + 1, ?_⟩
        rw [settle, hq]
        simpa using hn
  exact key _ s h rfl

end Beetswap.Proofs.Net
