import Beetswap.Proofs.NetProgDefs
import Beetswap.Proofs.NetGhost
/-!
Progress, requesting side: basic facts (sums of weights, emptiness of the update that is due,
the event queue of `a` holds user events only).
-/
namespace Beetswap.Proofs.Net.PA
open Std Beetswap.Net Beetswap.Wl
open Beetswap.Client (PeerSt Sending StoreRes Out TaskSt TaskKind Sys sendFullInterval Task)

/-! ### Sums -/

theorem sum_map_le {α : Type} (f g : α → Nat) (l : List α) (h : ∀ x ∈ l, f x ≤ g x) :
    (l.map f).sum ≤ (l.map g).sum := by
  induction l with
  | nil => simp
  | cons a l ih =>
    simp only [List.map_cons, List.sum_cons]
    have h1 := h a (List.mem_cons_self ..)
    have h2 := ih (fun x hx => h x (List.mem_cons_of_mem _ hx))
    omega

theorem sum_map_upd_le {α : Type} (f : α → Nat) (u : α → α) (l : List α) (h : ∀ x ∈ l, f (u x) ≤ f x) :
    ((l.map u).map f).sum ≤ (l.map f).sum := by
  rw [List.map_map]
  exact sum_map_le _ _ l h

/-- a pointwise non-increasing rewrite that lowers one element by `d` lowers the sum by `d` -/
theorem sum_map_upd_drop {α : Type} (f : α → Nat) (u : α → α) (l : List α) (t : α) (d : Nat)
    (h : ∀ x ∈ l, f (u x) ≤ f x) (ht : t ∈ l) (hd : f (u t) + d ≤ f t) :
    ((l.map u).map f).sum + d ≤ (l.map f).sum := by
  induction l with
  | nil => cases ht
  | cons a l ih =>
    simp only [List.map_cons, List.sum_cons]
    rcases List.mem_cons.1 ht with e | ht'
    · subst e
      have := sum_map_upd_le f u l (fun x hx => h x (List.mem_cons_of_mem _ hx))
      omega
    · have h1 := h a (List.mem_cons_self ..)
      have h2 := ih (fun x hx => h x (List.mem_cons_of_mem _ hx)) ht'
      omega

theorem sum_filter_le {α : Type} (f : α → Nat) (p : α → Bool) (l : List α) :
    ((l.filter p).map f).sum ≤ (l.map f).sum := by
  induction l with
  | nil => simp
  | cons a l ih =>
    rw [List.filter_cons]
    split
    · simp only [List.map_cons, List.sum_cons]; omega
    · simp only [List.map_cons, List.sum_cons]; omega

theorem sum_filter_drop {α : Type} (f : α → Nat) (p : α → Bool) (l : List α) (t : α)
    (ht : t ∈ l) (hp : p t = false) :
    ((l.filter p).map f).sum + f t ≤ (l.map f).sum := by
  induction l with
  | nil => cases ht
  | cons a l ih =>
    rw [List.filter_cons]
    rcases List.mem_cons.1 ht with e | ht'
    · subst e
      have := sum_filter_le f p l
      simp only [hp, Bool.false_eq_true, if_false, List.map_cons, List.sum_cons]
      omega
    · have := ih ht'
      split
      · simp only [List.map_cons, List.sum_cons]; omega
      · simp only [List.map_cons, List.sum_cons]; omega

theorem filter_length_lt {α : Type} (p : α → Bool) (l : List α) (t : α) (ht : t ∈ l) (hp : p t = false) :
    (l.filter p).length < l.length := by
  induction l with
  | nil => cases ht
  | cons a l ih =>
    rw [List.filter_cons]
    rcases List.mem_cons.1 ht with e | ht'
    · subst e
      simp only [hp, Bool.false_eq_true, if_false, List.length_cons]
      have := List.length_filter_le p l
      omega
    · have := ih ht'
      split <;> simp only [List.length_cons] <;> omega

/-! ### Components of the measure -/

theorem c2_congr {s s' : State} (hp : s'.a.client.peers[1]? = s.a.client.peers[1]?)
    (hd : s'.a.client.deadline = s.a.client.deadline) (hn : s'.a.now = s.a.now) :
    (meas s').c2 = (meas s).c2 := by
  have e : apeer s' = apeer s := by simp only [apeer, hp]
  show (if ((apeer s').sendFull || decide (s'.a.client.deadline ≤ s'.a.now)) = true then 1 else 0) =
    (if ((apeer s).sendFull || decide (s.a.client.deadline ≤ s.a.now)) = true then 1 else 0)
  rw [e, hd, hn]

theorem c2_congr' {s s' : State} (hf : (apeer s').sendFull = (apeer s).sendFull)
    (hd : s'.a.client.deadline = s.a.client.deadline) (hn : s'.a.now = s.a.now) :
    (meas s').c2 = (meas s).c2 := by
  show (if ((apeer s').sendFull || decide (s'.a.client.deadline ≤ s'.a.now)) = true then 1 else 0) =
    (if ((apeer s).sendFull || decide (s.a.client.deadline ≤ s.a.now)) = true then 1 else 0)
  rw [hf, hd, hn]

theorem c3_congr {s s' : State} (hp : s'.a.client.peers[1]? = s.a.client.peers[1]?)
    (hw : s'.a.client.wantlist = s.a.client.wantlist) : (meas s').c3 = (meas s).c3 := by
  have e : apeer s' = apeer s := by simp only [apeer, hp]
  show (if ((apeer s').wl.genUpdate s'.a.client.wantlist).2.isEmpty = true then 0 else 1) =
    (if ((apeer s).wl.genUpdate s.a.client.wantlist).2.isEmpty = true then 0 else 1)
  rw [e, hw]

theorem c5_congr {s s' : State} (hb : s'.b = s.b) (hc : s'.callsB = s.callsB) :
    (meas s').c5 = (meas s).c5 := by
  simp only [meas, hb, hc]

theorem bReady_congr {s s' : State} (hb : s'.b = s.b) : bReady s' = bReady s := by
  simp only [bReady, hb]

theorem c1_eq (s : State) : (meas s).c1 = (s.a.client.tasks.map wtGet).sum + s.callsA.length := rfl
theorem c4_eq (s : State) : (meas s).c4 = s.wireAB.length := rfl
theorem c6_eq (s : State) : (meas s).c6 = s.wireBA.length := rfl
theorem c7_eq (s : State) : (meas s).c7 = (s.a.client.tasks.map wtPut).sum + s.putsA.length := rfl
theorem c8_eq (s : State) : (meas s).c8 =
    s.a.client.runq.length + s.b.server.runq.length + s.a.client.queue.length + bReady s := rfl

/-! ### Weights -/

theorem stWt_done_le (r : StoreRes) (st : TaskSt) : stWt (.done r) ≤ stWt st := by
  cases st <;> simp [stWt]

theorem wtGet_done_le (t : Task) (r : StoreRes) : wtGet { t with st := .done r } ≤ wtGet t := by
  unfold wtGet
  cases t.kind with
  | get q k => exact stWt_done_le r t.st
  | put bs => exact Nat.le_refl _

theorem wtPut_done_le (t : Task) (r : StoreRes) : wtPut { t with st := .done r } ≤ wtPut t := by
  unfold wtPut
  cases t.kind with
  | get q k => exact Nat.le_refl _
  | put bs => exact stWt_done_le r t.st

theorem wtGet_setDone (tasks : List Task) (id : Nat) (r : StoreRes) :
    ((A.setDone tasks id r).map wtGet).sum ≤ (tasks.map wtGet).sum := by
  unfold A.setDone
  apply sum_map_upd_le
  intro x _
  split
  · exact wtGet_done_le x r
  · exact Nat.le_refl _

theorem wtPut_setDone (tasks : List Task) (id : Nat) (r : StoreRes) :
    ((A.setDone tasks id r).map wtPut).sum ≤ (tasks.map wtPut).sum := by
  unfold A.setDone
  apply sum_map_upd_le
  intro x _
  split
  · exact wtPut_done_le x r
  · exact Nat.le_refl _

/-- `complete` does not increase the weights -/
theorem complete_wt (c : Client.State) (n : Nat) (r : StoreRes) :
    (((Client.complete c n r).getD c).tasks.map wtGet).sum ≤ (c.tasks.map wtGet).sum ∧
    (((Client.complete c n r).getD c).tasks.map wtPut).sum ≤ (c.tasks.map wtPut).sum := by
  rw [A.complete_eq]
  split
  · exact ⟨Nat.le_refl _, Nat.le_refl _⟩
  · exact ⟨wtGet_setDone _ _ _, wtPut_setDone _ _ _⟩

/-! ### The update that is due -/

/-- after an update was generated the next one is empty -/
theorem genUpdate_idem (wl : WState) (w : Wantlist) :
    ((wl.genUpdate w).1.genUpdate w).2.isEmpty = true := by
  by_cases hu : wl.isUpdated w = true
  · rw [ClientView.genUpdate_of_updated _ _ hu]
    simp only
    rw [ClientView.genUpdate_of_updated _ _ hu]
    rfl
  · have hu : wl.isUpdated w = false := by simpa using hu
    have h2 : (wl.genUpdate w).1.isUpdated w = true := by
      simp [WState.isUpdated, ClientView.genUpdate_force _ _ hu, ClientView.genUpdate_synced _ _ hu]
    rw [ClientView.genUpdate_of_updated _ _ h2]
    rfl

/-- sufficient for an empty update -/
theorem genUpdate_isEmpty_of (wl : WState) (w : Wantlist)
    (h1 : ∀ k, k ∈ w.cids → ∃ r, wl.req[k]? = some r ∧ r ≠ Req.gotHave)
    (h2 : ∀ k r, wl.req[k]? = some r → k ∉ w.cids → r = Req.gotBlock) :
    (wl.genUpdate w).2.isEmpty = true := by
  by_cases hu : wl.isUpdated w = true
  · rw [ClientView.genUpdate_of_updated _ _ hu]; rfl
  · have hu : wl.isUpdated w = false := by simpa using hu
    simp only [WlMsg.isEmpty, Bool.and_eq_true, List.isEmpty_iff]
    refine ⟨⟨?_, ?_⟩, ?_⟩
    · apply List.eq_nil_iff_forall_not_mem.2
      intro k hk
      obtain ⟨hkw, hn⟩ := (ClientView.genUpdate_wantHave wl w hu k).1 hk
      obtain ⟨r, hr, _⟩ := h1 k hkw
      rw [hn] at hr; cases hr
    · apply List.eq_nil_iff_forall_not_mem.2
      intro k hk
      obtain ⟨hkw, hn⟩ := (ClientView.genUpdate_wantBlock wl w hu k).1 hk
      obtain ⟨r, hr, hne⟩ := h1 k hkw
      rw [hn] at hr; cases hr; exact hne rfl
    · apply List.eq_nil_iff_forall_not_mem.2
      intro k hk
      obtain ⟨hkw, r, hr, hne⟩ := (ClientView.genUpdate_cancel wl w hu k).1 hk
      exact hne (h2 k r hr hkw)

/-- necessary for an empty update, for the exchange states `b` can produce -/
theorem genUpdate_empty_vals (c : Client.State) (ps : PeerSt) (gh : Beetswap.Spec.ClientSpec.Ghost)
    (hpi : Spec.ClientSpec.PeerInv c ps gh) (hv : ReqVals ps.wl)
    (he : (ps.wl.genUpdate c.wantlist).2.isEmpty = true) :
    (∀ k, k ∈ c.wantlist.cids → ∃ r, ps.wl.req[k]? = some r ∧ r ≠ Req.gotHave) ∧
    (∀ k r, ps.wl.req[k]? = some r → k ∉ c.wantlist.cids → r = Req.gotBlock) := by
  obtain ⟨h1, h2⟩ := genUpdate_empty c ps gh hpi he
  refine ⟨?_, h2⟩
  intro k hk
  cases hr : ps.wl.req[k]? with
  | none => exact absurd hr (h1 k hk)
  | some r =>
    refine ⟨r, rfl, ?_⟩
    rcases hv k r hr with e | e <;> subst e <;> simp

/-! ### The event queue of `a` -/

/-- events for the user -/
def isEv : Out → Bool
  | .resp .. => true
  | .err .. => true
  | _ => false

/-- The event queue of `a`'s client half holds only events for the user (`GetQueryResponse`,
`GetQueryError`): blockstore calls and wantlists are never queued. -/
def QEv (s : State) : Prop := ∀ o ∈ s.a.client.queue, isEv o = true

theorem callGets_nil_of_ev (l : List Out) (h : ∀ o ∈ l, isEv o = true) : callGets l = [] := by
  unfold callGets
  rw [List.filterMap_eq_nil_iff]
  intro o ho
  have := h o ho
  cases o <;> simp [isEv] at this ⊢

theorem callPuts_nil_of_ev (l : List Out) (h : ∀ o ∈ l, isEv o = true) : callPuts l = [] := by
  unfold callPuts
  rw [List.filterMap_eq_nil_iff]
  intro o ho
  have := h o ho
  cases o <;> simp [isEv] at this ⊢

theorem applyBlock_queue (s : Client.State) (p k d : Nat) (acc : List (Nat × Nat))
    (h : ∀ o ∈ s.queue, isEv o = true) : ∀ o ∈ (Client.applyBlock s p k d acc).1.queue, isEv o = true := by
  by_cases hk : k ∈ s.wantlist.cids
  · rw [ClientView.applyBlock_wanted s p k d acc hk]
    intro o ho
    simp only [List.mem_append, List.mem_map] at ho
    rcases ho with ho | ⟨q, _, e⟩
    · exact h o ho
    · subst e; rfl
  · rw [ClientView.applyBlock_unwanted s p k d acc hk]; exact h

theorem applyBlocks_queue (p : Nat) (bs : List (Nat × Nat)) : ∀ (s : Client.State) (acc : List (Nat × Nat)),
    (∀ o ∈ s.queue, isEv o = true) →
    ∀ o ∈ (bs.foldl (fun (acc : Client.State × List (Nat × Nat)) kd =>
      Client.applyBlock acc.1 p kd.1 kd.2 acc.2) (s, acc)).1.queue, isEv o = true := by
  induction bs with
  | nil => intro s acc h; exact h
  | cons b bs ih =>
    intro s acc h
    simp only [List.foldl_cons]
    exact ih _ _ (applyBlock_queue s p b.1 b.2 acc h)

theorem incoming_queue (s : Client.State) (p : Nat) (bs : List (Nat × Nat))
    (h : ∀ o ∈ s.queue, isEv o = true) : ∀ o ∈ (Client.incoming s p [] [] bs).queue, isEv o = true := by
  unfold Client.incoming
  cases hp : s.peers[p]? with
  | none => exact h
  | some ps =>
    simp only [List.foldl_nil]
    have := applyBlocks_queue p bs { s with peers := s.peers.insert p { ps with wl := ps.wl } } [] h
    have key : ∀ (c : Bool) (x y : Client.State), (∀ o ∈ x.queue, isEv o = true) →
        (∀ o ∈ y.queue, isEv o = true) → ∀ o ∈ (if c = true then x else y).queue, isEv o = true := by
      intro c x y hx hy
      cases c
      · simpa using hy
      · simpa using hx
    exact key _ _ _ this this

theorem get_queue (c : Client.State) (k : Nat) : (Client.get c k true).1.queue = c.queue := rfl

theorem qev_init (store : KMap Nat) : QEv (init store) := by
  intro o ho
  have : (init store).a.client.queue = [] := rfl
  rw [this] at ho; cases ho

theorem drain_queue (c : Client.State) (now seq : Nat) (pref : Nat → Option Nat) :
    (Client.drain c now seq pref).1.queue = [] := by
  rw [ClientView.drain_eq]
  exact (ClientView.updateHandlers_spec _ now pref).2.1.trans (ClientView.afterTasks_spec c now seq).2.2.1

theorem sendingChanged_queue (c : Client.State) (p src : Nat) (st : Sending) :
    (Client.sendingChanged c p src st).queue = c.queue := by
  obtain ⟨P, h⟩ := A.sendingChanged_frame c p src st
  rw [h]

theorem nodeDrain_queue (a : Node.State) : (Node.step a (.drain [] [])).1.client.queue = [] := by
  show (Client.takeNewBlocks (Client.drain a.client a.now a.seq (Node.prefOf [])).1).1.queue = []
  exact drain_queue _ _ _ _

theorem nodeComplete_queue (a : Node.State) (n : Nat) (r : StoreRes) :
    (Node.step a (.complete n r)).1.client.queue = a.client.queue := by
  simp only [Node.step]
  cases hc : Client.complete a.client n r with
  | some c =>
    have := (ClientView.complete_fields a.client n r).2.2
    rw [hc] at this
    exact this
  | none =>
    simp only
    split <;> rfl

/-- `QEv` is inductive -/
theorem qev_step (s : State) (act : Act) (h : QEv s) : QEv (step s act) := by
  cases act with
  | get k => exact h
  | cancel q =>
    intro o ho
    have e : (step s (.cancel q)).a.client.queue = s.a.client.queue :=
      (ClientView.cancel_fields s.a.client q).2.1
    rw [e] at ho; exact h o ho
  | refresh => exact h
  | drainA =>
    intro o ho
    rw [step_drainA_def, absorbA_a] at ho
    dsimp only at ho
    split at ho
    · have e : (Node.step (Node.step s.a (.drain [] [])).1 (.sending 1 1 (.sending 1))).1.client.queue = [] :=
        (sendingChanged_queue _ _ _ _).trans (nodeDrain_queue s.a)
      rw [e] at ho; cases ho
    · rw [nodeDrain_queue] at ho; cases ho
  | drainB =>
    have e : (step s .drainB).a = s.a := by
      simp only [step]; rw [absorbB_a]
    unfold QEv; rw [e]; exact h
  | lookupA n =>
    simp only [step]
    split
    · intro o ho
      have e := nodeComplete_queue s.a n .miss
      exact h o (e ▸ ho)
    · exact h
  | putDoneA n =>
    simp only [step]
    split
    · intro o ho
      have e := nodeComplete_queue s.a n .putOk
      exact h o (e ▸ ho)
    · exact h
  | lookupB n =>
    simp only [step]
    split <;> exact h
  | deliverAB =>
    simp only [step]
    split
    · exact h
    · intro o ho
      have e : (Node.step s.a (.sending 1 1 .ready)).1.client.queue = s.a.client.queue :=
        sendingChanged_queue _ _ _ _
      exact h o (e ▸ ho)
  | deliverBA =>
    simp only [step]
    split
    · exact h
    · next bs rest _ =>
      intro o ho
      by_cases hb : bs.isEmpty = true
      · have e : (Node.step s.a (.msg 1 [] [] bs none)).1 = s.a := by
          simp [Node.step, hb]
        exact h o (e ▸ ho)
      · have e : (Node.step s.a (.msg 1 [] [] bs none)).1.client = Client.incoming s.a.client 1 [] [] bs := by
          simp [Node.step, hb]
        have ho' : o ∈ (Client.incoming s.a.client 1 [] [] bs).queue := e ▸ ho
        exact incoming_queue s.a.client 1 bs h o ho'

theorem qev_reach (store : KMap Nat) (s : State) (h : Reachable store s) : QEv s := by
  induction h with
  | init => exact qev_init store
  | step act _ ih => exact qev_step _ act ih

theorem qev_greach (store : KMap Nat) (g : GS) (h : GReach store g) : QEv g.s := by
  induction h with
  | init => exact qev_init store
  | step act _ ih => exact qev_step _ act ih

end Beetswap.Proofs.Net.PA
