import Beetswap.Proofs.Server
/-!
Finding F15 (known, not repaired) as a statement about the model: the per-peer cap that C13
requires drops the tail of a wantlist that is longer than the cap, and a full wantlist in the same
order drops the same tail again.
-/
namespace Beetswap.Proofs.Server
open Std Beetswap.Server Beetswap.Spec.ServerSpec

/-- a full wantlist wanting the CIDs `0 … n-1`, in that order -/
def wantsUpTo (n : Nat) : List Entry := (List.range n).map fun k => { cid := some k, cancel := false }

theorem fullWanted_wantsUpTo (n : Nat) : fullWanted (wantsUpTo n) = List.range (min maxWantlistEntries n) := by
  unfold fullWanted wantsUpTo
  rw [List.filterMap_map]
  have : (List.filterMap ((fun e : Entry => if e.cancel = true then none else e.cid) ∘ fun k => ({ cid := some k, cancel := false } : Entry)) (List.range n)) = List.range n := by
    induction List.range n with
    | nil => rfl
    | cons a as ih => simp [List.filterMap_cons, ih]
  rw [this, List.take_range]

/-- Finding F15: whatever the peer's record was, after a full wantlist for `n > 1024` CIDs the record
holds exactly the first 1024 of them: every later one is dropped without a trace — and the same
wantlist sent again (the requester re-sends it in the same order at every refresh) drops the same
ones. A requester with more than 1024 wants outstanding towards one peer is never served the tail
by that peer until wants of the head are resolved. -/
theorem full_beyond_cap_dropped (cur : KSet) (n k : Nat) :
    k ∈ (processWantlist cur true (wantsUpTo n)).1 ↔ k < maxWantlistEntries ∧ k < n := by
  rw [mem_full_new, fullWanted_wantsUpTo, List.mem_range]
  omega

theorem full_again_drops_same (cur : KSet) (n : Nat) :
    ∀ k, k ∈ (processWantlist (processWantlist cur true (wantsUpTo n)).1 true (wantsUpTo n)).1 ↔
         k ∈ (processWantlist cur true (wantsUpTo n)).1 := by
  intro k
  rw [full_beyond_cap_dropped, full_beyond_cap_dropped]

end Beetswap.Proofs.Server
