import Beetswap.Proofs.NetBBase
/-!
Helpers for `Proofs/NetB.lean`, part 2: the task part of `BInv` as an invariant `MInv` of the server
half, the list of calls and the ids still to poll; preserved by `Server.pollTask` (with no observed
lookup order), `Server.complete`, `Server.incoming`.
-/
namespace Beetswap.Proofs.Net
open Std Beetswap.Net Beetswap.Wl
open Beetswap.Client (PeerSt Sending StoreRes Out TaskSt TaskKind Sys sendFullInterval)
open Beetswap.Server (Task LookupSt)

/-- The lookup-task part of `BInv`: `store` the blockstore content, `W` the wants that have to be
worked on, `calls` the pending blockstore calls, `ids` the tasks still to be polled. -/
structure MInv (store : KMap Nat) (W : KSet) (sv : Server.State) (seq : Nat)
    (calls : List (Nat × Nat)) (ids : List Nat) : Prop where
  ids_nodup : (sv.tasks.map (·.id)).Nodup
  ids_lt : ∀ t ∈ sv.tasks, t.id < sv.nextTask
  sched : ∀ t ∈ sv.tasks, (t.id ∈ ids ∧ ∀ n, t.st ≠ .waiting n) ∨
    ∃ n k rest, t.st = .waiting n ∧ t.todo = k :: rest ∧ (n, k) ∈ calls
  ready_ok : ∀ t ∈ sv.tasks, ∀ r, t.st = .ready r →
    ∃ k rest, t.todo = k :: rest ∧ r = lookupRes store k
  results_ok : ∀ t ∈ sv.tasks, ∀ kr ∈ t.results, kr.2 = lookupRes store kr.1
  calls_task : ∀ c ∈ calls, ∃ t ∈ sv.tasks, t.st = .waiting c.1 ∧ t.todo.head? = some c.2
  calls_lt : ∀ c ∈ calls, c.1 < seq
  calls_nodup : (calls.map (·.1)).Nodup
  wait_lt : ∀ t ∈ sv.tasks, ∀ n, t.st = .waiting n → n < seq
  wait_inj : ∀ t ∈ sv.tasks, ∀ t' ∈ sv.tasks, ∀ n,
    t.st = .waiting n → t'.st = .waiting n → t.id = t'.id
  outq_ok : ∀ kd ∈ sv.outq, store[kd.1]? = some kd.2
  pend : ∀ k, k ∈ W → ∀ d, store[k]? = some d →
    (k, d) ∈ sv.outq ∨ ∃ t ∈ sv.tasks, k ∈ t.todo ∨ (k, StoreRes.hit d) ∈ t.results

/-- same tasks, other queue of blocks / other wants -/
theorem MInv.change {store : KMap Nat} {W W' : KSet} {sv sv' : Server.State} {seq : Nat}
    {calls : List (Nat × Nat)} {ids : List Nat} (h : MInv store W sv seq calls ids)
    (ht : sv'.tasks = sv.tasks) (hn : sv'.nextTask = sv.nextTask)
    (ho : ∀ kd ∈ sv'.outq, store[kd.1]? = some kd.2)
    (hp : ∀ k, k ∈ W' → ∀ d, store[k]? = some d →
      k ∈ W ∧ ((k, d) ∈ sv.outq → (k, d) ∈ sv'.outq)) :
    MInv store W' sv' seq calls ids := by
  refine ⟨ht ▸ h.ids_nodup, ?_, ht ▸ h.sched, ht ▸ h.ready_ok, ht ▸ h.results_ok,
    ht ▸ h.calls_task, h.calls_lt, h.calls_nodup, ht ▸ h.wait_lt, ht ▸ h.wait_inj, ho, ?_⟩
  · rw [ht, hn]; exact h.ids_lt
  · intro k hk d hd
    obtain ⟨hw, hq⟩ := hp k hk d hd
    rcases h.pend k hw d hd with h1 | h1
    · exact Or.inl (hq h1)
    · rw [ht]; exact Or.inr h1

theorem MInv.uniq {store : KMap Nat} {W : KSet} {sv : Server.State} {seq : Nat}
    {calls : List (Nat × Nat)} {ids : List Nat} (h : MInv store W sv seq calls ids)
    {a b : Task} (ha : a ∈ sv.tasks) (hb : b ∈ sv.tasks) (e : a.id = b.id) : a = b :=
  uniq_of_nodup_map (·.id) h.ids_nodup ha hb e

/-! ### replacing / dropping the task with a given id -/

def replaceTask (l : List Task) (id : Nat) (t' : Task) : List Task :=
  l.map (fun u => if u.id == id then t' else u)

theorem replaceTask_ids (l : List Task) (id : Nat) (t' : Task) (h : t'.id = id) :
    (replaceTask l id t').map (·.id) = l.map (·.id) := by
  unfold replaceTask
  rw [List.map_map]
  apply List.map_congr_left
  intro u _
  simp only [Function.comp]
  split
  · rename_i hu; simp at hu; rw [h, hu]
  · rfl

theorem mem_replaceTask {l : List Task} {id : Nat} {t' u : Task} (h : u ∈ replaceTask l id t') :
    u = t' ∨ (u ∈ l ∧ u.id ≠ id) := by
  unfold replaceTask at h
  rw [List.mem_map] at h
  obtain ⟨v, hv, rfl⟩ := h
  split
  · exact Or.inl rfl
  · rename_i hu; simp at hu; exact Or.inr ⟨hv, hu⟩

theorem replaceTask_mem_new {l : List Task} {id : Nat} {t' t : Task} (ht : t ∈ l) (hid : t.id = id) :
    t' ∈ replaceTask l id t' := by
  unfold replaceTask
  rw [List.mem_map]
  exact ⟨t, ht, by simp [hid]⟩

theorem replaceTask_mem_old {l : List Task} {id : Nat} {t' u : Task} (hu : u ∈ l) (hid : u.id ≠ id) :
    u ∈ replaceTask l id t' := by
  unfold replaceTask
  rw [List.mem_map]
  exact ⟨u, hu, by simp [hid]⟩

theorem mem_dropTask {l : List Task} {id : Nat} {u : Task} :
    u ∈ l.filter (·.id != id) ↔ u ∈ l ∧ u.id ≠ id := by
  simp [List.mem_filter]

/-! ### the outcomes of polling one task -/

/-- the task is finished: `rs` are its results -/
def DropShape (t : Task) (rs : List (Nat × StoreRes)) : Prop :=
  (t.todo = [] ∧ rs = t.results ∧ ∀ n, t.st ≠ .waiting n) ∨
  (∃ k r, t.st = .ready r ∧ t.todo = [k] ∧ rs = t.results ++ [(k, r)])

/-- the task starts the lookup of `k0` as call `seq` -/
def StartShape (t t' : Task) (seq k0 : Nat) (rest : List Nat) : Prop :=
  t'.id = t.id ∧ t'.st = .waiting seq ∧ t'.todo = k0 :: rest ∧
  ((t.st = .fresh ∧ t'.todo = t.todo ∧ t'.results = t.results) ∨
   (∃ r k, t.st = .ready r ∧ t.todo = k :: t'.todo ∧ t'.results = t.results ++ [(k, r)]))

theorem pollTask_cases (sv : Server.State) (seq id : Nat) :
    (Server.pollTask sv seq (fun _ => none) id = (sv, seq, []) ∧
      ((∀ t ∈ sv.tasks, t.id ≠ id) ∨ ∃ t ∈ sv.tasks, t.id = id ∧ ∃ n, t.st = .waiting n)) ∨
    (∃ t ∈ sv.tasks, t.id = id ∧ ∃ rs, DropShape t rs ∧
      Server.pollTask sv seq (fun _ => none) id =
        (Server.finish { sv with tasks := sv.tasks.filter (·.id != id) } rs, seq, [])) ∨
    (∃ t ∈ sv.tasks, t.id = id ∧ ∃ t' k0 rest, StartShape t t' seq k0 rest ∧
      Server.pollTask sv seq (fun _ => none) id =
        ({ sv with tasks := replaceTask sv.tasks id t' }, seq + 1, [Out.callGet seq k0])) := by
  unfold Server.pollTask
  cases hf : sv.tasks.find? (·.id == id) with
  | none =>
    left
    refine ⟨rfl, Or.inl ?_⟩
    intro t ht
    have := List.find?_eq_none.1 hf t ht
    simpa using this
  | some t =>
    have ht : t ∈ sv.tasks := List.mem_of_find?_eq_some hf
    have hid : t.id = id := by simpa using List.find?_some hf
    dsimp only
    cases hst : t.st with
    | fresh =>
      dsimp only
      cases htd : t.todo with
      | nil =>
        right; left
        exact ⟨t, ht, hid, t.results, Or.inl ⟨htd, rfl, by simp [hst]⟩, rfl⟩
      | cons k0 rest =>
        right; right
        refine ⟨t, ht, hid, { t with todo := k0 :: (k0 :: rest).erase k0, st := .waiting seq },
          k0, rest, ⟨rfl, rfl, ?_, Or.inl ⟨hst, ?_, rfl⟩⟩, rfl⟩
        · simp
        · simp [htd]
    | waiting n =>
      left
      exact ⟨rfl, Or.inr ⟨t, ht, hid, n, hst⟩⟩
    | ready r =>
      dsimp only
      cases htd : t.todo with
      | nil =>
        right; left
        exact ⟨t, ht, hid, t.results, Or.inl ⟨htd, rfl, by simp [hst]⟩, rfl⟩
      | cons k rest =>
        dsimp only
        cases hr : rest with
        | nil =>
          right; left
          exact ⟨t, ht, hid, _, Or.inr ⟨k, r, hst, by rw [htd, hr], rfl⟩, rfl⟩
        | cons k0 rest' =>
          right; right
          let t1 : Task := { id := t.id, peer := t.peer, todo := k0 :: (k0 :: rest').erase k0, results := t.results ++ [(k, r)], st := .waiting seq }
          refine ⟨t, ht, hid, t1, k0, rest', ⟨rfl, rfl, ?_, Or.inr ⟨r, k, hst, ?_, rfl⟩⟩, rfl⟩
          · simp [t1]
          · simp [t1, htd, hr]

/-! ### `MInv` along `pollTask` -/

section
variable {store : KMap Nat} {W : KSet} {sv : Server.State} {seq : Nat}
  {calls : List (Nat × Nat)} {ids : List Nat} {id : Nat}

theorem minv_skip (h : MInv store W sv seq calls (id :: ids))
    (hs : (∀ t ∈ sv.tasks, t.id ≠ id) ∨ ∃ t ∈ sv.tasks, t.id = id ∧ ∃ n, t.st = .waiting n) :
    MInv store W sv seq calls ids := by
  refine ⟨h.ids_nodup, h.ids_lt, ?_, h.ready_ok, h.results_ok, h.calls_task, h.calls_lt,
    h.calls_nodup, h.wait_lt, h.wait_inj, h.outq_ok, h.pend⟩
  intro u hu
  rcases h.sched u hu with ⟨hm, hw⟩ | hr
  · left
    refine ⟨?_, hw⟩
    rcases List.mem_cons.1 hm with e | hm
    · exfalso
      rcases hs with hs | ⟨t, ht, hid, n, hn⟩
      · exact hs u hu e
      · have : u = t := h.uniq hu ht (e.trans hid.symm)
        subst this
        exact hw n hn
    · exact hm
  · exact Or.inr hr

theorem minv_start (h : MInv store W sv seq calls (id :: ids)) {t t' : Task} {k0 : Nat}
    {rest : List Nat} (ht : t ∈ sv.tasks) (hid : t.id = id) (hs : StartShape t t' seq k0 rest) :
    MInv store W { sv with tasks := replaceTask sv.tasks id t' } (seq + 1)
      (calls ++ [(seq, k0)]) ids := by
  obtain ⟨s1, s2, s3, s4⟩ := hs
  have hid' : t'.id = id := s1.trans hid
  have hnw : ∀ n, t.st ≠ .waiting n := by
    intro n hn
    rcases s4 with ⟨hf, _⟩ | ⟨r, k, hr, _⟩
    · rw [hf] at hn; cases hn
    · rw [hr] at hn; cases hn
  -- a task of the old list with the polled id is the polled task
  have hold : ∀ u ∈ sv.tasks, u.id = id → u = t := fun u hu e => h.uniq hu ht (e.trans hid.symm)
  refine ⟨?_, ?_, ?_, ?_, ?_, ?_, ?_, ?_, ?_, ?_, h.outq_ok, ?_⟩
  · show ((replaceTask sv.tasks id t').map (·.id)).Nodup
    rw [replaceTask_ids _ _ _ hid']; exact h.ids_nodup
  · intro u hu
    rcases mem_replaceTask hu with rfl | ⟨hu, _⟩
    · show u.id < sv.nextTask
      rw [s1]; exact h.ids_lt t ht
    · exact h.ids_lt u hu
  · intro u hu
    rcases mem_replaceTask hu with rfl | ⟨hu, hne⟩
    · exact Or.inr ⟨seq, k0, rest, s2, s3, List.mem_append_right _ (List.mem_singleton_self _)⟩
    · rcases h.sched u hu with ⟨hm, hw⟩ | ⟨n, k, r, h1, h2, h3⟩
      · left
        refine ⟨?_, hw⟩
        rcases List.mem_cons.1 hm with e | hm
        · exact absurd e hne
        · exact hm
      · exact Or.inr ⟨n, k, r, h1, h2, List.mem_append_left _ h3⟩
  · intro u hu r hr
    rcases mem_replaceTask hu with rfl | ⟨hu, _⟩
    · rw [s2] at hr; cases hr
    · exact h.ready_ok u hu r hr
  · intro u hu kr hkr
    rcases mem_replaceTask hu with rfl | ⟨hu, _⟩
    · rcases s4 with ⟨_, _, hres⟩ | ⟨r, k, hr, htd, hres⟩
      · rw [hres] at hkr; exact h.results_ok t ht kr hkr
      · rw [hres, List.mem_append] at hkr
        rcases hkr with hkr | hkr
        · exact h.results_ok t ht kr hkr
        · simp at hkr; subst hkr
          obtain ⟨k', rest', e1, e2⟩ := h.ready_ok t ht r hr
          rw [htd] at e1
          cases e1
          exact e2
    · exact h.results_ok u hu kr hkr
  · intro c hc
    rcases List.mem_append.1 hc with hc | hc
    · obtain ⟨u, hu, h1, h2⟩ := h.calls_task c hc
      refine ⟨u, replaceTask_mem_old hu ?_, h1, h2⟩
      intro e
      have := hold u hu e
      subst this
      exact hnw _ h1
    · simp at hc; subst hc
      exact ⟨t', replaceTask_mem_new ht hid, s2, by rw [s3]; rfl⟩
  · intro c hc
    rcases List.mem_append.1 hc with hc | hc
    · have := h.calls_lt c hc; omega
    · simp at hc; subst hc; show seq < seq + 1; omega
  · rw [List.map_append, List.nodup_append]
    refine ⟨h.calls_nodup, by simp, ?_⟩
    intro a ha b hb
    simp at hb; subst hb
    rw [List.mem_map] at ha
    obtain ⟨c, hc, rfl⟩ := ha
    have := h.calls_lt c hc
    omega
  · intro u hu n hn
    rcases mem_replaceTask hu with rfl | ⟨hu, _⟩
    · rw [s2] at hn; cases hn; omega
    · have := h.wait_lt u hu n hn; omega
  · intro u hu u' hu' n hn hn'
    rcases mem_replaceTask hu with e1 | ⟨g1, _⟩ <;> rcases mem_replaceTask hu' with e2 | ⟨g2, _⟩
    · rw [e1, e2]
    · rw [e1, s2] at hn; cases hn
      have := h.wait_lt u' g2 _ hn'; omega
    · rw [e2, s2] at hn'; cases hn'
      have := h.wait_lt u g1 _ hn; omega
    · exact h.wait_inj u g1 u' g2 n hn hn'
  · intro k hk d hd
    rcases h.pend k hk d hd with h1 | ⟨u, hu, h1⟩
    · exact Or.inl h1
    · right
      by_cases e : u.id = id
      · have := hold u hu e
        subst this
        refine ⟨t', replaceTask_mem_new ht hid, ?_⟩
        rcases s4 with ⟨_, htd, hres⟩ | ⟨r, k1, hr, htd, hres⟩
        · rw [htd, hres]; exact h1
        · rcases h1 with h1 | h1
          · rw [htd, List.mem_cons] at h1
            rcases h1 with rfl | h1
            · right
              obtain ⟨k', rest', e1, e2⟩ := h.ready_ok u ht r hr
              rw [htd] at e1
              cases e1
              rw [hres, e2, lookupRes_of_get hd]
              simp
            · exact Or.inl h1
          · right; rw [hres]; exact List.mem_append_left _ h1
      · exact ⟨u, replaceTask_mem_old hu e, h1⟩

theorem minv_drop (h : MInv store W sv seq calls (id :: ids)) {t : Task}
    {rs : List (Nat × StoreRes)} (ht : t ∈ sv.tasks) (hid : t.id = id) (hs : DropShape t rs) :
    MInv store W (Server.finish { sv with tasks := sv.tasks.filter (·.id != id) } rs) seq calls
      ids := by
  have hnw : ∀ n, t.st ≠ .waiting n := by
    intro n hn
    rcases hs with ⟨_, _, hw⟩ | ⟨k, r, hr, _⟩
    · exact hw n hn
    · rw [hr] at hn; cases hn
  have hold : ∀ u ∈ sv.tasks, u.id = id → u = t := fun u hu e => h.uniq hu ht (e.trans hid.symm)
  -- the results of the finished task
  have hrs : ∀ k r, (k, r) ∈ rs → r = lookupRes store k := by
    intro k r hkr
    rcases hs with ⟨_, e, _⟩ | ⟨k1, r1, hr, htd, e⟩
    · rw [e] at hkr; exact h.results_ok t ht _ hkr
    · rw [e, List.mem_append] at hkr
      rcases hkr with hkr | hkr
      · exact h.results_ok t ht _ hkr
      · simp at hkr
        obtain ⟨rfl, rfl⟩ := hkr
        obtain ⟨k', rest', e1, e2⟩ := h.ready_ok t ht r hr
        rw [htd] at e1
        cases e1
        exact e2
  have htasks : (Server.finish { sv with tasks := sv.tasks.filter (·.id != id) } rs).tasks =
      sv.tasks.filter (·.id != id) := rfl
  have hmem : ∀ u, u ∈ (Server.finish { sv with tasks := sv.tasks.filter (·.id != id) } rs).tasks ↔
      u ∈ sv.tasks ∧ u.id ≠ id := by
    intro u; rw [htasks]; exact mem_dropTask
  refine ⟨?_, ?_, ?_, ?_, ?_, ?_, h.calls_lt, h.calls_nodup, ?_, ?_, ?_, ?_⟩
  · rw [htasks]
    exact h.ids_nodup.sublist (List.filter_sublist.map _)
  · intro u hu; exact h.ids_lt u ((hmem u).1 hu).1
  · intro u hu
    obtain ⟨hu, hne⟩ := (hmem u).1 hu
    rcases h.sched u hu with ⟨hm, hw⟩ | hr
    · left
      refine ⟨?_, hw⟩
      rcases List.mem_cons.1 hm with e | hm
      · exact absurd e hne
      · exact hm
    · exact Or.inr hr
  · intro u hu; exact h.ready_ok u ((hmem u).1 hu).1
  · intro u hu; exact h.results_ok u ((hmem u).1 hu).1
  · intro c hc
    obtain ⟨u, hu, h1, h2⟩ := h.calls_task c hc
    refine ⟨u, (hmem u).2 ⟨hu, ?_⟩, h1, h2⟩
    intro e
    have := hold u hu e
    subst this
    exact hnw _ h1
  · intro u hu; exact h.wait_lt u ((hmem u).1 hu).1
  · intro u hu u' hu'; exact h.wait_inj u ((hmem u).1 hu).1 u' ((hmem u').1 hu').1
  · intro kd hkd
    obtain ⟨k, d⟩ := kd
    rcases (Server.mem_finish_outq _ _ _ _).1 hkd with hkd | hkd
    · exact h.outq_ok _ hkd
    · exact (lookupRes_hit store k d).1 (hrs k _ hkd).symm
  · intro k hk d hd
    rcases h.pend k hk d hd with h1 | ⟨u, hu, h1⟩
    · exact Or.inl ((Server.mem_finish_outq _ _ _ _).2 (Or.inl h1))
    · by_cases e : u.id = id
      · have := hold u hu e
        subst this
        left
        apply (Server.mem_finish_outq _ _ _ _).2
        right
        rcases hs with ⟨htd, ers, _⟩ | ⟨k1, r1, hr, htd, ers⟩
        · rcases h1 with h1 | h1
          · rw [htd] at h1; cases h1
          · rw [ers]; exact h1
        · rcases h1 with h1 | h1
          · rw [htd] at h1; simp at h1; subst h1
            obtain ⟨k', rest', e1, e2⟩ := h.ready_ok u ht r1 hr
            rw [htd] at e1
            cases e1
            rw [ers, e2, lookupRes_of_get hd]
            simp
          · rw [ers]; exact List.mem_append_left _ h1
      · exact Or.inr ⟨u, (hmem u).2 ⟨hu, e⟩, h1⟩

/-- one task polled -/
theorem pollTask_minv (h : MInv store W sv seq calls (id :: ids)) :
    MInv store W (Server.pollTask sv seq (fun _ => none) id).1
      (Server.pollTask sv seq (fun _ => none) id).2.1
      (calls ++ (Server.pollTask sv seq (fun _ => none) id).2.2.filterMap outCalls) ids ∧
    (Server.pollTask sv seq (fun _ => none) id).1.nextTask = sv.nextTask ∧
    (Server.pollTask sv seq (fun _ => none) id).1.runq = sv.runq := by
  rcases pollTask_cases sv seq id with ⟨e, hs⟩ | ⟨t, ht, hid, rs, hs, e⟩ |
      ⟨t, ht, hid, t', k0, rest, hs, e⟩
  · rw [e]
    refine ⟨?_, rfl, rfl⟩
    simp only [List.filterMap_nil, List.append_nil]
    exact minv_skip h hs
  · rw [e]
    refine ⟨?_, rfl, rfl⟩
    simp only [List.filterMap_nil, List.append_nil]
    exact minv_drop h ht hid hs
  · rw [e]
    exact ⟨minv_start h ht hid hs, rfl, rfl⟩

end

theorem pollTasks_cons (s : Server.State) (seq : Nat) (obs : Nat → Option Nat) (id : Nat)
    (ids : List Nat) :
    Server.pollTasks s seq obs (id :: ids) =
      ((Server.pollTasks (Server.pollTask s seq obs id).1 (Server.pollTask s seq obs id).2.1 obs ids).1,
       (Server.pollTasks (Server.pollTask s seq obs id).1 (Server.pollTask s seq obs id).2.1 obs ids).2.1,
       (Server.pollTask s seq obs id).2.2 ++
       (Server.pollTasks (Server.pollTask s seq obs id).1 (Server.pollTask s seq obs id).2.1 obs ids).2.2) :=
  rfl

theorem pollTasks_minv {store : KMap Nat} {W : KSet} (ids : List Nat) (sv : Server.State)
    (seq : Nat) (calls : List (Nat × Nat)) (h : MInv store W sv seq calls ids) :
    MInv store W (Server.pollTasks sv seq (fun _ => none) ids).1
      (Server.pollTasks sv seq (fun _ => none) ids).2.1
      (calls ++ (Server.pollTasks sv seq (fun _ => none) ids).2.2.filterMap outCalls) [] ∧
    (Server.pollTasks sv seq (fun _ => none) ids).1.nextTask = sv.nextTask ∧
    (Server.pollTasks sv seq (fun _ => none) ids).1.runq = sv.runq := by
  induction ids generalizing sv seq calls with
  | nil =>
    show MInv store W sv seq (calls ++ []) [] ∧ _
    rw [List.append_nil]
    exact ⟨h, rfl, rfl⟩
  | cons id ids ih =>
    obtain ⟨p1, p2, p3⟩ := pollTask_minv h
    obtain ⟨q1, q2, q3⟩ := ih _ _ _ p1
    rw [pollTasks_cons]
    dsimp only
    rw [List.filterMap_append, ← List.append_assoc]
    exact ⟨q1, q2.trans p2, q3.trans p3⟩

/-! ### `MInv` along `Server.complete` -/

theorem minv_complete {store : KMap Nat} {W : KSet} {sv : Server.State} {seq : Nat}
    {calls : List (Nat × Nat)} (h : MInv store W sv seq calls sv.runq) {n k : Nat}
    (hc : (n, k) ∈ calls) :
    ∃ sv', Server.complete sv n (lookupRes store k) = some sv' ∧
      MInv store W sv' seq (calls.filter (·.1 != n)) sv'.runq ∧
      sv'.wl = sv.wl ∧ sv'.waiting = sv.waiting ∧ sv'.outq = sv.outq ∧ sv'.evq = sv.evq := by
  obtain ⟨t0, ht0, hw0, hh0⟩ := h.calls_task _ hc
  dsimp only at hw0 hh0
  unfold Server.complete
  cases hf : sv.tasks.find? (fun t => match t.st with | .waiting m => m == n | _ => false) with
  | none =>
    exfalso
    have := List.find?_eq_none.1 hf t0 ht0
    rw [hw0] at this
    simp at this
  | some t =>
    have ht : t ∈ sv.tasks := List.mem_of_find?_eq_some hf
    have hw : t.st = .waiting n := by
      have := List.find?_some hf
      cases hst : t.st with
      | waiting m => rw [hst] at this; simp at this; rw [this]
      | fresh => rw [hst] at this; simp at this
      | ready r => rw [hst] at this; simp at this
    have e0 : t = t0 := h.uniq ht ht0 (h.wait_inj t ht t0 ht0 n hw hw0)
    subst e0
    obtain ⟨rest, htd⟩ : ∃ rest, t.todo = k :: rest := by
      cases htd : t.todo with
      | nil => rw [htd] at hh0; cases hh0
      | cons a rest => rw [htd] at hh0; simp at hh0; exact ⟨rest, by rw [hh0]⟩
    have hold : ∀ u ∈ sv.tasks, u.id = t.id → u = t := fun u hu e => h.uniq hu ht e
    have hmap : sv.tasks.map (fun u => if u.id == t.id then { u with st := .ready (lookupRes store k) } else u) =
        replaceTask sv.tasks t.id { t with st := .ready (lookupRes store k) } := by
      unfold replaceTask
      apply List.map_congr_left
      intro u hu
      split
      · rename_i e; simp at e; rw [hold u hu e]
      · rfl
    dsimp only
    rw [hmap]
    refine ⟨_, rfl, ?_, rfl, rfl, rfl, rfl⟩
    have hnew : ({ t with st := LookupSt.ready (lookupRes store k) } : Task) ∈
        replaceTask sv.tasks t.id { t with st := .ready (lookupRes store k) } :=
      replaceTask_mem_new ht rfl
    refine ⟨?_, ?_, ?_, ?_, ?_, ?_, ?_, ?_, ?_, ?_, h.outq_ok, ?_⟩
    · have e := replaceTask_ids sv.tasks t.id
        { t with st := LookupSt.ready (lookupRes store k) } rfl
      show ((replaceTask sv.tasks t.id _).map (·.id)).Nodup
      rw [e]; exact h.ids_nodup
    · intro u hu
      rcases mem_replaceTask hu with rfl | ⟨hu, _⟩
      · exact h.ids_lt t ht
      · exact h.ids_lt u hu
    · intro u hu
      rcases mem_replaceTask hu with rfl | ⟨hu, hne⟩
      · left
        refine ⟨(mem_enqueue _ _ _).2 (Or.inr rfl), ?_⟩
        intro m hm; cases hm
      · rcases h.sched u hu with ⟨hm, hnw⟩ | ⟨m, k', r, h1, h2, h3⟩
        · exact Or.inl ⟨(mem_enqueue _ _ _).2 (Or.inl hm), hnw⟩
        · right
          refine ⟨m, k', r, h1, h2, List.mem_filter.2 ⟨h3, ?_⟩⟩
          have : m ≠ n := by
            rintro rfl
            exact hne (h.wait_inj u hu t ht m h1 hw)
          simpa using this
    · intro u hu r hr
      rcases mem_replaceTask hu with rfl | ⟨hu, _⟩
      · cases hr
        exact ⟨k, rest, htd, rfl⟩
      · exact h.ready_ok u hu r hr
    · intro u hu kr hkr
      rcases mem_replaceTask hu with rfl | ⟨hu, _⟩
      · exact h.results_ok t ht kr hkr
      · exact h.results_ok u hu kr hkr
    · intro c hc'
      obtain ⟨hc1, hc2⟩ := List.mem_filter.1 hc'
      obtain ⟨u, hu, h1, h2⟩ := h.calls_task c hc1
      refine ⟨u, replaceTask_mem_old hu ?_, h1, h2⟩
      intro e
      have := hold u hu e
      subst this
      rw [hw] at h1
      cases h1
      simp at hc2
    · intro c hc'; exact h.calls_lt c (List.mem_filter.1 hc').1
    · exact h.calls_nodup.sublist (List.filter_sublist.map _)
    · intro u hu m hm
      rcases mem_replaceTask hu with rfl | ⟨hu, _⟩
      · cases hm
      · exact h.wait_lt u hu m hm
    · intro u hu u' hu' m hm hm'
      rcases mem_replaceTask hu with e1 | ⟨g1, _⟩
      · rw [e1] at hm; cases hm
      · rcases mem_replaceTask hu' with e2 | ⟨g2, _⟩
        · rw [e2] at hm'; cases hm'
        · exact h.wait_inj u g1 u' g2 m hm hm'
    · intro k' hk d hd
      rcases h.pend k' hk d hd with h1 | ⟨u, hu, h1⟩
      · exact Or.inl h1
      · right
        by_cases e : u.id = t.id
        · have := hold u hu e
          subst this
          exact ⟨_, hnew, h1⟩
        · exact ⟨u, replaceTask_mem_old hu e, h1⟩

/-! ### `MInv` along `Server.incoming` -/

theorem incoming_fields (sv : Server.State) (p : Nat) (full : Bool) (es : List Server.Entry)
    (cur : KSet) (hc : sv.wl[p]? = some cur) :
    (Server.incoming sv p full es).wl = sv.wl.insert p (Server.processWantlist cur full es).1 ∧
    (Server.incoming sv p full es).outq = sv.outq ∧
    (Server.incoming sv p full es).evq = sv.evq ∧
    (Server.incoming sv p full es).tasks =
      sv.tasks ++ [{ id := sv.nextTask, peer := p, todo := (Server.processWantlist cur full es).2.1 }] ∧
    (Server.incoming sv p full es).runq = sv.runq ++ [sv.nextTask] ∧
    (Server.incoming sv p full es).nextTask = sv.nextTask + 1 := by
  rw [Server.incoming_eq sv p full es cur hc]
  dsimp only
  generalize (Server.processWantlist cur full es).1 = new
  generalize (Server.processWantlist cur full es).2.1 = added
  generalize (Server.processWantlist cur full es).2.2 = removed
  obtain ⟨f1, f2, f3, f4, f5⟩ := Server.incomingMid_fields sv p new added removed
  have f6 : (Server.incomingMid sv p new added removed).outq = sv.outq := by
    unfold Server.incomingMid
    exact (Server.foldl_add_fields added _ p).2.1.trans
      (Server.foldl_cancel_fields removed { sv with wl := sv.wl.insert p new } p).2.1
  rw [f3, f4, f5]
  exact ⟨f1, f6, f2, rfl, rfl, rfl⟩

theorem minv_incoming {store : KMap Nat} {cur : KSet} {sv : Server.State} {seq : Nat}
    {calls : List (Nat × Nat)} (h : MInv store cur sv seq calls sv.runq) (p : Nat) (full : Bool)
    (es : List Server.Entry) (hc : sv.wl[p]? = some cur) :
    MInv store (Server.processWantlist cur full es).1 (Server.incoming sv p full es) seq calls
      (Server.incoming sv p full es).runq := by
  obtain ⟨_, g2, _, g4, g5, g6⟩ := incoming_fields sv p full es cur hc
  have pw := Server.pwspec cur full es
  generalize Server.incoming sv p full es = sv' at g2 g4 g5 g6
  generalize (Server.processWantlist cur full es).1 = new at pw
  generalize (Server.processWantlist cur full es).2.1 = added at pw g4
  generalize (Server.processWantlist cur full es).2.2 = removed at pw
  have hmem : ∀ u, u ∈ sv'.tasks ↔ u ∈ sv.tasks ∨ u = { id := sv.nextTask, peer := p, todo := added } := by
    intro u; rw [g4]; simp
  refine ⟨?_, ?_, ?_, ?_, ?_, ?_, h.calls_lt, h.calls_nodup, ?_, ?_, ?_, ?_⟩
  · rw [g4, List.map_append, List.nodup_append]
    refine ⟨h.ids_nodup, by simp, ?_⟩
    intro a ha b hb
    simp at hb; subst hb
    rw [List.mem_map] at ha
    obtain ⟨u, hu, rfl⟩ := ha
    have := h.ids_lt u hu
    omega
  · intro u hu
    rw [g6]
    rcases (hmem u).1 hu with hu | rfl
    · have := h.ids_lt u hu; omega
    · show sv.nextTask < sv.nextTask + 1; omega
  · intro u hu
    rw [g5]
    rcases (hmem u).1 hu with hu | rfl
    · rcases h.sched u hu with ⟨hm, hnw⟩ | hr
      · exact Or.inl ⟨List.mem_append_left _ hm, hnw⟩
      · exact Or.inr hr
    · left
      refine ⟨List.mem_append_right _ (List.mem_singleton_self _), ?_⟩
      intro n hn; cases hn
  · intro u hu r hr
    rcases (hmem u).1 hu with hu | rfl
    · exact h.ready_ok u hu r hr
    · cases hr
  · intro u hu kr hkr
    rcases (hmem u).1 hu with hu | rfl
    · exact h.results_ok u hu kr hkr
    · cases hkr
  · intro c hc'
    obtain ⟨u, hu, h1, h2⟩ := h.calls_task c hc'
    exact ⟨u, (hmem u).2 (Or.inl hu), h1, h2⟩
  · intro u hu n hn
    rcases (hmem u).1 hu with hu | rfl
    · exact h.wait_lt u hu n hn
    · cases hn
  · intro u hu u' hu' n hn hn'
    rcases (hmem u).1 hu with g1 | e1
    · rcases (hmem u').1 hu' with g2 | e2
      · exact h.wait_inj u g1 u' g2 n hn hn'
      · rw [e2] at hn'; cases hn'
    · rw [e1] at hn; cases hn
  · rw [g2]; exact h.outq_ok
  · intro k hk d hd
    rw [g2]
    rcases (pw.mem_new k).1 hk with ⟨hk1, _⟩ | hk2
    · rcases h.pend k hk1 d hd with h1 | ⟨u, hu, h1⟩
      · exact Or.inl h1
      · exact Or.inr ⟨u, (hmem u).2 (Or.inl hu), h1⟩
    · exact Or.inr ⟨_, (hmem _).2 (Or.inr rfl), Or.inl hk2⟩

end Beetswap.Proofs.Net
