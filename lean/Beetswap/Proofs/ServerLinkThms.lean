import Beetswap.Proofs.ServerLinkRecord
/-!
What the invariants of `Proofs/ServerLink` and `Proofs/ServerLinkRecord` say about every reachable
state of `Model/ServerLink`, in the vocabulary of the properties (C06, C07, C13, C15).
-/
namespace Beetswap.Proofs.ServerLink
open Std Beetswap Beetswap.ServerLink Beetswap.ServerSink
open Beetswap.Proofs.Server (kmap_get_insert kmap_mem_iff)
open Beetswap.Proofs.ServerSink (pendingOf)
open Beetswap.Spec.ServerSpec (Inv Wants Available sentTo)

/-! ### The server behaviour inside the composition -/

theorem sv_take (s : State) : (ServerLink.step s .take).sv = s.sv := by
  simp only [ServerLink.step]; repeat' split
  all_goals rfl
theorem sv_accept (s : State) (c : Nat) : (ServerLink.step s (.accept c)).sv = s.sv := by
  simp only [ServerLink.step]; repeat' split
  all_goals rfl
theorem sv_giveUp (s : State) : (ServerLink.step s .giveUp).sv = s.sv := by
  simp only [ServerLink.step]; repeat' split
  all_goals rfl
theorem sv_deliverCmd (s : State) (c : Nat) : (ServerLink.step s (.deliverCmd c)).sv = s.sv := by
  simp only [ServerLink.step]; repeat' split
  all_goals rfl
theorem sv_handler (s : State) (c : Nat) (i : In) : (ServerLink.step s (.handler c i)).sv = s.sv := by
  simp only [ServerLink.step]; repeat' split
  all_goals rfl
theorem sv_beginClose (s : State) (c : Nat) : (ServerLink.step s (.beginClose c)).sv = s.sv := by
  simp only [ServerLink.step]; repeat' split
  all_goals rfl

theorem svinv_step (s : State) (h : Inv s.sv) (a : Act) : Inv (ServerLink.step s a).sv := by
  cases a with
  | server op =>
    simp only [ServerLink.step]
    split
    · exact Proofs.Server.inv_step s.sv s.seq op h
    · exact h
  | connect p c =>
    simp only [ServerLink.step]
    split
    · exact h
    · exact Proofs.Server.inv_connect s.sv p h
  | drain obs => exact Proofs.Server.inv_step s.sv s.seq (.drain obs) h
  | take => rw [sv_take]; exact h
  | accept c => rw [sv_accept]; exact h
  | giveUp => rw [sv_giveUp]; exact h
  | deliverCmd c => rw [sv_deliverCmd]; exact h
  | handler c i => rw [sv_handler]; exact h
  | beginClose c => rw [sv_beginClose]; exact h
  | swarmClosed c =>
    simp only [ServerLink.step]
    split
    · split
      · dsimp only
        split
        · exact Proofs.Server.inv_disconnected s.sv _ h
        · exact h
      · exact h
    · exact h

theorem svinv_reachable {s : State} (hr : Reachable s) : Inv s.sv := by
  induction hr with
  | init => exact Proofs.Server.inv_init
  | step a _ ih => exact svinv_step _ ih a

theorem reachable_run (s : State) (hr : Reachable s) (acts : List Act) : Reachable (run s acts) := by
  induction acts generalizing s with
  | nil => exact hr
  | cons a as ih => exact ih _ (Reachable.step a hr)

/-! ### Every dispatched event is in exactly one place -/

/-- Where event `n` is, read off the structures of the state (not the ghost field). -/
def Holds (s : State) (n : Nat) (pl : Place) : Prop := At s.links s.outbox s.pend s.lost n pl

/-- Nothing vanishes: an event the behaviour has dispatched is in the behaviour's queue, is the
swarm's pending event, waits in the channel of one connection, was handed to the handler of one
connection, or was dropped by the swarm (recorded in `lost`). -/
theorem dispatched_is_somewhere (s : State) (hr : Reachable s) (n : Nat) (hn : n < s.nextE) :
    ∃ pl, pl ≠ .nowhere ∧ Holds s n pl := by
  have h := (sinv_reachable hr).found n hn
  refine ⟨s.place n, ?_, h⟩
  intro e; rw [e] at h; exact h

/-- … and in one place only: wherever the structures of the state hold event `n`, that is the
place the ghost function names — a function, so two different places are impossible. -/
theorem holds_unique (s : State) (hr : Reachable s) (n : Nat) (pl : Place) (h : Holds s n pl) : s.place n = pl := by
  have hi := sinv_reachable hr
  cases pl with
  | nowhere => exact absurd h id
  | outbox =>
    obtain ⟨e, he, rfl⟩ := mem_ids.1 h
    exact (hi.outbox_place e he).1
  | pend =>
    obtain ⟨e, cs, hp, rfl⟩ := h
    exact (hi.pend_place e cs hp).1
  | cmd c =>
    obtain ⟨l, hl, hm⟩ := h
    obtain ⟨e, he, rfl⟩ := mem_ids.1 hm
    exact ((hi.link c l hl).cmd_place e he).1
  | handler c =>
    obtain ⟨l, hl, hm⟩ := h
    obtain ⟨e, he, rfl⟩ := mem_ids.1 hm
    exact ((hi.link c l hl).del_place e he).1
  | lost =>
    obtain ⟨e, he, rfl⟩ := mem_ids.1 h
    exact (hi.lost_place e he).1

theorem one_place (s : State) (hr : Reachable s) (n : Nat) (p1 p2 : Place) (h1 : Holds s n p1) (h2 : Holds s n p2) :
    p1 = p2 := by
  rw [← holds_unique s hr n p1 h1, ← holds_unique s hr n p2 h2]

/-- An event is accepted by at most one connection: it never waits in, or was handed to, two. -/
theorem never_two_connections (s : State) (hr : Reachable s) (n c1 c2 : Nat) (l1 l2 : Link)
    (h1 : s.links[c1]? = some l1) (h2 : s.links[c2]? = some l2)
    (m1 : n ∈ ids l1.cmds ∨ n ∈ ids l1.delivered) (m2 : n ∈ ids l2.cmds ∨ n ∈ ids l2.delivered) : c1 = c2 := by
  have a1 : s.place n = .cmd c1 ∨ s.place n = .handler c1 := by
    rcases m1 with m | m
    · exact Or.inl (holds_unique s hr n (.cmd c1) ⟨l1, h1, m⟩)
    · exact Or.inr (holds_unique s hr n (.handler c1) ⟨l1, h1, m⟩)
  have a2 : s.place n = .cmd c2 ∨ s.place n = .handler c2 := by
    rcases m2 with m | m
    · exact Or.inl (holds_unique s hr n (.cmd c2) ⟨l2, h2, m⟩)
    · exact Or.inr (holds_unique s hr n (.handler c2) ⟨l2, h2, m⟩)
  rcases a1 with a1 | a1 <;> rcases a2 with a2 | a2 <;> rw [a1] at a2 <;> cases a2 <;> rfl

/-- … and within one list it occurs once. -/
theorem no_duplicates (s : State) (hr : Reachable s) :
    (ids s.outbox).Nodup ∧ (ids s.lost).Nodup ∧
    ∀ (c : Nat) (l : Link), s.links[c]? = some l → (ids l.cmds).Nodup ∧ (ids l.delivered).Nodup := by
  have hi := sinv_reachable hr
  exact ⟨hi.outbox_nodup, hi.lost_nodup, fun c l hl => ⟨(hi.link c l hl).cmd_nodup, (hi.link c l hl).del_nodup⟩⟩

/-! ### To whom -/

/-- An event reaches only connections of the peer it was dispatched to. -/
theorem routed_to_own_peer (s : State) (hr : Reachable s) (c : Nat) (l : Link) (hl : s.links[c]? = some l)
    (e : Ev) (he : e ∈ l.cmds ∨ e ∈ l.delivered) : e.peer = l.peer := by
  have hi := (sinv_reachable hr).link c l hl
  rcases he with he | he
  · exact (hi.cmd_place e he).2.1
  · exact (hi.del_place e he).2.1

/-- A connection that has begun to close holds nothing in its channel and is given nothing more
(`accept` requires an open channel): what is dispatched afterwards goes to the other connections
of the peer. -/
theorem closing_connection_gets_nothing (s : State) (hr : Reachable s) (c : Nat) (l : Link)
    (hl : s.links[c]? = some l) (hc : l.closing = true) : l.cmds = [] :=
  ((sinv_reachable hr).link c l hl).closing_nocmd hc

/-! ### Through the handler -/

/-- Conservation from the behaviour to the wire, per connection and for every behaviour of the
sink: the blocks the handler has taken out of its pending list (written frames and frames whose
`start_send` failed), in order, followed by the blocks still pending, are exactly the blocks of
the events handed to this connection, in order. -/
theorem handler_conservation (s : State) (hr : Reachable s) (c : Nat) (l : Link) (hl : s.links[c]? = some l) :
    takenOf l.outs ++ pendingOf l.h = blocksOf l.delivered := by
  have hi := (sinv_reachable hr).link c l hl
  have := Proofs.ServerSink.run_conservation {} l.ins
  rw [hi.coh] at this
  simpa [pendingOf, hi.queued] using this

/-- The blocks written on a connection are a subsequence of the blocks of the events handed to
it: no block is written that was not dispatched to this connection, none more often than
dispatched. -/
theorem written_sublist_delivered (s : State) (hr : Reachable s) (c : Nat) (l : Link) (hl : s.links[c]? = some l) :
    List.Sublist (writtenOf l.outs) (blocksOf l.delivered) := by
  rw [← handler_conservation s hr c l hl]
  exact (Proofs.ServerSink.written_sublist_taken l.outs).trans (List.sublist_append_left _ _)

theorem written_count_le (s : State) (hr : Reachable s) (c : Nat) (l : Link) (hl : s.links[c]? = some l)
    (b : Proto.Block) : (writtenOf l.outs).count b ≤ (blocksOf l.delivered).count b :=
  (written_sublist_delivered s hr c l hl).count_le b

/-- If the sink never refused a frame on this connection, everything handed to it is written or
still pending. -/
theorem nothing_lost_in_handler (s : State) (hr : Reachable s) (c : Nat) (l : Link) (hl : s.links[c]? = some l)
    (hd : droppedOf l.outs = []) : writtenOf l.outs ++ pendingOf l.h = blocksOf l.delivered := by
  rw [Proofs.ServerSink.written_eq_taken_of_dropped_nil l.outs hd]
  exact handler_conservation s hr c l hl

/-! ### What is dispatched -/

theorem mem_sentTo_of_mem {outs : List Client.Out} {p : Nat} {bs : List (Nat × Nat)} {kd : Nat × Nat}
    (h : Client.Out.blocks p bs ∈ outs) (hk : kd ∈ bs) : kd ∈ sentTo outs p := by
  unfold sentTo
  rw [List.mem_flatten]
  refine ⟨bs, ?_, hk⟩
  rw [List.mem_filterMap]
  exact ⟨_, h, by simp⟩

/-- What a drain adds to the behaviour's queue: blocks the peer's record held when the drain
started, with bytes that were available for that CID (C07 carried to the pipeline). -/
theorem dispatched_was_wanted (s : State) (hr : Reachable s) (obs : Nat → Option Nat) (e : Ev)
    (he : e ∈ (ServerLink.step s (.drain obs)).outbox) (hnew : e ∉ s.outbox) (k d : Nat) (hk : (k, d) ∈ e.blocks) :
    Wants s.sv e.peer k ∧ Available s.sv k d := by
  have hin : e ∈ mkEvs s.nextE (Server.drain s.sv s.seq obs).2.2 := by
    have : e ∈ s.outbox ++ mkEvs s.nextE (Server.drain s.sv s.seq obs).2.2 := he
    rcases List.mem_append.1 this with h | h
    · exact absurd h hnew
    · exact h
  have hs := mem_sentTo_of_mem (mkEvs_mem _ _ e hin) hk
  have hinv := svinv_reachable hr
  exact ⟨Proofs.Server.sent_implies_wanted s.sv s.seq obs hinv e.peer k d hs,
    Proofs.Server.sent_is_available s.sv s.seq obs hinv e.peer k d hs⟩

/-! ### When the server forgets a peer -/

/-- The server half has a record for a peer exactly while one of the peer's connections is in
the swarm's pool (closing ones included): a further connection does not reset it, closing one of
several keeps it, and with the last one it goes. -/
theorem record_iff_connected (s : State) (hr : Reachable s) (p : Nat) : p ∈ s.sv.wl ↔ Connected s.links p := by
  rw [mem_wl_iff]; exact rinv_reachable hr p

theorem record_kept_while_connected (s : State) (hr : Reachable s) (c : Nat) (l : Link) (hl : s.links[c]? = some l)
    (hg : l.gone = false) : l.peer ∈ s.sv.wl :=
  (record_iff_connected s hr l.peer).2 ⟨c, l, hl, rfl, hg⟩

theorem record_dropped_with_last_connection (s : State) (hr : Reachable s) (p : Nat)
    (hall : ∀ (c : Nat) (l : Link), s.links[c]? = some l → l.peer = p → l.gone = true) : p ∉ s.sv.wl := by
  intro hm
  obtain ⟨c, l, hl, hp, hg⟩ := (record_iff_connected s hr p).1 hm
  rw [hall c l hl hp] at hg; cases hg

/-! ### Loss needs a fault -/

/-- The swarm drops an event only in two situations: `notify_any` finds every candidate connection
closing or gone, or a connection begins to close while events wait in its channel. -/
theorem lost_only_by_fault (s : State) (a : Act) (h : (ServerLink.step s a).lost ≠ s.lost) :
    (a = .giveUp ∧ ∃ e cs, s.pend = some (e, cs) ∧ cs.all (fun c => !usable s.links c) = true) ∨
    (∃ c l, a = .beginClose c ∧ s.links[c]? = some l ∧ l.cmds ≠ []) := by
  cases a with
  | giveUp =>
    left
    refine ⟨rfl, ?_⟩
    simp only [ServerLink.step] at h
    split at h
    · rename_i e cs hp
      split at h
      · rename_i hall; exact ⟨e, cs, hp, hall⟩
      · exact absurd rfl h
    · exact absurd rfl h
  | beginClose c =>
    right
    simp only [ServerLink.step] at h
    split at h
    · rename_i l hl
      split at h
      · exact absurd rfl h
      · refine ⟨c, l, rfl, hl, ?_⟩
        intro hc; apply h; show s.lost ++ l.cmds = s.lost; rw [hc]; simp
    · exact absurd rfl h
  | server op => simp only [ServerLink.step] at h; split at h <;> exact absurd rfl h
  | connect p c => simp only [ServerLink.step] at h; split at h <;> exact absurd rfl h
  | drain obs => exact absurd rfl h
  | take => simp only [ServerLink.step] at h; split at h <;> exact absurd rfl h
  | accept c =>
    simp only [ServerLink.step] at h
    split at h
    · split at h
      · split at h <;> exact absurd rfl h
      · exact absurd rfl h
    · exact absurd rfl h
  | deliverCmd c =>
    simp only [ServerLink.step] at h
    split at h
    · split at h
      · split at h <;> exact absurd rfl h
      · exact absurd rfl h
    · exact absurd rfl h
  | handler c i =>
    simp only [ServerLink.step] at h
    split at h
    · split at h <;> exact absurd rfl h
    · exact absurd rfl h
  | swarmClosed c =>
    simp only [ServerLink.step] at h
    split at h
    · split at h <;> exact absurd rfl h
    · exact absurd rfl h

/-- While a peer has a connection whose channel is open, `notify_any` cannot give up on an event
for which that connection is a candidate. -/
theorem no_giveUp_with_usable_candidate (s : State) (e : Ev) (cs : List Nat) (hp : s.pend = some (e, cs))
    (c : Nat) (hc : c ∈ cs) (hu : usable s.links c = true) : ServerLink.step s .giveUp = s := by
  simp only [ServerLink.step, hp]
  split
  · rename_i hall
    have := List.all_eq_true.1 hall c hc
    simp [hu] at this
  · rfl

end Beetswap.Proofs.ServerLink

namespace Beetswap.Proofs.ServerLink
open Std Beetswap Beetswap.ServerLink Beetswap.ServerSink
open Beetswap.Proofs.Server (kmap_get_insert kmap_mem_iff)
open Beetswap.Proofs.ServerSink (pendingOf)

/-! ### Fault-free delivery -/

def okAns : Ans := { flush := .ok, sendOk := true }

/-- the schedule that carries the next event of the behaviour's queue over connection `c` -/
def deliverVia (c n : Nat) : List Act :=
  [.take, .accept c, .deliverCmd c, .handler c (.poll (List.replicate n okAns))]

/-- Fault-free delivery through the whole pipeline: when the swarm holds no pending event, the peer
of the next event has a connection with an open channel and an idle stream, and the sink accepts
and flushes what it is given, then taking the event, offering it to that connection, handing it
to the handler and polling once writes every block of the event on that stream, in order, and
leaves nothing behind. -/
theorem faultfree_delivery (s : State) (e : Ev) (rest : List Ev) (c sid : Nat) (l : Link) (n : Nat)
    (hob : s.outbox = e :: rest) (hpd : s.pend = none) (hl : s.links[c]? = some l) (hp : l.peer = e.peer)
    (hcl : l.closing = false) (hg : l.gone = false) (hcm : l.cmds = [])
    (hh : l.h = { pending := none, sink := .ready sid }) (hn : e.blocks.length + 1 ≤ n) :
    let s' := ServerLink.run s (deliverVia c n)
    s'.outbox = rest ∧ s'.pend = none ∧ s'.lost = s.lost ∧
    ∃ l', s'.links[c]? = some l' ∧ l'.cmds = [] ∧ l'.h = { pending := none, sink := .ready sid } ∧
      l'.delivered = l.delivered ++ [e] ∧
      writtenOf l'.outs = writtenOf l.outs ++ e.blocks.map encB ∧ droppedOf l'.outs = droppedOf l.outs ∧
      l'.peer = l.peer ∧ l'.closing = false ∧ l'.gone = false := by
  have hc : c ∈ poolOf s.links e.peer := mem_poolOf hl hp hg
  -- take
  have e1 : ServerLink.step s .take =
      { s with outbox := rest, pend := some (e, poolOf s.links e.peer), place := setPlace s.place e.id .pend } := by
    simp only [ServerLink.step, hpd, hob]
  -- accept
  generalize hs1 : ServerLink.step s .take = s1 at e1
  have e2 : ServerLink.step s1 (.accept c) =
      { s1 with pend := none, links := s1.links.insert c { l with cmds := [e] },
                place := setPlace s1.place e.id (.cmd c) } := by
    subst e1
    simp only [ServerLink.step, hl, hc, hcl, hg, hcm, decide_true, Bool.not_false, Bool.and_self, if_true, List.nil_append]
  generalize hs2 : ServerLink.step s1 (.accept c) = s2 at e2
  have hl2 : s2.links[c]? = some { l with cmds := [e] } := by
    subst e2; subst e1; simp
  -- deliverCmd
  have e3 : ServerLink.step s2 (.deliverCmd c) =
      { s2 with links := s2.links.insert c (dlv { l with cmds := [e] } e []), place := setPlace s2.place e.id (.handler c) } := by
    simp only [ServerLink.step, hl2, hcl, hg, Bool.or_self, Bool.false_eq_true, if_false, dlv]
  generalize hs3 : ServerLink.step s2 (.deliverCmd c) = s3 at e3
  have hl3 : s3.links[c]? = some (dlv { l with cmds := [e] } e []) := by
    subst e3; simp
  have hh3 : (dlv { l with cmds := [e] } e []).h = { pending := some (e.blocks.map encB), sink := .ready sid } := by
    simp [dlv, hh, ServerSink.queue]
  have hff := Proofs.ServerSink.faultfree_writes_all (dlv { l with cmds := [e] } e []).h sid (e.blocks.map encB) n
    (by rw [hh3]) (by rw [hh3]) (by simpa using hn)
  simp only at hff
  obtain ⟨f1, f2, f3, f4⟩ := hff
  -- handler poll
  have e4 : ServerLink.run s (deliverVia c n) = ServerLink.step s3 (.handler c (.poll (List.replicate n okAns))) := by
    simp only [ServerLink.run, deliverVia, List.foldl_cons, List.foldl_nil, hs1, hs2, hs3]
  intro s'
  have hs' : s' = ServerLink.step s3 (.handler c (.poll (List.replicate n okAns))) := e4
  have hstep : ServerSink.step (dlv { l with cmds := [e] } e []).h (.poll (List.replicate n okAns)) =
      ({ pending := none, sink := .ready sid }, (ServerSink.poll (dlv { l with cmds := [e] } e []).h (List.replicate n okAns)).2.2) := by
    simp only [ServerSink.step, okAns, f1, f2]
    simp
  rw [hs']
  simp only [ServerLink.step, hl3, allowed]
  have hc3 : (dlv { l with cmds := [e] } e []).closing = false := hcl
  have hg3 : (dlv { l with cmds := [e] } e []).gone = false := hg
  simp only [hc3, hg3, Bool.or_self, Bool.not_true, Bool.false_eq_true, if_false, hstep]
  subst e3; subst e2; subst e1
  refine ⟨rfl, rfl, rfl, ?_⟩
  rw [kmap_get_insert, if_pos rfl]
  refine ⟨_, rfl, ?_⟩
  refine ⟨rfl, rfl, rfl, ?_, ?_, rfl, by simpa [dlv] using hcl, by simpa [dlv] using hg⟩
  · simp only [dlv] at f3
    simp only [dlv, Proofs.ServerSink.writtenOf_append]
    rw [show okAns = { flush := .ok, sendOk := true } from rfl, f3]
  · simp only [dlv] at f4
    simp only [dlv, Proofs.ServerSink.droppedOf_append]
    rw [show okAns = { flush := .ok, sendOk := true } from rfl, f4, List.append_nil]


/-- the schedule that carries `k` events, one after the other, over connection `c` -/
def deliverAllVia (c n : Nat) : Nat → List Act
  | 0 => []
  | k + 1 => deliverVia c n ++ deliverAllVia c n k

theorem run_append (s : State) (a b : List Act) : ServerLink.run s (a ++ b) = ServerLink.run (ServerLink.run s a) b := by
  simp [ServerLink.run, List.foldl_append]

/-- Fault-free delivery of a whole queue: when everything in the behaviour's queue is for the peer of
a connection with an open channel and an idle stream, and the sink accepts and flushes what it is
given, carrying the events over that connection one after the other writes all their blocks on the
stream in the order of dispatch; nothing is dropped, nothing stays behind. -/
theorem faultfree_delivers_all (es : List Ev) : ∀ (s : State) (c sid : Nat) (l : Link) (n : Nat),
    s.outbox = es → s.pend = none → s.links[c]? = some l → (∀ e ∈ es, e.peer = l.peer) →
    l.closing = false → l.gone = false → l.cmds = [] → l.h = { pending := none, sink := .ready sid } →
    (∀ e ∈ es, e.blocks.length + 1 ≤ n) →
    let s' := ServerLink.run s (deliverAllVia c n es.length)
    s'.outbox = [] ∧ s'.pend = none ∧ s'.lost = s.lost ∧
    ∃ l', s'.links[c]? = some l' ∧ l'.cmds = [] ∧ l'.h = { pending := none, sink := .ready sid } ∧
      l'.delivered = l.delivered ++ es ∧
      writtenOf l'.outs = writtenOf l.outs ++ blocksOf es ∧ droppedOf l'.outs = droppedOf l.outs := by
  induction es with
  | nil =>
    intro s c sid l n hob hpd hl _ _ _ hcm hh _
    simp only [List.length_nil, deliverAllVia, ServerLink.run, List.foldl_nil]
    refine ⟨hob, hpd, ?_, l, hl, hcm, hh, ?_, ?_, ?_⟩ <;> simp [blocksOf]
  | cons e rest ih =>
    intro s c sid l n hob hpd hl hp hcl hg hcm hh hn
    have h1 := faultfree_delivery s e rest c sid l n hob hpd hl (hp e (by simp)).symm hcl hg hcm hh (hn e (by simp))
    simp only at h1
    obtain ⟨a1, a2, a3, l1, b1, b2, b3, b4, b5, b6, b7, b8, b9⟩ := h1
    have h2 := ih (ServerLink.run s (deliverVia c n)) c sid l1 n a1 a2 b1
      (fun e' he' => by rw [b7]; exact hp e' (List.mem_cons_of_mem _ he')) b8 b9 b2 b3
      (fun e' he' => hn e' (List.mem_cons_of_mem _ he'))
    simp only at h2
    obtain ⟨c1, c2, c3, l2, d1, d2, d3, d4, d5, d6⟩ := h2
    simp only [List.length_cons, deliverAllVia, run_append]
    refine ⟨c1, c2, by rw [c3, a3], l2, d1, d2, d3, ?_, ?_, by rw [d6, b6]⟩
    · rw [d4, b4]; simp
    · rw [d5, b5]; simp [blocksOf]

/-- Every block written on a connection belongs to an event that the behaviour dispatched to the
peer of that very connection: a peer is never sent, on any of its connections, a block that was
dispatched to somebody else or to nobody. -/
theorem written_from_own_event (s : State) (hr : Reachable s) (c : Nat) (l : Link) (hl : s.links[c]? = some l)
    (b : Proto.Block) (hb : b ∈ writtenOf l.outs) :
    ∃ e ∈ l.delivered, e.peer = l.peer ∧ b ∈ e.blocks.map encB := by
  have hsub := (written_sublist_delivered s hr c l hl).subset hb
  unfold blocksOf at hsub
  rw [List.mem_flatMap] at hsub
  obtain ⟨e, he, hbe⟩ := hsub
  exact ⟨e, he, routed_to_own_peer s hr c l hl e (Or.inr he), hbe⟩

/-- A further connection of a peer the server already knows changes nothing in the server behaviour:
no want is forgotten, no waiter entry touched (C15, server side, inside the composition). -/
theorem extra_connection_keeps_server_state (s : State) (p c : Nat) (hp : p ∈ s.sv.wl) :
    (ServerLink.step s (.connect p c)).sv = s.sv := by
  simp only [ServerLink.step]
  split
  · rfl
  · exact Proofs.Server.connect_of_mem s.sv p hp

end Beetswap.Proofs.ServerLink
