import Beetswap.Proofs.NetProgABase
/-!
Progress, requesting side: the task phase of a drain does not increase the weights of the lookups
and of the `put`s, counting the blockstore calls it starts; if the lookup weight stays the same the
wantlist and the exchange states are untouched.
-/
namespace Beetswap.Proofs.Net.PA
open Std Beetswap.Net Beetswap.Wl
open Beetswap.Client (PeerSt Sending StoreRes Out TaskSt TaskKind Sys sendFullInterval Task)

/-- weight of the lookups for the user -/
def gW (tasks : List Task) : Nat := (tasks.map wtGet).sum
/-- weight of the `put`s -/
def pW (tasks : List Task) : Nat := (tasks.map wtPut).sum

theorem wtGet_get {t : Task} {q k : Nat} (hk : t.kind = .get q k) : wtGet t = stWt t.st := by
  unfold wtGet; rw [hk]
theorem wtGet_put {t : Task} {bs : List (Nat × Nat)} (hk : t.kind = .put bs) : wtGet t = 0 := by
  unfold wtGet; rw [hk]
theorem wtPut_get {t : Task} {q k : Nat} (hk : t.kind = .get q k) : wtPut t = 0 := by
  unfold wtPut; rw [hk]
theorem wtPut_put {t : Task} {bs : List (Nat × Nat)} (hk : t.kind = .put bs) : wtPut t = stWt t.st := by
  unfold wtPut; rw [hk]

theorem setWaiting_get {tasks : List Task} {id seq : Nat} {t : Task} {q k : Nat}
    (hn : (tasks.map (·.id)).Nodup) (ht : t ∈ tasks) (hid : t.id = id) (hst : t.st = .fresh)
    (hk : t.kind = .get q k) :
    gW (A.setWaiting tasks id seq) + 2 ≤ gW tasks ∧ pW (A.setWaiting tasks id seq) ≤ pW tasks := by
  unfold A.setWaiting gW pW
  have hw : wtGet { t with st := .waiting seq } = 2 := by
    rw [wtGet_get (t := { t with st := .waiting seq }) hk]; rfl
  have hw0 : wtGet t = 4 := by rw [wtGet_get hk, hst]; rfl
  have hp : wtPut { t with st := .waiting seq } = 0 := wtPut_get (t := { t with st := .waiting seq }) hk
  have hp0 : wtPut t = 0 := wtPut_get hk
  constructor
  · apply sum_map_upd_drop wtGet _ tasks t 2 _ ht
    · have : (t.id == id) = true := by simp [hid]
      simp only [this, if_true]; omega
    · intro x hx
      by_cases hx' : x.id = id
      · have : x = t := ClientQuery.uniq_of_nodup tasks hn x t hx ht (hx'.trans hid.symm)
        subst this
        have : (x.id == id) = true := by simpa using hx'
        simp only [this, if_true]; omega
      · have : (x.id == id) = false := by simpa using hx'
        simp only [this, Bool.false_eq_true, if_false]; exact Nat.le_refl _
  · apply sum_map_upd_le
    intro x hx
    by_cases hx' : x.id = id
    · have : x = t := ClientQuery.uniq_of_nodup tasks hn x t hx ht (hx'.trans hid.symm)
      subst this
      have : (x.id == id) = true := by simpa using hx'
      simp only [this, if_true]; omega
    · have : (x.id == id) = false := by simpa using hx'
      simp only [this, Bool.false_eq_true, if_false]; exact Nat.le_refl _

theorem setWaiting_put {tasks : List Task} {id seq : Nat} {t : Task} {bs : List (Nat × Nat)}
    (hn : (tasks.map (·.id)).Nodup) (ht : t ∈ tasks) (hid : t.id = id) (hst : t.st = .fresh)
    (hk : t.kind = .put bs) :
    gW (A.setWaiting tasks id seq) ≤ gW tasks ∧ pW (A.setWaiting tasks id seq) + 2 ≤ pW tasks := by
  unfold A.setWaiting gW pW
  have hw : wtPut { t with st := .waiting seq } = 2 := by
    rw [wtPut_put (t := { t with st := .waiting seq }) hk]; rfl
  have hw0 : wtPut t = 4 := by rw [wtPut_put hk, hst]; rfl
  have hp : wtGet { t with st := .waiting seq } = 0 := wtGet_put (t := { t with st := .waiting seq }) hk
  have hp0 : wtGet t = 0 := wtGet_put hk
  constructor
  · apply sum_map_upd_le
    intro x hx
    by_cases hx' : x.id = id
    · have : x = t := ClientQuery.uniq_of_nodup tasks hn x t hx ht (hx'.trans hid.symm)
      subst this
      have : (x.id == id) = true := by simpa using hx'
      simp only [this, if_true]; omega
    · have : (x.id == id) = false := by simpa using hx'
      simp only [this, Bool.false_eq_true, if_false]; exact Nat.le_refl _
  · apply sum_map_upd_drop wtPut _ tasks t 2 _ ht
    · have : (t.id == id) = true := by simp [hid]
      simp only [this, if_true]; omega
    · intro x hx
      by_cases hx' : x.id = id
      · have : x = t := ClientQuery.uniq_of_nodup tasks hn x t hx ht (hx'.trans hid.symm)
        subst this
        have : (x.id == id) = true := by simpa using hx'
        simp only [this, if_true]; omega
      · have : (x.id == id) = false := by simpa using hx'
        simp only [this, Bool.false_eq_true, if_false]; exact Nat.le_refl _

theorem dropTask_le (tasks : List Task) (id : Nat) :
    gW (A.dropTask tasks id) ≤ gW tasks ∧ pW (A.dropTask tasks id) ≤ pW tasks :=
  ⟨sum_filter_le _ _ _, sum_filter_le _ _ _⟩

theorem dropTask_get {tasks : List Task} {id : Nat} {t : Task} (ht : t ∈ tasks) (hid : t.id = id) :
    gW (A.dropTask tasks id) + wtGet t ≤ gW tasks :=
  sum_filter_drop wtGet _ tasks t ht (by simp [hid])

theorem dropTask_nodup {tasks : List Task} (id : Nat) (hn : (tasks.map (·.id)).Nodup) :
    ((A.dropTask tasks id).map (·.id)).Nodup :=
  (List.Sublist.map _ List.filter_sublist).nodup hn

/-- one poll -/
theorem pollTask_wt (s : Client.State) (seq id : Nat) (hn : (s.tasks.map (·.id)).Nodup) :
    ((Client.pollTask s seq id).1.tasks.map (·.id)).Nodup ∧
    gW (Client.pollTask s seq id).1.tasks + (callGets (Client.pollTask s seq id).2.2).length ≤ gW s.tasks ∧
    (gW (Client.pollTask s seq id).1.tasks + (callGets (Client.pollTask s seq id).2.2).length = gW s.tasks →
      (Client.pollTask s seq id).1.wantlist = s.wantlist ∧ (Client.pollTask s seq id).1.peers = s.peers) ∧
    pW (Client.pollTask s seq id).1.tasks + (callPuts (Client.pollTask s seq id).2.2).length ≤ pW s.tasks := by
  have hr := A.pollTask_res s seq id
  generalize Client.pollTask s seq id = r at hr
  cases hr with
  | absent hf => exact ⟨hn, Nat.le_refl _, fun _ => ⟨rfl, rfl⟩, Nat.le_refl _⟩
  | aborted t hf ha =>
    obtain ⟨d1, d2⟩ := dropTask_le s.tasks id
    exact ⟨dropTask_nodup id hn, d1, fun _ => ⟨rfl, rfl⟩, d2⟩
  | freshGet t q k hf ha hst hk =>
    obtain ⟨d1, d2⟩ := setWaiting_get (seq := seq) hn (A.find_task hf).1 (A.find_task hf).2 hst hk
    refine ⟨by rw [A.setWaiting_ids]; exact hn, ?_, ?_, ?_⟩
    · show gW (A.setWaiting s.tasks id seq) + 1 ≤ _; omega
    · intro h
      have h : gW (A.setWaiting s.tasks id seq) + 1 = gW s.tasks := h
      omega
    · show pW (A.setWaiting s.tasks id seq) + 0 ≤ _; omega
  | freshPut t bs hf ha hst hk =>
    obtain ⟨d1, d2⟩ := setWaiting_put (seq := seq) hn (A.find_task hf).1 (A.find_task hf).2 hst hk
    refine ⟨by rw [A.setWaiting_ids]; exact hn, ?_, fun _ => ⟨rfl, rfl⟩, ?_⟩
    · show gW (A.setWaiting s.tasks id seq) + 0 ≤ _; omega
    · show pW (A.setWaiting s.tasks id seq) + 1 ≤ _; omega
  | waiting t n hf ha hst => exact ⟨hn, Nat.le_refl _, fun _ => ⟨rfl, rfl⟩, Nat.le_refl _⟩
  | hit t q k d hf ha hst hk =>
    obtain ⟨_, d2⟩ := dropTask_le s.tasks id
    have d1 := dropTask_get (A.find_task hf).1 (A.find_task hf).2
    have hw : wtGet t = 1 := by rw [wtGet_get hk, hst]; rfl
    refine ⟨dropTask_nodup id hn, ?_, ?_, d2⟩
    · show gW (A.dropTask s.tasks id) + 0 ≤ _; omega
    · intro h
      have h : gW (A.dropTask s.tasks id) + 0 = gW s.tasks := h
      omega
  | miss t q k hf ha hst hk =>
    obtain ⟨_, d2⟩ := dropTask_le s.tasks id
    have d1 := dropTask_get (A.find_task hf).1 (A.find_task hf).2
    have hw : wtGet t = 1 := by rw [wtGet_get hk, hst]; rfl
    refine ⟨dropTask_nodup id hn, ?_, ?_, d2⟩
    · show gW (A.dropTask s.tasks id) + 0 ≤ _; omega
    · intro h
      have h : gW (A.dropTask s.tasks id) + 0 = gW s.tasks := h
      omega
  | err t q k r hf ha hst hk h1 h2 =>
    obtain ⟨_, d2⟩ := dropTask_le s.tasks id
    have d1 := dropTask_get (A.find_task hf).1 (A.find_task hf).2
    have hw : wtGet t = 1 := by rw [wtGet_get hk, hst]; rfl
    refine ⟨dropTask_nodup id hn, ?_, ?_, d2⟩
    · show gW (A.dropTask s.tasks id) + 0 ≤ _; omega
    · intro h
      have h : gW (A.dropTask s.tasks id) + 0 = gW s.tasks := h
      omega
  | putOk t bs hf ha hst hk =>
    obtain ⟨d1, d2⟩ := dropTask_le s.tasks id
    exact ⟨dropTask_nodup id hn, d1, fun _ => ⟨rfl, rfl⟩, d2⟩
  | putFail t bs r hf ha hst hk h1 =>
    obtain ⟨d1, d2⟩ := dropTask_le s.tasks id
    exact ⟨dropTask_nodup id hn, d1, fun _ => ⟨rfl, rfl⟩, d2⟩

theorem callGets_append (a b : List Out) : callGets (a ++ b) = callGets a ++ callGets b := by
  simp [callGets]
theorem callPuts_append (a b : List Out) : callPuts (a ++ b) = callPuts a ++ callPuts b := by
  simp [callPuts]

theorem pollTasks_cons (s : Client.State) (seq id : Nat) (ids : List Nat) :
    Client.pollTasks s seq (id :: ids) =
      ((Client.pollTasks (Client.pollTask s seq id).1 (Client.pollTask s seq id).2.1 ids).1,
       (Client.pollTasks (Client.pollTask s seq id).1 (Client.pollTask s seq id).2.1 ids).2.1,
       (Client.pollTask s seq id).2.2 ++
         (Client.pollTasks (Client.pollTask s seq id).1 (Client.pollTask s seq id).2.1 ids).2.2) := rfl

theorem pollTasks_wt (ids : List Nat) : ∀ (s : Client.State) (seq : Nat), (s.tasks.map (·.id)).Nodup →
    gW (Client.pollTasks s seq ids).1.tasks + (callGets (Client.pollTasks s seq ids).2.2).length ≤ gW s.tasks ∧
    (gW (Client.pollTasks s seq ids).1.tasks + (callGets (Client.pollTasks s seq ids).2.2).length = gW s.tasks →
      (Client.pollTasks s seq ids).1.wantlist = s.wantlist ∧ (Client.pollTasks s seq ids).1.peers = s.peers) ∧
    pW (Client.pollTasks s seq ids).1.tasks + (callPuts (Client.pollTasks s seq ids).2.2).length ≤ pW s.tasks := by
  induction ids with
  | nil => intro s seq _; exact ⟨Nat.le_refl _, fun _ => ⟨rfl, rfl⟩, Nat.le_refl _⟩
  | cons id ids ih =>
    intro s seq hn
    obtain ⟨a0, a1, a2, a3⟩ := pollTask_wt s seq id hn
    obtain ⟨b1, b2, b3⟩ := ih (Client.pollTask s seq id).1 (Client.pollTask s seq id).2.1 a0
    rw [pollTasks_cons]
    simp only [callGets_append, callPuts_append, List.length_append]
    refine ⟨by omega, ?_, by omega⟩
    intro h
    obtain ⟨c1, c2⟩ := a2 (by omega)
    obtain ⟨e1, e2⟩ := b2 (by omega)
    exact ⟨e1.trans c1, e2.trans c2⟩

/-- the task phase of a drain -/
theorem afterTasks_wt (c : Client.State) (now seq : Nat) (hn : (c.tasks.map (·.id)).Nodup) :
    gW (ClientView.afterTasks c now seq).1.tasks + (callGets (ClientView.afterTasks c now seq).2.2).length
      ≤ gW c.tasks ∧
    (gW (ClientView.afterTasks c now seq).1.tasks + (callGets (ClientView.afterTasks c now seq).2.2).length
        = gW c.tasks →
      (ClientView.afterTasks c now seq).1.wantlist = c.wantlist ∧
      ∀ p : Nat, (ClientView.afterTasks c now seq).1.peers[p]? =
        (c.peers[p]?).map (fun ps => ({ ps with sendFull := ps.sendFull || decide (c.deadline ≤ now) } : PeerSt))) ∧
    pW (ClientView.afterTasks c now seq).1.tasks + (callPuts (ClientView.afterTasks c now seq).2.2).length
      ≤ pW c.tasks := by
  unfold ClientView.afterTasks
  obtain ⟨r1, r2, r3, r4⟩ := A.refresh_fields { c with queue := [] } now
  dsimp only
  obtain ⟨b1, b2, b3⟩ := pollTasks_wt (ClientView.refresh { c with queue := [] } now).runq
    { ClientView.refresh { c with queue := [] } now with runq := [] } seq (by
      show ((ClientView.refresh { c with queue := [] } now).tasks.map (·.id)).Nodup
      rw [r1]; exact hn)
  have e : ({ ClientView.refresh { c with queue := [] } now with runq := [] } : Client.State).tasks = c.tasks := r1
  rw [e] at b1 b2 b3
  refine ⟨b1, ?_, b3⟩
  intro h
  obtain ⟨c1, c2⟩ := b2 h
  refine ⟨c1.trans (ClientView.refresh_wantlist _ _), ?_⟩
  intro p
  rw [c2]
  exact ClientView.refresh_peers { c with queue := [] } now p

end Beetswap.Proofs.Net.PA
