import Beetswap.Proofs.NetDefs
/-!
The canonical fair schedule `round` / `settle` as a composition of phases, and closure of
step-invariant predicates under it.
-/
namespace Beetswap.Proofs.Net
open Std Beetswap.Net Beetswap.Wl

/-! ### Running the canonical schedule -/

def phLookupA (s : State) : State := s.callsA.foldl (fun s c => step s (.lookupA c.1)) s
def phPutDone (s : State) : State := s.putsA.foldl (fun s c => step s (.putDoneA c)) s
def phDeliverAB (s : State) : State := s.wireAB.foldl (fun s _ => step s .deliverAB) s
def phLookupB (s : State) : State := s.callsB.foldl (fun s c => step s (.lookupB c.1)) s
def phDeliverBA (s : State) : State := s.wireBA.foldl (fun s _ => step s .deliverBA) s

/-- the part of a round after its first `drainA` -/
def roundTail (s : State) : State :=
  step (phDeliverBA (step (phLookupB (step (phDeliverAB (step (phPutDone (phLookupA s)) .drainA)) .drainB))
    .drainB)) .drainA

theorem round_eq (s : State) : round s = roundTail (step s .drainA) := rfl

section closure
variable (P : State → Prop) (hP : ∀ s act, act.internal = true → P s → P (step s act))
include hP

theorem fold_closed {α : Type} (l : List α) (f : α → Act) (hf : ∀ a, (f a).internal = true) (s : State)
    (h : P s) : P (l.foldl (fun s a => step s (f a)) s) := by
  induction l generalizing s with
  | nil => exact h
  | cons a l ih => exact ih _ (hP s (f a) (hf a) h)

theorem roundTail_closed (s : State) (h : P s) : P (roundTail s) := by
  have h1 : P (phLookupA s) := fold_closed P hP s.callsA (fun (c : Nat × Nat) => Act.lookupA c.1) (fun _ => rfl) _ h
  have h2 : P (phPutDone (phLookupA s)) := fold_closed P hP _ (fun c => Act.putDoneA c) (fun _ => rfl) _ h1
  have h3 := hP _ .drainA rfl h2
  have h4 : P (phDeliverAB _) := fold_closed P hP _ (fun _ => Act.deliverAB) (fun _ => rfl) _ h3
  have h5 := hP _ .drainB rfl h4
  have h6 : P (phLookupB _) := fold_closed P hP _ (fun (c : Nat × Nat) => Act.lookupB c.1) (fun _ => rfl) _ h5
  have h7 := hP _ .drainB rfl h6
  have h8 : P (phDeliverBA _) := fold_closed P hP _ (fun _ => Act.deliverBA) (fun _ => rfl) _ h7
  exact hP _ .drainA rfl h8

theorem round_closed (s : State) (h : P s) : P (round s) := by
  rw [round_eq]; exact roundTail_closed P hP _ (hP s .drainA rfl h)

theorem settle_closed (n : Nat) (s : State) (h : P s) : P (settle n s) := by
  induction n generalizing s with
  | zero => exact h
  | succ n ih =>
    unfold settle
    split
    · exact h
    · exact ih _ (round_closed P hP s h)

end closure

end Beetswap.Proofs.Net
