import Beetswap.Spec.ClientSpec
import Beetswap.Proofs.ClientQueryMap
/-!
Counting lemmas for the three components of `presence`, and the invariant `QInv`.
-/
namespace Beetswap.Proofs.ClientQuery
open Std Beetswap.Client Beetswap.Wl Beetswap.Spec.ClientSpec

/-- number of live lookups for `q` -/
def lv (tasks : List Task) (q : Nat) : Nat := (tasks.filter (isLiveGet q)).length
/-- number of waiter slots of `q` -/
def wsum (w : KMap (List Nat)) (q : Nat) : Nat := msum (fun qs => qs.count q) w

theorem presence_eq (s : State) (q : Nat) :
    presence s q = lv s.tasks q + wsum s.waiters q + eventsFor s.queue q := rfl

/-! ### events -/

theorem eventsFor_nil (q : Nat) : eventsFor [] q = 0 := rfl

theorem eventsFor_append (a b : List Out) (q : Nat) :
    eventsFor (a ++ b) q = eventsFor a q + eventsFor b q := by
  simp [eventsFor]

theorem eventsFor_resp (q' d q : Nat) : eventsFor [Out.resp q' d] q = if q' = q then 1 else 0 := by
  by_cases h : q' = q <;> simp [eventsFor, aboutQuery, h]

theorem eventsFor_err (q' d q : Nat) : eventsFor [Out.err q' d] q = if q' = q then 1 else 0 := by
  by_cases h : q' = q <;> simp [eventsFor, aboutQuery, h]

theorem eventsFor_map_resp (qs : List Nat) (d q : Nat) :
    eventsFor (qs.map (fun q => Out.resp q d)) q = qs.count q := by
  induction qs with
  | nil => rfl
  | cons a as ih =>
    have := eventsFor_append [Out.resp a d] (as.map (fun q => Out.resp q d)) q
    simp only [List.singleton_append] at this
    rw [List.map_cons, this, ih, eventsFor_resp, List.count_cons]
    by_cases h : a = q <;> simp [h] <;> omega

theorem eventsFor_eq_zero (l : List Out) (q : Nat) (h : ∀ o ∈ l, aboutQuery q o = false) :
    eventsFor l q = 0 := by
  simp only [eventsFor, List.length_eq_zero_iff, List.filter_eq_nil_iff]
  intro o ho; simp [h o ho]

/-! ### waiters -/

theorem wsum_empty (q : Nat) : wsum ∅ q = 0 := msum_empty _

theorem wsum_erase (w : KMap (List Nat)) (k q : Nat) :
    wsum (w.erase k) q + ((w[k]?).getD []).count q = wsum w q := by
  have := msum_erase (fun qs => qs.count q) w k
  unfold wsum
  cases h : w[k]? <;> simp [h] at this ⊢ <;> omega

theorem wsum_insert (w : KMap (List Nat)) (k : Nat) (v : List Nat) (q : Nat) :
    wsum (w.insert k v) q + ((w[k]?).getD []).count q = wsum w q + v.count q := by
  have h1 := wsum_erase w k q
  have h2 := msum_insert (fun qs => qs.count q) w k v
  unfold wsum at *
  omega

theorem count_le_wsum (w : KMap (List Nat)) (k : Nat) (qs : List Nat) (q : Nat)
    (h : w[k]? = some qs) : qs.count q ≤ wsum w q :=
  le_msum (fun qs => qs.count q) w k qs h

theorem wsum_eq_zero_iff (w : KMap (List Nat)) (q : Nat) :
    wsum w q = 0 ↔ ∀ (k : Nat) (qs : List Nat), w[k]? = some qs → q ∉ qs := by
  unfold wsum
  rw [msum_eq_zero_iff]
  simp [List.count_eq_zero]

/-! ### tasks -/

theorem lv_nil (q : Nat) : lv [] q = 0 := rfl

theorem lv_append (a b : List Task) (q : Nat) : lv (a ++ b) q = lv a q + lv b q := by
  simp [lv]

theorem lv_single (t : Task) (q : Nat) : lv [t] q = if isLiveGet q t then 1 else 0 := by
  cases h : isLiveGet q t <;> simp [lv, h]

theorem lv_map_congr (ts : List Task) (f : Task → Task) (q : Nat)
    (h : ∀ t ∈ ts, isLiveGet q (f t) = isLiveGet q t) : lv (ts.map f) q = lv ts q := by
  induction ts with
  | nil => rfl
  | cons a as ih =>
    have e1 : a :: as = [a] ++ as := rfl
    rw [List.map_cons, e1, lv_append, ← ih (fun t ht => h t (by simp [ht]))]
    have e2 : f a :: as.map f = [f a] ++ as.map f := rfl
    rw [e2, lv_append, lv_single, lv_single, h a (by simp)]

theorem lv_filter_le (ts : List Task) (p : Task → Bool) (q : Nat) : lv (ts.filter p) q ≤ lv ts q := by
  unfold lv
  exact (List.filter_sublist.filter (isLiveGet q)).length_le

theorem lv_pos_of_mem (ts : List Task) (t : Task) (q : Nat) (ht : t ∈ ts) (hl : isLiveGet q t = true) :
    0 < lv ts q := by
  unfold lv
  apply List.length_pos_of_mem (a := t)
  simp [ht, hl]

theorem lv_eq_zero_iff (ts : List Task) (q : Nat) :
    lv ts q = 0 ↔ ∀ t ∈ ts, isLiveGet q t = false := by
  simp [lv, List.filter_eq_nil_iff]

theorem lv_filter_lt (ts : List Task) (p : Task → Bool) (q : Nat) (t : Task) (ht : t ∈ ts)
    (hl : isLiveGet q t = true) (hp : p t = false) : lv (ts.filter p) q < lv ts q := by
  induction ts with
  | nil => cases ht
  | cons a as ih =>
    have e1 : a :: as = [a] ++ as := rfl
    rw [e1, List.filter_append, lv_append, lv_append]
    rcases List.mem_cons.1 ht with rfl | hmem
    · have : lv (List.filter p [t]) q = 0 := by simp [List.filter, hp, lv]
      have h2 := lv_filter_le as p q
      rw [this, lv_single, hl]; simp; omega
    · have := ih hmem
      have h2 := lv_filter_le [a] p q
      omega

theorem isLiveGet_iff (q : Nat) (t : Task) :
    isLiveGet q t = true ↔ t.aborted = false ∧ ∃ k, t.kind = TaskKind.get q k := by
  unfold isLiveGet
  cases t.kind with
  | get q' k => by_cases h : q' = q <;> simp [h]
  | put bs => simp

theorem uniq_of_nodup (ts : List Task) (h : (ts.map (·.id)).Nodup) (a b : Task) (ha : a ∈ ts)
    (hb : b ∈ ts) (hab : a.id = b.id) : a = b := by
  induction ts with
  | nil => cases ha
  | cons c cs ih =>
    simp only [List.map_cons, List.nodup_cons, List.mem_map, not_exists, not_and] at h
    rcases List.mem_cons.1 ha with rfl | ha' <;> rcases List.mem_cons.1 hb with rfl | hb'
    · rfl
    · exact absurd hab.symm (h.1 b hb')
    · exact absurd hab (h.1 a ha')
    · exact ih h.2 ha' hb'

/-! ### The invariant -/

structure QInv (s : State) (outs : List Out) : Prop where
  bound : ∀ q, eventsFor outs q + presence s q ≤ 1
  issued : ∀ q, 0 < eventsFor outs q + presence s q → q < s.nextQuery
  ids_nodup : (s.tasks.map (·.id)).Nodup
  ids_lt : ∀ t ∈ s.tasks, t.id < s.nextTask
  abort_task : ∀ (q tid : Nat), s.abort[q]? = some tid →
    ∃ t ∈ s.tasks, t.id = tid ∧ isLiveGet q t = true
  task_abort : ∀ t ∈ s.tasks, ∀ q, isLiveGet q t = true → s.abort[q]? = some t.id
  want_iff : ∀ k : Nat, k ∈ s.wantlist.cids ↔ ∃ qs, s.waiters[k]? = some qs ∧ qs ≠ []
  nonempty : ∀ (k : Nat) (qs : List Nat), s.waiters[k]? = some qs → qs ≠ []
  queue_ev : ∀ o ∈ s.queue, ∃ q, aboutQuery q o = true

theorem QInv.of_eq {s s' : State} {outs : List Out} (h : QInv s outs)
    (h1 : s'.queue = s.queue) (h2 : s'.wantlist.cids = s.wantlist.cids)
    (h3 : s'.waiters = s.waiters) (h4 : s'.tasks = s.tasks) (h5 : s'.abort = s.abort)
    (h6 : s'.nextQuery = s.nextQuery) (h7 : s'.nextTask = s.nextTask) : QInv s' outs := by
  constructor
  · simpa [presence, h1, h3, h4] using h.bound
  · simpa [presence, h1, h3, h4, h6] using h.issued
  · simpa [h4] using h.ids_nodup
  · simpa [h4, h7] using h.ids_lt
  · simpa [h4, h5] using h.abort_task
  · simpa [h4, h5] using h.task_abort
  · simpa [h2, h3] using h.want_iff
  · simpa [h3] using h.nonempty
  · simpa [h1] using h.queue_ev

theorem QInv.init : QInv {} [] := by
  constructor
  · intro q; simp [presence_eq, eventsFor_nil, lv_nil, wsum_empty]
  · intro q; simp [presence_eq, eventsFor_nil, lv_nil, wsum_empty]
  · simp
  · simp
  · simp
  · simp
  · simp
  · simp
  · simp

/-- If `q` was not issued yet the state does not know it. -/
theorem QInv.fresh {s : State} {outs : List Out} (h : QInv s outs) (q : Nat) (hq : s.nextQuery ≤ q) :
    eventsFor outs q = 0 ∧ lv s.tasks q = 0 ∧ wsum s.waiters q = 0 ∧ eventsFor s.queue q = 0 := by
  have := h.issued q
  rw [presence_eq] at this
  omega

end Beetswap.Proofs.ClientQuery
