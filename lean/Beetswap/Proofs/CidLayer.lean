import Beetswap.Model.Incoming
import Beetswap.Model.Builder
import Beetswap.Proofs.CodecVarint
/-!
Proofs for the CID layer: C12 (prefixes), C19 (size conversion), C18 (hasher table), C16 / C01
(message classification), C08 (no panic in this layer), C20 (protocol name).
The statements are used by `Props/` and must keep these exact statements.
-/
namespace Beetswap.Proofs.CidLayer
open Beetswap Beetswap.Cid Beetswap.Incoming Beetswap.Proto Beetswap.Builder

/-- The values a `u64` field / a multihash can hold. -/
def Cid.Sized (c : Cid) : Prop :=
  c.codec < 2 ^ 64 ∧ c.hash.code < 2 ^ 64 ∧ c.hash.digest.length ≤ 255

/-- A hasher answers with the code it was asked for, and sha2-256 digests have 32 bytes.
(True of `multihash_codetable`; a registered hasher violating it can only hurt locally.) -/
def HasherSane (H : Hasher) : Prop :=
  ∀ code data mh, H code data = HashRes.ok mh →
    mh.code = code ∧ (code = SHA2_256 → mh.digest.length = 32)

/-! ### C12 -/

/-- `CidGeneric::new` on the parts of a well-formed CID gives it back. -/
theorem new_self (c : Cid) (h : c.WF) : Cid.new c.version c.codec c.hash = some c := by
  obtain ⟨version, codec, hash⟩ := c
  obtain ⟨hv, h0⟩ := h
  simp only at hv h0
  rcases hv with rfl | rfl
  · obtain ⟨rfl, h1, h2⟩ := h0 rfl
    simp [Cid.new, h1, h2]
  · simp [Cid.new]

/-- What `CidGeneric::new` returns. -/
theorem new_eq_some {v codec : Nat} {mh : Multihash} {c : Cid} (h : Cid.new v codec mh = some c) :
    c.hash = mh ∧ c.version = (if v = 0 then 0 else 1) ∧ (v ≠ 0 → c.codec = codec) := by
  unfold Cid.new at h
  split at h
  · next hv =>
    split at h
    · cases h
    · split at h
      · cases h
      · cases h; simp [hv]
  · next hv => cases h; simp [hv]

/-- What `to_cid` returns when it returns a CID. -/
theorem toCid_ok {S : Nat} {H : Hasher} {p : CidPrefix} {data : List Nat} {c : Cid}
    (h : p.toCid S H data = ToCidRes.ok c) :
    H p.mhCode data = HashRes.ok c.hash ∧ c.version = (if p.version = 0 then 0 else 1)
      ∧ (p.version ≠ 0 → c.codec = p.codec) := by
  unfold CidPrefix.toCid at h
  split at h
  · cases h
  · split at h
    · next mh hH =>
      split at h
      · next c' hnew =>
        cases h
        obtain ⟨e1, e2, e3⟩ := new_eq_some hnew
        rw [hH, e1]
        exact ⟨rfl, e2, e3⟩
      · cases h
    all_goals cases h

theorem fromBytes_v1 (codec code n : Nat) (rest : List Nat) (s1 : codec < 2 ^ 64)
    (s2 : code < 2 ^ 64) (hl : n < 2 ^ 64) :
    CidPrefix.fromBytes (Varint.enc 1 ++ (Varint.enc codec ++ (Varint.enc code ++ (Varint.enc n ++ rest))))
      = some ⟨1, codec, code, n⟩ := by
  unfold CidPrefix.fromBytes
  rw [Codec.dec_enc 1 (by decide)]
  dsimp only
  rw [Codec.dec_enc codec s1]
  dsimp only
  rw [if_neg (by simp [SHA2_256]), if_neg (by omega)]
  rw [Codec.dec_enc code s2]
  dsimp only
  rw [Codec.dec_enc n hl]
  dsimp only
  rw [if_neg (by simp)]

theorem fromBytes_naked (rest : List Nat) :
    CidPrefix.fromBytes (Varint.enc SHA2_256 ++ (Varint.enc SHA2_256_SIZE ++ rest))
      = some ⟨0, DAG_PB, SHA2_256, SHA2_256_SIZE⟩ := by
  unfold CidPrefix.fromBytes
  rw [Codec.dec_enc _ (by decide)]
  dsimp only
  rw [Codec.dec_enc _ (by decide)]
  dsimp only
  rw [if_pos ⟨rfl, rfl⟩]

/-- The prefix derived from a CID, serialised and parsed back, is unchanged (whatever follows). -/
theorem prefix_bytes_roundtrip (c : Cid) (h : c.WF) (hs : Cid.Sized c) (rest : List Nat) :
    CidPrefix.fromBytes ((CidPrefix.fromCid c).toBytes ++ rest) = some (CidPrefix.fromCid c) := by
  obtain ⟨version, codec, ⟨code, digest⟩⟩ := c
  obtain ⟨hv, h0⟩ := h
  obtain ⟨s1, s2, s3⟩ := hs
  simp only at hv h0 s1 s2 s3
  rcases hv with rfl | rfl
  · obtain ⟨rfl, rfl, h2⟩ := h0 rfl
    simp only [CidPrefix.fromCid, CidPrefix.toBytes, if_true, List.append_assoc, h2]
    exact fromBytes_naked rest
  · have hl : digest.length < 2 ^ 64 := by omega
    simp only [CidPrefix.fromCid, CidPrefix.toBytes, List.append_assoc]
    rw [if_neg (by decide)]
    simp only [List.append_assoc]
    exact fromBytes_v1 codec code digest.length rest s1 s2 hl

/-- Rebuilding a CID from its prefix and a byte string yields the original CID exactly when the
byte string hashes to the CID's digest. -/
theorem tocid_iff_hash (S : Nat) (H : Hasher) (c : Cid) (h : c.WF) (hfit : c.hash.digest.length ≤ S)
    (data : List Nat) :
    (CidPrefix.fromCid c).toCid S H data = ToCidRes.ok c ↔ H c.hash.code data = HashRes.ok c.hash := by
  have hsz : ¬ (CidPrefix.fromCid c).mhSize > S := by simp [CidPrefix.fromCid]; omega
  constructor
  · intro h'
    have := (toCid_ok h').1
    simpa [CidPrefix.fromCid] using this
  · intro hH
    unfold CidPrefix.toCid
    rw [if_neg hsz]
    simp only [CidPrefix.fromCid, hH, new_self c h]

/-- A prefix that declares a digest longer than the configured maximum is rejected, not truncated. -/
theorem oversize_rejected (S : Nat) (H : Hasher) (p : CidPrefix) (data : List Nat)
    (h : p.mhSize > S) : p.toCid S H data = ToCidRes.size := by
  simp [CidPrefix.toCid, h]

/-- Different CIDs (up to the digest) have different prefix bytes. -/
theorem prefix_injective (c₁ c₂ : Cid) (h₁ : c₁.WF) (h₂ : c₂.WF) (s₁ : Cid.Sized c₁) (s₂ : Cid.Sized c₂)
    (h : (CidPrefix.fromCid c₁).toBytes = (CidPrefix.fromCid c₂).toBytes) :
    CidPrefix.fromCid c₁ = CidPrefix.fromCid c₂ := by
  have r₁ := prefix_bytes_roundtrip c₁ h₁ s₁ []
  have r₂ := prefix_bytes_roundtrip c₂ h₂ s₂ []
  rw [h, r₂] at r₁
  exact (Option.some.inj r₁).symm

/-- Whatever CID `to_cid` returns is recomputed from the data: its digest is the hasher's
answer for the prefix's hash code, its version and codec are the prefix's. -/
theorem tocid_recomputes (S : Nat) (H : Hasher) (p : CidPrefix) (data : List Nat) (c : Cid)
    (h : p.toCid S H data = ToCidRes.ok c) :
    H p.mhCode data = HashRes.ok c.hash ∧ c.version = (if p.version = 0 then 0 else 1)
      ∧ (p.version ≠ 0 → c.codec = p.codec) := by
  exact toCid_ok h

/-! ### C19 -/

theorem convert_multihash_iff (T : Nat) (mh mh' : Multihash) :
    convertMultihash T mh = some mh' ↔ (mh.digest.length ≤ T ∧ mh' = mh) := by
  unfold convertMultihash
  split
  · next hle => simp [hle, eq_comm]
  · next hgt => simp; intro hle; exact absurd hle hgt

/-- `convert_cid` returns the same CID (version, codec, hash code, digest) whenever the digest
fits the target size, and `none` exactly when it does not. -/
theorem convert_cid_iff (T : Nat) (c c' : Cid) (h : c.WF) :
    convertCid T c = some c' ↔ (c.hash.digest.length ≤ T ∧ c' = c) := by
  unfold convertCid convertMultihash
  split
  · next h' heq =>
    split at heq
    · next hle =>
      cases heq
      rw [new_self c h]
      simp [hle, eq_comm]
    · cases heq
  · next heq =>
    split at heq
    · cases heq
    · next hgt => simp; intro hle; exact absurd hle hgt

theorem convert_cid_none_iff (T : Nat) (c : Cid) (h : c.WF) :
    convertCid T c = none ↔ T < c.hash.digest.length := by
  cases hc : convertCid T c with
  | none =>
    simp only [true_iff]
    apply Nat.lt_of_not_le
    intro hle
    have := (convert_cid_iff T c c h).2 ⟨hle, rfl⟩
    rw [hc] at this; cases this
  | some c' =>
    have := ((convert_cid_iff T c c' h).1 hc).1
    simp; omega

/-- Converting back yields the original. -/
theorem convert_back (S T : Nat) (c c' : Cid) (h : c.WF) (hS : c.hash.digest.length ≤ S)
    (hc : convertCid T c = some c') : convertCid S c' = some c := by
  obtain ⟨_, rfl⟩ := (convert_cid_iff T c c' h).1 hc
  exact (convert_cid_iff S c' c' h).2 ⟨hS, rfl⟩

/-! ### C18 -/

/-- The most recently registered hasher that does not answer unknown-code wins. -/
theorem first_non_unknown_wins (pre post : List Hasher) (h : Hasher) (code : Nat) (data : List Nat)
    (hpre : ∀ g ∈ pre, g code data = HashRes.unknown) (hh : h code data ≠ HashRes.unknown) :
    tableHash (pre ++ h :: post) code data = h code data := by
  induction pre with
  | nil =>
    simp only [List.nil_append, tableHash]
  | cons g t ih =>
    have hg := hpre g (by simp)
    simp only [List.cons_append, tableHash, hg]
    exact ih (fun g' hg' => hpre g' (by simp [hg']))

theorem all_unknown (table : List Hasher) (code : Nat) (data : List Nat)
    (h : ∀ g ∈ table, g code data = HashRes.unknown) : tableHash table code data = HashRes.unknown := by
  induction table with
  | nil => rfl
  | cons g t ih =>
    have hg := h g (by simp)
    simp only [tableHash, hg]
    exact ih (fun g' hg' => h g' (by simp [hg']))

/-- Registration puts the new hasher in front: it is consulted first, the older ones (and the
built-in table, registered first of all) only if it answers unknown-code. -/
theorem register_consulted_first (table : List Hasher) (h : Hasher) (code : Nat) (data : List Nat) :
    tableHash (tableRegister table h) code data =
      (if h code data = HashRes.unknown then tableHash table code data else h code data) := by
  simp only [tableRegister, tableHash]
  split
  · next heq => simp [heq]
  · next hne => rw [if_neg hne]

/-- The built-in table is consulted last: only when every registered hasher answers unknown-code. -/
theorem builtin_last (customs : List Hasher) (builtin : Hasher) (code : Nat) (data : List Nat) :
    tableHash (customs ++ [builtin]) code data =
      (if ∀ g ∈ customs, g code data = HashRes.unknown then builtin code data
       else tableHash customs code data) := by
  induction customs with
  | nil =>
    simp only [List.nil_append, tableHash]
    split
    · next heq => simp [heq]
    · simp
  | cons g t ih =>
    simp only [List.cons_append, tableHash]
    split
    · next heq =>
      rw [ih]
      simp [heq]
    · next hne =>
      rw [if_neg]
      intro hall
      exact hne (hall g (by simp))

/-! ### C16 / C01: message classification -/

/-- Every parsed prefix with version 0 describes a CIDv0. -/
theorem fromBytes_v0 {bs : List Nat} {p : CidPrefix} (h : CidPrefix.fromBytes bs = some p) :
    p.version = 0 → p.codec = DAG_PB ∧ p.mhCode = SHA2_256 := by
  unfold CidPrefix.fromBytes at h
  split at h
  · split at h
    · split at h
      · cases h; intro _; exact ⟨rfl, rfl⟩
      · split at h
        · cases h
        · split at h
          · split at h
            · split at h
              · cases h
              · next hn =>
                cases h
                intro hv
                simp only at hv
                simp only [hv, true_and, Decidable.not_not] at hn
                exact ⟨hn.1, hn.2.1⟩
            · cases h
          · cases h
    · cases h
  · cases h

/-- `to_cid` reaches the `expect` only for a version-0 prefix that is not a CIDv0 prefix, or when
the hasher answers with a different code or a digest that is not 32 bytes long. -/
theorem toCid_panic {S : Nat} {H : Hasher} {p : CidPrefix} {data : List Nat}
    (h : p.toCid S H data = ToCidRes.panic) :
    ∃ mh, H p.mhCode data = HashRes.ok mh ∧ p.version = 0 ∧
      (p.codec ≠ DAG_PB ∨ mh.code ≠ SHA2_256 ∨ mh.digest.length ≠ 32) := by
  unfold CidPrefix.toCid at h
  split at h
  · cases h
  · split at h
    · next mh hH =>
      refine ⟨mh, hH, ?_⟩
      split at h
      · cases h
      · next hnew =>
        unfold Cid.new at hnew
        split at hnew
        · next hv =>
          refine ⟨hv, ?_⟩
          split at hnew
          · next hc => exact Or.inl hc
          · split at hnew
            · next hm => exact Or.inr hm
            · cases hnew
        · cases hnew
    all_goals cases h

theorem prefix_no_panic_aux {S : Nat} {H : Hasher} (hH : HasherSane H) {bs data : List Nat}
    {p : CidPrefix} (h : CidPrefix.fromBytes bs = some p) (hp : p.toCid S H data = ToCidRes.panic) :
    False := by
  obtain ⟨mh, hmh, hv, hbad⟩ := toCid_panic hp
  obtain ⟨hc, hm⟩ := fromBytes_v0 h hv
  obtain ⟨e1, e2⟩ := hH _ _ _ hmh
  rw [hm] at e1
  rcases hbad with hb | hb | hb
  · exact hb hc
  · exact hb e1
  · exact hb (e2 hm)


section InsertKV
variable {V : Type}

theorem mem_insertKV_self (l : List (Cid × V)) (k : Cid) (v : V) : (k, v) ∈ insertKV l k v := by
  simp [insertKV]

theorem mem_insertKV_of_ne {l : List (Cid × V)} {k k' : Cid} {v v' : V}
    (h : (k', v') ∈ l) (hne : k' ≠ k) : (k', v') ∈ insertKV l k v := by
  simp [insertKV, h, hne]

theorem mem_insertKV {l : List (Cid × V)} {k : Cid} {v : V} {x : Cid × V}
    (h : x ∈ insertKV l k v) : x = (k, v) ∨ x ∈ l := by
  simp only [insertKV, List.mem_append, List.mem_filter, List.mem_singleton] at h
  rcases h with h | h
  · exact Or.inr h.1
  · exact Or.inl h

theorem key_insertKV {l : List (Cid × V)} {k k' : Cid} (v : V)
    (h : ∃ v', (k', v') ∈ l) : ∃ v', (k', v') ∈ insertKV l k v := by
  obtain ⟨v', hv'⟩ := h
  by_cases hk : k' = k
  · subst hk; exact ⟨v, mem_insertKV_self l k' v⟩
  · exact ⟨v', mem_insertKV_of_ne hv' hk⟩

end InsertKV

theorem processPresences_cons (parse : List Nat → Option Cid) (p : Presence) (ps : List Presence)
    (acc : IncomingMessage) :
    processPresences parse (p :: ps) acc =
      match parse p.cid with
      | none => none
      | some c =>
        processPresences parse ps
          { client := some { presences := insertKV (clientOf acc).presences c p.type,
                             blocks := (clientOf acc).blocks },
            server := acc.server } := by
  rw [processPresences]
  rfl

/-- Presences leave the blocks and the server part alone. -/
theorem processPresences_frame (parse : List Nat → Option Cid) (ps : List Presence) :
    ∀ (acc m : IncomingMessage), processPresences parse ps acc = some m →
      (clientOf m).blocks = (clientOf acc).blocks ∧ m.server = acc.server := by
  induction ps with
  | nil => intro acc m h; simp only [processPresences] at h; cases h; exact ⟨rfl, rfl⟩
  | cons p ps ih =>
    intro acc m h
    rw [processPresences_cons] at h
    split at h
    · cases h
    · exact ih _ _ h |>.imp id id

theorem processPresences_none (parse : List Nat → Option Cid) (ps : List Presence) (p : Presence)
    (hp : p ∈ ps) (hbad : parse p.cid = none) :
    ∀ acc, processPresences parse ps acc = none := by
  induction ps with
  | nil => cases hp
  | cons q qs ih =>
    intro acc
    rw [processPresences_cons]
    rcases List.mem_cons.1 hp with rfl | hp'
    · rw [hbad]
    · split
      · rfl
      · exact ih hp' _

theorem processPresences_keys (parse : List Nat → Option Cid) (ps : List Presence) :
    ∀ (acc m : IncomingMessage), processPresences parse ps acc = some m →
      (∀ c, (∃ t, (c, t) ∈ (clientOf acc).presences) → ∃ t, (c, t) ∈ (clientOf m).presences) ∧
      (∀ pr ∈ ps, ∀ c, parse pr.cid = some c → ∃ t, (c, t) ∈ (clientOf m).presences) := by
  induction ps with
  | nil =>
    intro acc m h; simp only [processPresences] at h; cases h
    exact ⟨fun _ h => h, fun _ h => by cases h⟩
  | cons p ps ih =>
    intro acc m h
    rw [processPresences_cons] at h
    split at h
    · cases h
    · next c hc =>
      obtain ⟨ih1, ih2⟩ := ih _ _ h
      refine ⟨fun c' hc' => ih1 c' (key_insertKV _ hc'), ?_⟩
      intro pr hpr c' hc'
      rcases List.mem_cons.1 hpr with rfl | hpr'
      · rw [hc] at hc'; cases hc'
        exact ih1 c ⟨_, mem_insertKV_self _ _ _⟩
      · exact ih2 pr hpr' c' hc'

theorem processBlocks_cons (S : Nat) (H : Hasher) (b : Block) (bs : List Block) (acc : IncomingMessage) :
    processBlocks S H (b :: bs) acc =
      match CidPrefix.fromBytes b.pfx with
      | none => .fatal
      | some pfx =>
        match pfx.toCid S H b.data with
        | .ok c =>
          processBlocks S H bs
            { client := some { presences := (clientOf acc).presences,
                               blocks := insertKV (clientOf acc).blocks c b.data },
              server := acc.server }
        | .unknown => processBlocks S H bs acc
        | .custom => processBlocks S H bs acc
        | .size => .fatal
        | .fatal => .fatal
        | .panic => .panic := by
  rw [processBlocks]
  rfl

/-- Blocks leave the presences and the server part alone. -/
theorem processBlocks_frame (S : Nat) (H : Hasher) (bs : List Block) :
    ∀ (acc m : IncomingMessage), processBlocks S H bs acc = .ok m →
      (clientOf m).presences = (clientOf acc).presences ∧ m.server = acc.server := by
  induction bs with
  | nil => intro acc m h; simp only [processBlocks] at h; cases h; exact ⟨rfl, rfl⟩
  | cons b bs ih =>
    intro acc m h
    rw [processBlocks_cons] at h
    split at h
    · cases h
    · split at h
      · exact ih _ _ h |>.imp id id
      · exact ih _ _ h
      · exact ih _ _ h
      all_goals cases h

theorem processBlocks_keys (S : Nat) (H : Hasher) (bs : List Block) :
    ∀ (acc m : IncomingMessage), processBlocks S H bs acc = .ok m →
      (∀ c, (∃ d, (c, d) ∈ (clientOf acc).blocks) → ∃ d, (c, d) ∈ (clientOf m).blocks) ∧
      (∀ b ∈ bs, ∀ p c, CidPrefix.fromBytes b.pfx = some p → p.toCid S H b.data = ToCidRes.ok c →
        ∃ d, (c, d) ∈ (clientOf m).blocks) := by
  induction bs with
  | nil =>
    intro acc m h; simp only [processBlocks] at h; cases h
    exact ⟨fun _ h => h, fun _ h => by cases h⟩
  | cons b bs ih =>
    intro acc m h
    rw [processBlocks_cons] at h
    split at h
    · cases h
    · next pfx hpfx =>
      split at h
      · next c hc =>
        obtain ⟨ih1, ih2⟩ := ih _ _ h
        refine ⟨fun c' hc' => ih1 c' (key_insertKV _ hc'), ?_⟩
        intro b' hb' p c' hp hc'
        rcases List.mem_cons.1 hb' with rfl | hb''
        · rw [hpfx] at hp; cases hp
          rw [hc] at hc'; cases hc'
          exact ih1 c ⟨_, mem_insertKV_self _ _ _⟩
        · exact ih2 b' hb'' p c' hp hc'
      · next hc =>
        obtain ⟨ih1, ih2⟩ := ih _ _ h
        refine ⟨ih1, ?_⟩
        intro b' hb' p c' hp hc'
        rcases List.mem_cons.1 hb' with rfl | hb''
        · rw [hpfx] at hp; cases hp
          rw [hc] at hc'; cases hc'
        · exact ih2 b' hb'' p c' hp hc'
      · next hc =>
        obtain ⟨ih1, ih2⟩ := ih _ _ h
        refine ⟨ih1, ?_⟩
        intro b' hb' p c' hp hc'
        rcases List.mem_cons.1 hb' with rfl | hb''
        · rw [hpfx] at hp; cases hp
          rw [hc] at hc'; cases hc'
        · exact ih2 b' hb'' p c' hp hc'
      all_goals cases h

/-- Every block of the result was there before or is keyed by the CID recomputed from a block of
the payload. -/
theorem processBlocks_src (S : Nat) (H : Hasher) (bs : List Block) :
    ∀ (acc m : IncomingMessage), processBlocks S H bs acc = .ok m →
      ∀ c d, (c, d) ∈ (clientOf m).blocks → (c, d) ∈ (clientOf acc).blocks ∨
        ∃ b ∈ bs, b.data = d ∧ ∃ p, CidPrefix.fromBytes b.pfx = some p ∧
          p.toCid S H d = ToCidRes.ok c := by
  induction bs with
  | nil =>
    intro acc m h; simp only [processBlocks] at h; cases h
    exact fun _ _ h => Or.inl h
  | cons b bs ih =>
    intro acc m h c d hcd
    rw [processBlocks_cons] at h
    have lift : (∃ b' ∈ bs, b'.data = d ∧ ∃ p, CidPrefix.fromBytes b'.pfx = some p ∧
          p.toCid S H d = ToCidRes.ok c) → ∃ b' ∈ b :: bs, b'.data = d ∧ ∃ p,
          CidPrefix.fromBytes b'.pfx = some p ∧ p.toCid S H d = ToCidRes.ok c := by
      rintro ⟨b', hb', rest⟩
      exact ⟨b', List.mem_cons_of_mem _ hb', rest⟩
    split at h
    · cases h
    · next pfx hpfx =>
      split at h
      · next c0 hc0 =>
        rcases ih _ _ h c d hcd with h1 | h1
        · rcases mem_insertKV h1 with h2 | h2
          · cases h2
            exact Or.inr ⟨b, List.mem_cons_self, rfl, pfx, hpfx, hc0⟩
          · exact Or.inl h2
        · exact Or.inr (lift h1)
      · rcases ih _ _ h c d hcd with h1 | h1
        · exact Or.inl h1
        · exact Or.inr (lift h1)
      · rcases ih _ _ h c d hcd with h1 | h1
        · exact Or.inl h1
        · exact Or.inr (lift h1)
      all_goals cases h

theorem processBlocks_no_panic (S : Nat) (H : Hasher) (hH : HasherSane H) (bs : List Block) :
    ∀ acc, processBlocks S H bs acc ≠ ProcRes.panic := by
  induction bs with
  | nil => intro acc h; simp only [processBlocks] at h; cases h
  | cons b bs ih =>
    intro acc h
    rw [processBlocks_cons] at h
    split at h
    · cases h
    · next pfx hpfx =>
      split at h
      · exact ih _ h
      · exact ih _ h
      · exact ih _ h
      · cases h
      · cases h
      · next hp => exact prefix_no_panic_aux hH hpfx hp

/-- What `process_message` returns, in terms of the two passes. -/
theorem processMessage_ok {S : Nat} {H : Hasher} {parse : List Nat → Option Cid} {msg : Message}
    {m : IncomingMessage} (h : processMessage S H parse msg = ProcRes.ok m) :
    ∃ a1 a2, processPresences parse msg.presences {} = some a1 ∧
      processBlocks S H msg.payload a1 = .ok a2 ∧ m.client = a2.client ∧
      (∀ w, msg.wantlist = some w → (w.full = true ∨ w.entries ≠ []) → m.server = some w) := by
  unfold processMessage at h
  split at h
  · cases h
  · next a1 h1 =>
    split at h
    · cases h
    · cases h
    · next a2 h2 =>
      refine ⟨a1, a2, h1, h2, ?_⟩
      split at h
      · next w hw =>
        split at h
        · cases h
          refine ⟨rfl, ?_⟩
          intro w' hw' _
          rw [hw] at hw'; cases hw'; rfl
        · next hcond =>
          cases h
          refine ⟨rfl, ?_⟩
          intro w' hw' hne
          rw [hw] at hw'; cases hw'
          exfalso; apply hcond
          rcases hne with hf | he
          · simp [hf]
          · cases hE : w.entries with
            | nil => exact absurd hE he
            | cons => simp
      · next hw =>
        cases h
        refine ⟨rfl, ?_⟩
        intro w' hw'
        rw [hw] at hw'; cases hw'

/-- A block whose hash code is unknown to every hasher, or whose hasher reports a non-fatal
error, is skipped: the rest of the message is processed as if the block were not there. -/
theorem skip_keeps_rest (S : Nat) (H : Hasher) (b : Block) (bs : List Block) (acc : IncomingMessage)
    (p : CidPrefix) (hp : CidPrefix.fromBytes b.pfx = some p)
    (hs : p.toCid S H b.data = ToCidRes.unknown ∨ p.toCid S H b.data = ToCidRes.custom) :
    processBlocks S H (b :: bs) acc = processBlocks S H bs acc := by
  rw [processBlocks_cons, hp]
  rcases hs with hs | hs <;> simp only [hs]

/-- An unparsable block prefix, an oversize declared digest or a fatal hasher error drops the
whole message and ends the stream. -/
theorem bad_block_fatal (S : Nat) (H : Hasher) (b : Block) (bs : List Block) (acc : IncomingMessage)
    (h : CidPrefix.fromBytes b.pfx = none ∨
         ∃ p, CidPrefix.fromBytes b.pfx = some p ∧
           (p.toCid S H b.data = ToCidRes.size ∨ p.toCid S H b.data = ToCidRes.fatal)) :
    processBlocks S H (b :: bs) acc = ProcRes.fatal := by
  rw [processBlocks_cons]
  rcases h with h | ⟨p, hp, h | h⟩
  · simp only [h]
  · simp only [hp, h]
  · simp only [hp, h]

/-- An invalid CID in a block presence drops the whole message and ends the stream. -/
theorem bad_presence_fatal (S : Nat) (H : Hasher) (parse : List Nat → Option Cid) (msg : Message)
    (p : Presence) (hp : p ∈ msg.presences) (hbad : parse p.cid = none) :
    processMessage S H parse msg = ProcRes.fatal := by
  unfold processMessage
  rw [processPresences_none parse msg.presences p hp hbad]

/-- A message carrying both a wantlist and blocks / presences has both parts applied. -/
theorem both_halves_applied (S : Nat) (H : Hasher) (parse : List Nat → Option Cid) (msg : Message)
    (m : IncomingMessage) (h : processMessage S H parse msg = ProcRes.ok m) (w : Wantlist)
    (hw : msg.wantlist = some w) (hne : w.full = true ∨ w.entries ≠ []) :
    m.server = some w ∧
    (∀ b ∈ msg.payload, ∀ p c, CidPrefix.fromBytes b.pfx = some p → p.toCid S H b.data = ToCidRes.ok c →
        ∃ d, (c, d) ∈ (clientOf m).blocks) ∧
    (∀ pr ∈ msg.presences, ∀ c, parse pr.cid = some c → ∃ t, (c, t) ∈ (clientOf m).presences) := by
  obtain ⟨a1, a2, h1, h2, hcl, hsv⟩ := processMessage_ok h
  have hco : clientOf m = clientOf a2 := by simp [clientOf, hcl]
  refine ⟨hsv w hw hne, ?_, ?_⟩
  · rw [hco]; exact (processBlocks_keys S H msg.payload a1 a2 h2).2
  · rw [hco, (processBlocks_frame S H msg.payload a1 a2 h2).1]
    exact (processPresences_keys parse msg.presences _ a1 h1).2

/-- C01: every block handed on is keyed by the CID recomputed from its own bytes: never by an
identifier the peer supplied. -/
theorem block_key_recomputed (S : Nat) (H : Hasher) (parse : List Nat → Option Cid) (msg : Message)
    (m : IncomingMessage) (h : processMessage S H parse msg = ProcRes.ok m) (c : Cid) (d : List Nat)
    (hb : (c, d) ∈ (clientOf m).blocks) :
    ∃ b ∈ msg.payload, b.data = d ∧ ∃ p, CidPrefix.fromBytes b.pfx = some p ∧ p.toCid S H d = ToCidRes.ok c := by
  obtain ⟨a1, a2, h1, h2, hcl, _⟩ := processMessage_ok h
  have hco : clientOf m = clientOf a2 := by simp [clientOf, hcl]
  rw [hco] at hb
  rcases processBlocks_src S H msg.payload a1 a2 h2 c d hb with h3 | h3
  · rw [(processPresences_frame parse msg.presences _ a1 h1).1] at h3
    simp [clientOf] at h3
  · exact h3

/-- C01: … so the data's multihash, computed with the hash function named in the CID, is the
CID's digest. -/
theorem block_hash_matches (S : Nat) (H : Hasher) (hH : HasherSane H) (parse : List Nat → Option Cid)
    (msg : Message) (m : IncomingMessage) (h : processMessage S H parse msg = ProcRes.ok m)
    (c : Cid) (d : List Nat) (hb : (c, d) ∈ (clientOf m).blocks) :
    H c.hash.code d = HashRes.ok c.hash := by
  obtain ⟨b, _, _, p, hp, hc⟩ := block_key_recomputed S H parse msg m h c d hb
  obtain ⟨e1, _, _⟩ := toCid_ok hc
  have := (hH _ _ _ e1).1
  rw [this]; exact e1

/-- Messages of one stream are delivered in order until the first fatal one; what was delivered
earlier stays delivered. -/
def deliver (S : Nat) (H : Hasher) (parse : List Nat → Option Cid) : List Message → List IncomingMessage
  | [] => []
  | m :: ms =>
    match processMessage S H parse m with
    | .ok im => (if im.client.isSome || im.server.isSome then [im] else []) ++ deliver S H parse ms
    | _ => []

theorem earlier_stay_applied (S : Nat) (H : Hasher) (parse : List Nat → Option Cid)
    (good : List Message) (bad : Message) (later : List Message)
    (hg : ∀ m ∈ good, ∃ im, processMessage S H parse m = ProcRes.ok im)
    (hb : processMessage S H parse bad = ProcRes.fatal) :
    deliver S H parse (good ++ bad :: later) = deliver S H parse good := by
  induction good with
  | nil => simp [deliver, hb]
  | cons g gs ih =>
    obtain ⟨im, him⟩ := hg g (by simp)
    simp only [List.cons_append, deliver, him]
    rw [ih (fun m hm => hg m (by simp [hm]))]

/-! ### C08 in this layer -/

/-- No byte string makes `from_bytes` + `to_cid` reach the `expect`. -/
theorem prefix_no_panic (S : Nat) (H : Hasher) (hH : HasherSane H) (bs data : List Nat) (p : CidPrefix)
    (h : CidPrefix.fromBytes bs = some p) : p.toCid S H data ≠ ToCidRes.panic := by
  exact fun hp => prefix_no_panic_aux hH h hp

theorem process_message_no_panic (S : Nat) (H : Hasher) (hH : HasherSane H)
    (parse : List Nat → Option Cid) (msg : Message) :
    processMessage S H parse msg ≠ ProcRes.panic := by
  unfold processMessage
  split
  · intro h; cases h
  · next a1 _ =>
    split
    · intro h; cases h
    · next hp => exact absurd hp (processBlocks_no_panic S H hH msg.payload a1)
    · split
      · split <;> (intro h; cases h)
      · intro h; cases h

/-! ### C20 -/

/-- The builder accepts a protocol prefix exactly when it begins with '/'. -/
theorem accept_iff_leading_slash (p : List Char) : acceptPrefix p = true ↔ ∃ t, p = '/' :: t := by
  cases p with
  | nil => simp [acceptPrefix]
  | cons a t => simp [acceptPrefix]

theorem rejected_iff (p : List Char) : build (some p) = BuildRes.rejected ↔ acceptPrefix p = false := by
  cases hacc : acceptPrefix p
  · simp [build, hacc]
  · simp only [build, hacc, if_true]
    split <;> simp

/-- Building never panics, and the protocol is prefix + "/ipfs/bitswap/1.2.0". -/
theorem accepted_never_panics (p : List Char) (h : acceptPrefix p = true) :
    build (some p) = BuildRes.built (p ++ protocolSuffix) := by
  obtain ⟨t, rfl⟩ := (accept_iff_leading_slash p).1 h
  simp [build, h, streamProtocol, tryStreamProtocol]

theorem unprefixed_builds : build none = BuildRes.built protocolSuffix := by
  rfl

/-- Different prefixes give different protocol names (so multistream-select, which matches
protocol names exactly, keeps the networks apart); equal prefixes give equal names. -/
theorem name_injective (p₁ p₂ : List Char) (h : p₁ ++ protocolSuffix = p₂ ++ protocolSuffix) : p₁ = p₂ := by
  exact List.append_cancel_right h

end Beetswap.Proofs.CidLayer
