import Beetswap.Proofs.ClientViewInv
/-!
The `msg` operation: pointwise effect of `incoming` on the model, of `recordMsg` on the history
variables, and preservation of `PeerInv`.
-/
namespace Beetswap.Proofs.ClientView
open Std Beetswap.Client Beetswap.Wl Beetswap.Spec.ClientSpec

/-! ### ghost folds of `recordMsg` -/

theorem ghost_haves_fold (hs : List Nat) (g : Ghost) :
    let g' := hs.foldl (fun g k => { g with haveOk := g.haveOk.insert k, dh := g.dh.erase k }) g
    g'.told = g.told ∧ g'.deliv = g.deliv ∧
    (∀ k, k ∈ g'.haveOk ↔ k ∈ g.haveOk ∨ k ∈ hs) ∧
    (∀ k, k ∈ g'.dh ↔ k ∈ g.dh ∧ k ∉ hs) := by
  induction hs generalizing g with
  | nil => simp
  | cons a as ih =>
    obtain ⟨i1, i2, i3, i4⟩ := ih { g with haveOk := g.haveOk.insert a, dh := g.dh.erase a }
    simp only [List.foldl_cons]
    refine ⟨i1, i2, ?_, ?_⟩
    · intro k; rw [i3 k]; simp only [kset_mem_insert, List.mem_cons]
      constructor
      · rintro ((h | h) | h)
        · exact .inr (.inl h)
        · exact .inl h
        · exact .inr (.inr h)
      · rintro (h | h | h)
        · exact .inl (.inr h)
        · exact .inl (.inl h)
        · exact .inr h
    · intro k; rw [i4 k]; simp only [kset_mem_erase, List.mem_cons, not_or]
      constructor
      · rintro ⟨⟨h1, h2⟩, h3⟩; exact ⟨h2, h1, h3⟩
      · rintro ⟨h2, h1, h3⟩; exact ⟨⟨h1, h2⟩, h3⟩

theorem ghost_dontHaves_fold (he : Nat → Bool) (ds : List Nat) (g : Ghost) :
    let g' := ds.foldl (fun g k =>
      { g with haveOk := g.haveOk.erase k, dh := if he k then g.dh.insert k else g.dh }) g
    g'.told = g.told ∧ g'.deliv = g.deliv ∧
    (∀ k, k ∈ g'.haveOk ↔ k ∈ g.haveOk ∧ k ∉ ds) ∧
    (∀ k, k ∈ g'.dh ↔ k ∈ g.dh ∨ (k ∈ ds ∧ he k = true)) := by
  induction ds generalizing g with
  | nil => simp
  | cons a as ih =>
    obtain ⟨i1, i2, i3, i4⟩ := ih { g with haveOk := g.haveOk.erase a, dh := if he a then g.dh.insert a else g.dh }
    simp only [List.foldl_cons]
    refine ⟨i1, i2, ?_, ?_⟩
    · intro k; rw [i3 k]; simp only [kset_mem_erase, List.mem_cons, not_or]
      constructor
      · rintro ⟨⟨h1, h2⟩, h3⟩; exact ⟨h2, h1, h3⟩
      · rintro ⟨h2, h1, h3⟩; exact ⟨⟨h1, h2⟩, h3⟩
    · intro k; rw [i4 k]; simp only [List.mem_cons]
      by_cases ha : he a = true
      · simp only [ha, if_true, kset_mem_insert]
        constructor
        · rintro ((h | h) | h)
          · exact .inr ⟨.inl h, h ▸ ha⟩
          · exact .inl h
          · exact .inr ⟨.inr h.1, h.2⟩
        · rintro (h | ⟨h | h, h'⟩)
          · exact .inl (.inr h)
          · exact .inl (.inl h)
          · exact .inr ⟨h, h'⟩
      · simp only [ha, Bool.false_eq_true, if_false]
        constructor
        · rintro (h | h)
          · exact .inl h
          · exact .inr ⟨.inr h.1, h.2⟩
        · rintro (h | ⟨h | h, h'⟩)
          · exact .inl h
          · exact absurd (h ▸ h') ha
          · exact .inr ⟨h, h'⟩

theorem ghost_blocks_fold (wanted : Nat → Bool) (bs : List (Nat × Nat)) (g : Ghost) :
    let g' := bs.foldl (fun g kd =>
      { g with deliv := g.deliv.insert kd.1, dh := if wanted kd.1 then g.dh.erase kd.1 else g.dh }) g
    g'.told = g.told ∧ g'.haveOk = g.haveOk ∧
    (∀ k, k ∈ g'.deliv ↔ k ∈ g.deliv ∨ k ∈ bs.map (·.1)) ∧
    (∀ k, k ∈ g'.dh ↔ k ∈ g.dh ∧ ¬ (k ∈ bs.map (·.1) ∧ wanted k = true)) := by
  induction bs generalizing g with
  | nil => simp
  | cons b bs ih =>
    obtain ⟨i1, i2, i3, i4⟩ := ih { g with deliv := g.deliv.insert b.1, dh := if wanted b.1 then g.dh.erase b.1 else g.dh }
    simp only [List.foldl_cons]
    refine ⟨i1, i2, ?_, ?_⟩
    · intro k; rw [i3 k]; simp only [kset_mem_insert, List.map_cons, List.mem_cons]
      constructor
      · rintro ((h | h) | h)
        · exact .inr (.inl h)
        · exact .inl h
        · exact .inr (.inr h)
      · rintro (h | h | h)
        · exact .inl (.inr h)
        · exact .inl (.inl h)
        · exact .inr h
    · intro k; rw [i4 k]; simp only [List.map_cons, List.mem_cons]
      by_cases ha : wanted b.1 = true
      · simp only [ha, if_true, kset_mem_erase]
        constructor
        · rintro ⟨⟨h1, h2⟩, h3⟩
          refine ⟨h2, ?_⟩
          rintro ⟨h | h, h'⟩
          · exact h1 h
          · exact h3 ⟨h, h'⟩
        · rintro ⟨h2, h3⟩
          refine ⟨⟨?_, h2⟩, fun h => h3 ⟨.inr h.1, h.2⟩⟩
          intro e; exact h3 ⟨.inl e, e ▸ ha⟩
      · simp only [ha, Bool.false_eq_true, if_false]
        constructor
        · rintro ⟨h2, h3⟩
          refine ⟨h2, ?_⟩
          rintro ⟨h | h, h'⟩
          · exact ha (h ▸ h')
          · exact h3 ⟨h, h'⟩
        · rintro ⟨h2, h3⟩
          exact ⟨h2, fun h => h3 ⟨.inr h.1, h.2⟩⟩

theorem recordMsg_told (g : Ghost) (he wanted : Nat → Bool) (hs ds : List Nat) (bs : List (Nat × Nat)) :
    (g.recordMsg he wanted hs ds bs).told = g.told := by
  unfold Ghost.recordMsg
  rw [(ghost_blocks_fold wanted bs _).1, (ghost_dontHaves_fold he ds _).1, (ghost_haves_fold hs g).1]

theorem recordMsg_deliv (g : Ghost) (he wanted : Nat → Bool) (hs ds : List Nat) (bs : List (Nat × Nat)) (k : Nat) :
    k ∈ (g.recordMsg he wanted hs ds bs).deliv ↔ k ∈ g.deliv ∨ k ∈ bs.map (·.1) := by
  unfold Ghost.recordMsg
  rw [(ghost_blocks_fold wanted bs _).2.2.1, (ghost_dontHaves_fold he ds _).2.1, (ghost_haves_fold hs g).2.1]

theorem recordMsg_haveOk (g : Ghost) (he wanted : Nat → Bool) (hs ds : List Nat) (bs : List (Nat × Nat)) (k : Nat) :
    k ∈ (g.recordMsg he wanted hs ds bs).haveOk ↔ (k ∈ g.haveOk ∨ k ∈ hs) ∧ k ∉ ds := by
  unfold Ghost.recordMsg
  rw [(ghost_blocks_fold wanted bs _).2.1, (ghost_dontHaves_fold he ds _).2.2.1, (ghost_haves_fold hs g).2.2.1]

theorem recordMsg_dh (g : Ghost) (he wanted : Nat → Bool) (hs ds : List Nat) (bs : List (Nat × Nat)) (k : Nat) :
    k ∈ (g.recordMsg he wanted hs ds bs).dh ↔
      ((k ∈ g.dh ∧ k ∉ hs) ∨ (k ∈ ds ∧ he k = true)) ∧ ¬ (k ∈ bs.map (·.1) ∧ wanted k = true) := by
  unfold Ghost.recordMsg
  rw [(ghost_blocks_fold wanted bs _).2.2.2, (ghost_dontHaves_fold he ds _).2.2.2, (ghost_haves_fold hs g).2.2.2]


set_option linter.unusedSimpArgs false in
set_option maxHeartbeats 4000000 in
theorem peerInv_msg {s s' : State} {ps ps' : PeerSt} {g : Ghost} (h : PeerInv s ps g)
    (hs ds : List Nat) (bs : List (Nat × Nat))
    (hc : ∀ j, j ∈ s'.wantlist.cids ↔ j ∈ s.wantlist.cids ∧ j ∉ bs.map (·.1))
    (hrev : s'.wantlist = s.wantlist ∨ s.wantlist.revision < s'.wantlist.revision)
    (hsync : ps'.wl.synced = ps.wl.synced)
    (hforce : ps'.wl.force = (ps.wl.force || !hs.isEmpty))
    (hreq : ∀ j, ps'.wl.req[j]? =
      if j ∈ bs.map (·.1) ∧ j ∈ s.wantlist.cids then (ps.wl.req[j]?).map (fun _ => Req.gotBlock)
      else if j ∈ ds then (ps.wl.req[j]?).map (fun _ => Req.gotDontHave)
      else if j ∈ hs then (ps.wl.req[j]?).map (fun _ => Req.gotHave)
      else ps.wl.req[j]?) :
    PeerInv s' ps' (g.recordMsg (fun k => decide (k ∈ ps.wl.req)) (fun k => decide (k ∈ s.wantlist.cids)) hs ds bs) := by
  obtain ⟨h1, h2, h3, h4, h5, h6, h7, h8, h9⟩ := h
  constructor
  case synced_le => rw [hsync]; rcases hrev with e | e; rw [e]; exact h9; omega
  case synced_keys =>
    rw [hsync]
    rcases hrev with e | e
    · rw [e]
      intro he k
      rw [← h8 he k, kmap_mem_iff, kmap_mem_iff, hreq]
      rcases ps.wl.req[k]? with _ | r <;> repeat' split
      all_goals simp
    · intro he; omega
  all_goals
    (intro k
     have := h1 k; have := h2 k; have := h3 k; have := h4 k; have := h5 k; have := h6 k; have := h7 k
     have hne : k ∈ hs → hs.isEmpty = false := by
       intro hk; cases hs; cases hk; rfl
     clear h1 h2 h3 h4 h5 h6 h7 h8 h9
     simp only [hreq, hc, hforce, recordMsg_told, recordMsg_deliv, recordMsg_haveOk, recordMsg_dh,
       decide_eq_true_eq, kmap_mem_iff]
     by_cases c1 : k ∈ bs.map (·.1) <;> by_cases c2 : k ∈ s.wantlist.cids <;>
     by_cases c3 : k ∈ ds <;> by_cases c4 : k ∈ hs <;>
     rcases hr : ps.wl.req[k]? with _ | r <;> (try cases r) <;> simp_all)


/-! ### model folds of `incoming` -/

theorem modifyReq_get' (req : KMap Req) (a : Nat) (r : Req) (k : Nat) :
    (modifyReq req a r)[k]? = if k = a then (req[k]?).map (fun _ => r) else req[k]? := by
  rw [modifyReq_get]
  by_cases h : k = a
  · subst h
    rcases hr : req[k]? with _ | r0
    · have : k ∉ req := (kmap_not_mem_iff _ _).2 hr
      simp [this]
    · have : k ∈ req := (kmap_mem_iff _ _).2 ⟨_, hr⟩
      simp [this]
  · simp [h]

theorem modifyReq_fold (l : List Nat) (r : Req) (req : KMap Req) (k : Nat) :
    (l.foldl (fun m a => modifyReq m a r) req)[k]? =
      if k ∈ l then (req[k]?).map (fun _ => r) else req[k]? := by
  induction l generalizing req with
  | nil => simp
  | cons a as ih =>
    simp only [List.foldl_cons, ih, modifyReq_get', List.mem_cons]
    by_cases h2 : k = a <;> by_cases h3 : k ∈ as <;> rcases req[k]? with _ | r0 <;> simp [h2, h3]

theorem gotHave_fold (hs : List Nat) (wl : WState) :
    hs.foldl (fun w k => w.gotHave k) wl =
      { wl with req := hs.foldl (fun m a => modifyReq m a .gotHave) wl.req,
                force := wl.force || !hs.isEmpty } := by
  induction hs generalizing wl with
  | nil => simp
  | cons a as ih => simp only [List.foldl_cons]; rw [ih]; simp [WState.gotHave]

theorem gotDontHave_fold (ds : List Nat) (wl : WState) :
    ds.foldl (fun w k => w.gotDontHave k) wl =
      { wl with req := ds.foldl (fun m a => modifyReq m a .gotDontHave) wl.req } := by
  induction ds generalizing wl with
  | nil => simp
  | cons a as ih => simp only [List.foldl_cons]; rw [ih]; simp [WState.gotDontHave]

/-- effect of accepting the blocks with keys `bkeys` from peer `p` -/
structure BlockRel (p : Nat) (bkeys : List Nat) (s s' : State) : Prop where
  cids : ∀ j, j ∈ s'.wantlist.cids ↔ j ∈ s.wantlist.cids ∧ j ∉ bkeys
  rev : s'.wantlist = s.wantlist ∨ s.wantlist.revision < s'.wantlist.revision
  others : ∀ q, q ≠ p → s'.peers[q]? = s.peers[q]?
  peer : ∀ ps, s.peers[p]? = some ps → ∃ ps', s'.peers[p]? = some ps' ∧ ps'.conns = ps.conns ∧
    ps'.sending = ps.sending ∧ ps'.sendFull = ps.sendFull ∧ ps'.wl.force = ps.wl.force ∧
    ps'.wl.synced = ps.wl.synced ∧
    ∀ j, ps'.wl.req[j]? = if j ∈ bkeys ∧ j ∈ s.wantlist.cids then (ps.wl.req[j]?).map (fun _ => Req.gotBlock)
      else ps.wl.req[j]?
  queue : ∀ q c m, Out.send q c m ∈ s'.queue → Out.send q c m ∈ s.queue

theorem BlockRel.refl (p : Nat) (s : State) : BlockRel p [] s s := by
  constructor
  · simp
  · exact .inl rfl
  · intros; rfl
  · intro ps h; exact ⟨ps, h, rfl, rfl, rfl, rfl, rfl, by simp⟩
  · intros; assumption

theorem BlockRel.trans {p : Nat} {l1 l2 : List Nat} {s s1 s2 : State}
    (h1 : BlockRel p l1 s s1) (h2 : BlockRel p l2 s1 s2) : BlockRel p (l1 ++ l2) s s2 := by
  constructor
  · intro j; rw [h2.cids, h1.cids]; simp only [List.mem_append, not_or]; exact and_assoc
  · rcases h1.rev with e1 | e1 <;> rcases h2.rev with e2 | e2
    · exact .inl (e2.trans e1)
    · right; rw [← e1]; exact e2
    · right; rw [e2]; exact e1
    · right; omega
  · intro q hq; rw [h2.others q hq, h1.others q hq]
  · intro ps hps
    obtain ⟨ps1, a1, a2, a3, a4, a5, a6, a7⟩ := h1.peer ps hps
    obtain ⟨ps2, b1, b2, b3, b4, b5, b6, b7⟩ := h2.peer ps1 a1
    refine ⟨ps2, b1, b2.trans a2, b3.trans a3, b4.trans a4, b5.trans a5, b6.trans a6, ?_⟩
    intro j
    rw [b7 j, a7 j]
    have := h1.cids j
    simp only [List.mem_append]
    by_cases c1 : j ∈ l1 <;> by_cases c2 : j ∈ l2 <;> by_cases c3 : j ∈ s.wantlist.cids <;>
      rcases ps.wl.req[j]? with _ | r <;> simp_all
  · intro q c m hm; exact h1.queue q c m (h2.queue q c m hm)

theorem applyBlock_wanted (s : State) (p k d : Nat) (acc : List (Nat × Nat)) (hk : k ∈ s.wantlist.cids) :
    (applyBlock s p k d acc).1 =
      { s with wantlist := (s.wantlist.remove k).1,
               peers := (match s.peers[p]? with
                 | some ps => s.peers.insert p { ps with wl := ps.wl.gotBlock k }
                 | none => s.peers),
               waiters := s.waiters.erase k,
               queue := s.queue ++ (s.waiters[k]?.getD []).map (fun q => Out.resp q d) } := by
  unfold applyBlock
  simp only [remove_snd, hk, decide_true, Bool.not_true, Bool.false_eq_true, if_false]
  cases s.peers[p]? <;> rfl

theorem applyBlock_unwanted (s : State) (p k d : Nat) (acc : List (Nat × Nat)) (hk : k ∉ s.wantlist.cids) :
    applyBlock s p k d acc = (s, acc) := by
  simp [applyBlock, remove_snd, hk]

theorem applyBlock_rel (s : State) (p k d : Nat) (acc : List (Nat × Nat)) :
    BlockRel p [k] s (applyBlock s p k d acc).1 := by
  by_cases hk : k ∈ s.wantlist.cids
  · rw [applyBlock_wanted s p k d acc hk]
    constructor
    · intro j; simp only [remove_cids, List.mem_singleton]; exact and_comm
    · right; simp [remove_revision, hk]
    · intro q hq
      dsimp only
      split
      · simp [kmap_get_insert, hq]
      · rfl
    · intro ps hps
      simp only [hps]
      refine ⟨{ ps with wl := ps.wl.gotBlock k }, by simp only [kmap_get_insert, if_true], rfl, rfl, rfl, rfl, rfl, ?_⟩
      intro j
      simp only [WState.gotBlock, modifyReq_get', List.mem_singleton]
      by_cases hj : j = k
      · subst hj; simp [hk]
      · simp [hj]
    · intro q c m
      simp only [List.mem_append, List.mem_map]
      rintro (h | ⟨_, _, h⟩)
      · exact h
      · cases h
  · rw [applyBlock_unwanted s p k d acc hk]
    constructor
    · intro j; simp only [List.mem_singleton]
      constructor
      · intro h; exact ⟨h, fun e => hk (e ▸ h)⟩
      · exact fun h => h.1
    · exact .inl rfl
    · intros; rfl
    · intro ps h; exact ⟨ps, h, rfl, rfl, rfl, rfl, rfl, by simp [hk]⟩
    · intros; assumption

theorem blocks_fold_rel (p : Nat) (blocks : List (Nat × Nat)) (s : State) (acc : List (Nat × Nat)) :
    BlockRel p (blocks.map (·.1)) s
      (blocks.foldl (fun (acc : State × List (Nat × Nat)) kd => applyBlock acc.1 p kd.1 kd.2 acc.2) (s, acc)).1 := by
  induction blocks generalizing s acc with
  | nil => exact BlockRel.refl p s
  | cons b bs ih =>
    simp only [List.foldl_cons, List.map_cons]
    have h1 := applyBlock_rel s p b.1 b.2 acc
    have h2 := ih (applyBlock s p b.1 b.2 acc).1 (applyBlock s p b.1 b.2 acc).2
    exact h1.trans h2



theorem incoming_none (s : State) (p : Nat) (hs ds : List Nat) (bs : List (Nat × Nat))
    (hp : s.peers[p]? = none) : incoming s p hs ds bs = s := by
  simp [incoming, hp]

theorem incoming_rel (s : State) (p : Nat) (hs ds : List Nat) (bs : List (Nat × Nat)) (ps : PeerSt)
    (hp : s.peers[p]? = some ps) :
    (∀ j, j ∈ (incoming s p hs ds bs).wantlist.cids ↔ j ∈ s.wantlist.cids ∧ j ∉ bs.map (·.1)) ∧
    ((incoming s p hs ds bs).wantlist = s.wantlist ∨
      s.wantlist.revision < (incoming s p hs ds bs).wantlist.revision) ∧
    (∀ q, q ≠ p → (incoming s p hs ds bs).peers[q]? = s.peers[q]?) ∧
    (∃ ps', (incoming s p hs ds bs).peers[p]? = some ps' ∧ ps'.conns = ps.conns ∧
      ps'.wl.synced = ps.wl.synced ∧ ps'.wl.force = (ps.wl.force || !hs.isEmpty) ∧
      ∀ j, ps'.wl.req[j]? =
        if j ∈ bs.map (·.1) ∧ j ∈ s.wantlist.cids then (ps.wl.req[j]?).map (fun _ => Req.gotBlock)
        else if j ∈ ds then (ps.wl.req[j]?).map (fun _ => Req.gotDontHave)
        else if j ∈ hs then (ps.wl.req[j]?).map (fun _ => Req.gotHave)
        else ps.wl.req[j]?) ∧
    (∀ q c m, Out.send q c m ∈ (incoming s p hs ds bs).queue → Out.send q c m ∈ s.queue) := by
  let wl2 := ds.foldl (fun w k => w.gotDontHave k) (hs.foldl (fun w k => w.gotHave k) ps.wl)
  let s0 : State := { s with peers := s.peers.insert p { ps with wl := wl2 } }
  let F := bs.foldl (fun (acc : State × List (Nat × Nat)) kd => applyBlock acc.1 p kd.1 kd.2 acc.2) (s0, [])
  have hrel : BlockRel p (bs.map (·.1)) s0 F.1 := blocks_fold_rel p bs s0 []
  have hinc : (incoming s p hs ds bs).wantlist = F.1.wantlist ∧ (incoming s p hs ds bs).peers = F.1.peers
      ∧ (incoming s p hs ds bs).queue = F.1.queue := by
    simp only [incoming, hp]
    split <;> exact ⟨rfl, rfl, rfl⟩
  obtain ⟨e1, e2, e3⟩ := hinc
  rw [e1, e2, e3]
  have hp0 : s0.peers[p]? = some { ps with wl := wl2 } := by simp [s0]
  refine ⟨hrel.cids, hrel.rev, ?_, ?_, hrel.queue⟩
  · intro q hq; rw [hrel.others q hq]; simp [s0, kmap_get_insert, hq]
  · obtain ⟨ps', a1, a2, a3, a4, a5, a6, a7⟩ := hrel.peer _ hp0
    refine ⟨ps', a1, a2, ?_, ?_, ?_⟩
    · rw [a6]; simp [wl2, gotHave_fold, gotDontHave_fold]
    · rw [a5]; simp [wl2, gotHave_fold, gotDontHave_fold]
    · intro j
      rw [a7 j]
      simp only [wl2, gotHave_fold, gotDontHave_fold, modifyReq_fold]
      show (if j ∈ bs.map (·.1) ∧ j ∈ s.wantlist.cids then _ else _) = _
      by_cases c1 : j ∈ bs.map (·.1) ∧ j ∈ s.wantlist.cids <;> by_cases c3 : j ∈ ds <;>
        by_cases c4 : j ∈ hs <;> rcases ps.wl.req[j]? with _ | r <;> simp [c1, c3, c4]

end Beetswap.Proofs.ClientView
