import Beetswap.Proofs.CodecOverrun
/-!
Why `checked_never_overruns` needs `bs.length < 2 ^ 32`: a body of `2 ^ 32 + 7` bytes that passes
`checkNesting` and on which the parser model reaches `PRes.overrun`.

    0a <varint 2^32+1>            Message.wantlist, 2^32+1 bytes:
       0a 00                        Wantlist.entries, empty entry
       12 <varint 2^32-7> 00 …      unknown length-delimited field 2 with 2^32-7 zero bytes

`checkNesting` reads the length of the wantlist as a 64-bit varint and validates the whole
2^32+1 byte slice. quick-protobuf's `read_len_varint` uses `read_varint32`: the length becomes
`(2^32+1) % 2^32 = 1`, the nested reader for the wantlist gets the 1-byte slice `0a`, and the length
of the entry is read across the end of that slice.
-/
namespace Beetswap.Proofs.Codec
open Beetswap Beetswap.Proto Beetswap.Frame Beetswap.Spec.Wire Beetswap.Spec.Limit

@[irreducible] noncomputable def cexM : Nat := 2 ^ 32 - 7

theorem cexM_eq : cexM + 8 = 2 ^ 32 + 1 := by unfold cexM; decide

noncomputable def cexWantlist : List Nat :=
  [10, 0, 18] ++ (Varint.enc cexM ++ List.replicate cexM 0)

noncomputable def cexBody : List Nat := 10 :: (Varint.enc cexWantlist.length ++ cexWantlist)

theorem cex_enc_length : (Varint.enc cexM).length = 5 := by
  have h := cexM_eq
  have h1 := enc_length_le 4 cexM (by simp only [Nat.reducePow, Nat.reduceAdd] at h ⊢; omega)
  have h2 := enc_length_gt 4 cexM (by simp only [Nat.reducePow, Nat.reduceAdd] at h ⊢; omega)
  omega

theorem cexWantlist_length : cexWantlist.length = 2 ^ 32 + 1 := by
  unfold cexWantlist
  rw [List.length_append, List.length_append, List.length_replicate, cex_enc_length]
  have := cexM_eq
  show 3 + (5 + cexM) = 2 ^ 32 + 1
  omega

theorem cex_bytes : ∀ b ∈ cexBody, b < 256 := by
  have henc : ∀ (n : Nat), ∀ b ∈ Varint.enc n, b < 256 := by
    intro n
    induction n using Nat.strongRecOn with
    | _ n ih =>
      intro b hb
      by_cases hn : n < 128
      · rw [enc_lt hn] at hb; simp at hb; omega
      · rw [enc_ge hn] at hb
        simp only [List.mem_cons] at hb
        rcases hb with rfl | hb
        · omega
        · exact ih (n / 128) (by omega) b hb
  intro b hb
  simp only [cexBody, cexWantlist, List.mem_cons, List.mem_append, List.mem_replicate,
    List.not_mem_nil, or_false] at hb
  rcases hb with rfl | hb | (rfl | rfl | rfl) | hb | ⟨_, rfl⟩
  · omega
  · exact henc _ b hb
  · omega
  · omega
  · omega
  · exact henc _ b hb
  · omega

theorem cexWantlist_check (f : Nat) : checkNesting (f + 3) cexWantlist .wantlist = true := by
  have e : cexWantlist
      = Varint.enc 10 ++ (Varint.enc ([] : List Nat).length ++ ([] ++
          (Varint.enc 18 ++ (Varint.enc (List.replicate cexM 0).length
            ++ (List.replicate cexM 0 ++ []))))) := by
    simp [cexWantlist, enc_lt]
  rw [e, check_len_field (f + 2) 10 [] _ .wantlist (by omega) (by omega) (by simp),
    check_len_field (f + 1) 18 _ [] .wantlist (by omega) (by omega) (by have := cexM_eq; simp only [List.length_replicate]; omega)]
  simp [nestedOf, checkNesting_nil]

theorem cex_enc_length' : (Varint.enc (2 ^ 32 + 1)).length = 5 := by
  have h1 := enc_length_le 4 (2 ^ 32 + 1) (by decide)
  have h2 := enc_length_gt 4 (2 ^ 32 + 1) (by decide)
  omega

theorem cexBody_length : cexBody.length = 2 ^ 32 + 7 := by
  unfold cexBody
  rw [List.length_cons, List.length_append, cexWantlist_length, cex_enc_length']

theorem cexBody_check : checkNesting (cexBody.length + 1) cexBody .message = true := by
  have e : cexBody = Varint.enc 10 ++ (Varint.enc cexWantlist.length ++ (cexWantlist ++ [])) := by
    simp [cexBody, enc_lt]
  rw [cexBody_length]
  rw [e, check_len_field _ 10 cexWantlist [] .message (by omega) (by omega)
    (by rw [cexWantlist_length]; omega)]
  simp only [nestedOf, if_true]
  rw [show 2 ^ 32 + 7 = (2 ^ 32 + 4) + 3 by omega, cexWantlist_check]
  simp [checkNesting_nil]

theorem cexWantlist_overrun (rest : List Nat) :
    parseWantlist (cexWantlist ++ rest) 1 = .overrun := by
  simp [parseWantlist, wantlistLoop, cexWantlist, readNested, readVarint32,
    varint32Aux, u8]

/-- the mechanism, with all sizes symbolic -/
theorem messageLoop_truncated_length (pf n L : Nat) (content rest : List Nat)
    (hL : L < 2 ^ 64) (hmod : L % 2 ^ 32 = 1) (hn : 1 + (Varint.enc L).length + 1 ≤ n)
    (hc : 1 ≤ content.length) (hw : parseWantlist (content ++ rest) 1 = .overrun) :
    messageLoop (pf + 1) {} (10 :: (Varint.enc L ++ content) ++ rest) n = .overrun := by
  rw [messageLoop, if_neg (by omega), List.cons_append, List.append_assoc,
    readTag1 10 (by omega) _ _ (by omega)]
  simp only [if_true]
  rw [readNested, readVarint32_enc L hL _ _ (by omega), hmod]
  simp only
  rw [if_neg (by rw [List.length_append]; omega), if_neg (by omega), hw]

theorem cexBody_overrun (rest : List Nat) :
    parseMessage (cexBody ++ rest) cexBody.length = PRes.overrun := by
  rw [parseMessage]
  unfold cexBody
  have h5 := cex_enc_length'
  have hl := cexWantlist_length
  apply messageLoop_truncated_length
  · rw [hl]; decide
  · rw [hl]
  · rw [List.length_cons, List.length_append, hl]; omega
  · omega
  · exact cexWantlist_overrun rest

/-- `checked_never_overruns` is false without the size bound. -/
theorem checked_overruns_without_bound :
    ∃ bs rest : List Nat, (∀ b ∈ bs, b < 256)
      ∧ checkNesting (bs.length + 1) bs .message = true
      ∧ parseMessage (bs ++ rest) bs.length = PRes.overrun :=
  ⟨cexBody, [], cex_bytes, cexBody_check, cexBody_overrun []⟩

end Beetswap.Proofs.Codec
