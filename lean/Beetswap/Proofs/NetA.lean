import Beetswap.Proofs.NetCore
import Beetswap.Proofs.NetAStep
/-!
The requesting node `a` of the composition: `AInv` is inductive.
-/
namespace Beetswap.Proofs.Net
open Std Beetswap.Net Beetswap.Wl
open Beetswap.Client (PeerSt Sending StoreRes Out TaskSt TaskKind Sys sendFullInterval)
open Beetswap.Spec.ClientSpec (GSys Ghost gstep grun GInv)

/-! ### `absorbA` -/

def sendMsgs (outs : List Out) : List WlMsg :=
  outs.filterMap fun o => match o with | .send _ _ m => some m | _ => none
def respsOf (outs : List Out) : List (Nat × Nat) :=
  outs.filterMap fun o => match o with | .resp q d => some (q, d) | _ => none
def errsOf (outs : List Out) : List Nat :=
  outs.filterMap fun o => match o with | .err q _ => some q | _ => none
def callGets (outs : List Out) : List (Nat × Nat) :=
  outs.filterMap fun o => match o with | .callGet n k => some (n, k) | _ => none
def callPuts (outs : List Out) : List Nat :=
  outs.filterMap fun o => match o with | .callPut n _ => some n | _ => none

theorem absorbA_fields (outs : List Out) (s : State) :
    (absorbA s outs).wireAB = s.wireAB ++ sendMsgs outs ∧
    (absorbA s outs).answered = s.answered ++ respsOf outs ∧
    (absorbA s outs).errors = s.errors ++ errsOf outs ∧
    (absorbA s outs).callsA = s.callsA ++ callGets outs ∧
    (absorbA s outs).putsA = s.putsA ++ callPuts outs :=
  A.absorbA_eq outs s

/-! ### The task phase of a drain when no lookup of the user is pending -/

/-- With every `get` task aborted, the task phase of a drain adds no want, leaves the exchange
states alone and creates no `get` task. (Used for the `Clean` predicate.) -/
theorem afterTasks_noget (c : Client.State) (now seq : Nat)
    (h : ∀ t ∈ c.tasks, ∀ q k, t.kind = TaskKind.get q k → t.aborted = true) :
    (ClientView.afterTasks c now seq).1.wantlist = c.wantlist ∧
    (∀ p : Nat, ((ClientView.afterTasks c now seq).1.peers[p]?).map (·.wl) = (c.peers[p]?).map (·.wl)) ∧
    (∀ t ∈ (ClientView.afterTasks c now seq).1.tasks, ∀ q k, t.kind = TaskKind.get q k → t.aborted = true) :=
  A.afterTasks_noget' c now seq h

/-- `update_handlers` does not touch the tasks -/
theorem drain_tasks (c : Client.State) (now seq : Nat) (pref : Nat → Option Nat) :
    (Client.drain c now seq pref).1.tasks = (ClientView.afterTasks c now seq).1.tasks :=
  A.drain_tasks' c now seq pref

/-- with nothing to run the task phase is the refresh of the `send_full` flags only -/
theorem afterTasks_idle (c : Client.State) (now seq : Nat) (hr : c.runq = []) :
    (ClientView.afterTasks c now seq).1.wantlist = c.wantlist ∧
    (∀ p : Nat, (ClientView.afterTasks c now seq).1.peers[p]? =
      (c.peers[p]?).map (fun ps => ({ ps with sendFull := ps.sendFull || decide (c.deadline ≤ now) } : PeerSt))) ∧
    (ClientView.afterTasks c now seq).1.tasks = c.tasks ∧
    (ClientView.afterTasks c now seq).2.1 = seq ∧ (ClientView.afterTasks c now seq).2.2 = [] :=
  A.afterTasks_idle' c now seq hr

/-! ### The invariant of the requesting node -/

theorem ainv_init (store : KMap Nat) : AInv (ginit store) := by
  have hp1 : (ginit store).s.a.client.peers[1]? = some { conns := (∅ : KSet).insert 1 } := by
    show (Client.connect {} 1 1).peers[1]? = _
    simp [Client.connect]
  have hpo : ∀ p : Nat, p ≠ 1 → (ginit store).s.a.client.peers[p]? = none := by
    intro p hp
    show (Client.connect {} 1 1).peers[p]? = _
    simp [Client.connect, ClientView.kmap_get_insert, hp]
  apply A.ainv_of_parts
  · rfl
  · exact ClientView.ginv_step {} (.connect 1 1) ClientView.ginv_init
  · refine ⟨rfl, rfl, rfl, rfl, ?_⟩
    intro k
    show (Server.connect {} 1).waiting[k]? = none
    simp [Server.connect]
  · refine ⟨hpo, ⟨_, hp1, .inl ⟨rfl, rfl⟩, ?_⟩, ?_⟩
    · intro k r hr
      simp at hr
    · intro ps0 h0 x
      rw [hp1] at h0; cases h0
      simp
      exact eq_comm
  · show sendFullInterval ≤ 0 + sendFullInterval
    omega
  · intro q d h; cases h
  · intro qd h; cases h
  · refine ⟨?_, List.nodup_nil, ?_, ?_, ?_, ?_⟩ <;> intro t ht <;> cases ht
  · refine ⟨rfl, ?_, ?_⟩
    · intro t ht; cases ht
    · intro k hk
      exact absurd hk ExtTreeSet.not_mem_empty

/-- `BInv` is needed for the provenance of the blocks on the wire (`wire_ok`). -/
theorem ainv_step (g : GS) (act : Act) (ha : AInv g) (hb : BInv g.s) : AInv (gnext g act) := by
  cases act with
  | get k => exact A.ainv_get g k ha
  | cancel q => exact A.ainv_cancel g q ha
  | refresh => exact A.ainv_refresh g ha
  | drainA => exact A.ainv_drainA g ha
  | drainB => exact A.ainv_drainB g ha
  | lookupA n => exact A.ainv_lookupA g n ha
  | putDoneA n => exact A.ainv_putDoneA g n ha
  | lookupB n => exact A.ainv_lookupB g n ha
  | deliverAB => exact A.ainv_deliverAB g ha
  | deliverBA => exact A.ainv_deliverBA g ha hb

/-! ### Quiescence of `a` -/

/-- with nothing to run and no call pending, `a` has no task left -/
theorem ainv_idle_tasks (g : GS) (h : AInv g) (hr : g.s.a.client.runq = []) (hc : g.s.callsA = [])
    (hp : g.s.putsA = []) : g.s.a.client.tasks = [] := by
  cases ht : g.s.a.client.tasks with
  | nil => rfl
  | cons t ts =>
    exfalso
    have hmem : t ∈ g.s.a.client.tasks := by rw [ht]; exact List.mem_cons_self ..
    rcases h.sched t hmem with ⟨hm, _⟩ | ⟨n, _, hn⟩
    · rw [hr] at hm; cases hm
    · rw [hc, hp] at hn
      rcases hn with hn | hn <;> cases hn

end Beetswap.Proofs.Net
