import Beetswap.Proofs.NetX
import Beetswap.Proofs.NetA
/-!
`Clean`: since the last full wantlist nothing was delivered that `a` still wants and no lookup of
`a` can add a want. Established by the first `drainA` after a refresh from quiescence; stable
under the internal actions.
-/
namespace Beetswap.Proofs.Net
open Std Beetswap.Net Beetswap.Wl
open Beetswap.Client (PeerSt Sending StoreRes Out TaskSt TaskKind Sys sendFullInterval)
open Beetswap.Spec.ClientSpec (GSys Ghost gstep grun GInv)

/-! ### The tasks of `a` under the internal actions other than `drainA` -/

theorem complete_tasks (c : Client.State) (n : Nat) (r : StoreRes) :
    ∀ t ∈ ((Client.complete c n r).getD c).tasks, ∃ t0 ∈ c.tasks, t.kind = t0.kind ∧ t.aborted = t0.aborted := by
  unfold Client.complete
  split
  · intro t ht; exact ⟨t, ht, rfl, rfl⟩
  · intro t ht
    simp only [Option.getD_some, List.mem_map] at ht
    obtain ⟨u, hu, rfl⟩ := ht
    refine ⟨u, hu, ?_⟩
    split <;> exact ⟨rfl, rfl⟩

theorem applyBlock_tasks (c : Client.State) (p k d : Nat) (acc : List (Nat × Nat)) :
    (Client.applyBlock c p k d acc).1.tasks = c.tasks := by
  by_cases hk : k ∈ c.wantlist.cids
  · rw [ClientView.applyBlock_wanted c p k d acc hk]
  · rw [ClientView.applyBlock_unwanted c p k d acc hk]

theorem applyBlocks_tasks (p : Nat) (bs : List (Nat × Nat)) (acc : Client.State × List (Nat × Nat)) :
    (bs.foldl (fun (acc : Client.State × List (Nat × Nat)) kd =>
      Client.applyBlock acc.1 p kd.1 kd.2 acc.2) acc).1.tasks = acc.1.tasks := by
  induction bs generalizing acc with
  | nil => rfl
  | cons b bs ih => simp only [List.foldl_cons]; rw [ih, applyBlock_tasks]

theorem incoming_tasks (c : Client.State) (p : Nat) (hs ds : List Nat) (bs : List (Nat × Nat)) :
    ∀ t ∈ (Client.incoming c p hs ds bs).tasks, t ∈ c.tasks ∨ ∃ nb, t.kind = TaskKind.put nb := by
  unfold Client.incoming
  split
  · intro t ht; exact Or.inl ht
  · dsimp only
    split
    · intro t ht
      rw [applyBlocks_tasks] at ht
      exact Or.inl ht
    · intro t ht
      simp only [Client.pushTask, List.mem_append, List.mem_singleton] at ht
      rcases ht with ht | rfl
      · rw [applyBlocks_tasks] at ht
        exact Or.inl ht
      · exact Or.inr ⟨_, rfl⟩

/-! ### `Clean` is stable under internal actions -/

theorem clean_of_frame {g g' : GS} (hc : Clean g) (ha : g'.s.a = g.s.a) (hh : ahist g' = ahist g) :
    Clean g' := by
  constructor
  · rw [ha]; exact hc.no_get
  · rw [ha, hh]; exact hc.fresh

theorem clean_drainB (g : GS) (ha : AInv g) (hc : Clean g) : Clean (gnext g .drainB) :=
  clean_of_frame hc (drainB_frame g.s).1 (ahist_calm g _ ha (aOps_calm g.s _ (by simp) (by simp)))

theorem clean_lookupB (g : GS) (n : Nat) (ha : AInv g) (hc : Clean g) : Clean (gnext g (.lookupB n)) :=
  clean_of_frame hc (lookupB_frame g.s n).1 (ahist_calm g _ ha (aOps_calm g.s _ (by simp) (by simp)))

theorem clean_complete (g : GS) (act : Act) (ha : AInv g) (hc : Clean g)
    (h : (∃ n, act = .lookupA n) ∨ (∃ n, act = .putDoneA n)) : Clean (gnext g act) := by
  have hne1 : act ≠ .drainA := by rcases h with ⟨n, rfl⟩ | ⟨n, rfl⟩ <;> simp
  have hne2 : act ≠ .deliverBA := by rcases h with ⟨n, rfl⟩ | ⟨n, rfl⟩ <;> simp
  have hh := ahist_calm g act ha (aOps_calm g.s act hne1 hne2)
  have hcl : ∀ (n : Nat) (r : StoreRes),
      (∀ t ∈ (Node.step g.s.a (.complete n r)).1.client.tasks, ∀ q k, t.kind = TaskKind.get q k →
        t.aborted = true) ∧
      (Node.step g.s.a (.complete n r)).1.client.wantlist = g.s.a.client.wantlist := by
    intro n r
    rw [nodeA_complete g.s.a ha.srv]
    refine ⟨?_, (ClientView.complete_fields _ _ _).2.1⟩
    intro t ht q k hk
    obtain ⟨t0, ht0, e1, e2⟩ := complete_tasks _ _ _ t ht
    rw [e2]; exact hc.no_get t0 ht0 q k (e1 ▸ hk)
  rcases h with ⟨n, rfl⟩ | ⟨n, rfl⟩
  · by_cases hcall : g.s.callsA.any (·.1 == n) = true
    · constructor
      · show ∀ t ∈ (step g.s (.lookupA n)).a.client.tasks, _
        simp only [step, hcall, if_true]
        exact (hcl n .miss).1
      · show ∀ k, k ∈ (step g.s (.lookupA n)).a.client.wantlist.cids → _
        rw [hh]
        simp only [step, hcall, if_true]
        rw [(hcl n .miss).2]; exact hc.fresh
    · refine clean_of_frame hc ?_ hh
      show (step g.s (.lookupA n)).a = _
      simp only [step, hcall]; rfl
  · by_cases hcall : n ∈ g.s.putsA
    · constructor
      · show ∀ t ∈ (step g.s (.putDoneA n)).a.client.tasks, _
        simp only [step, hcall, if_true]
        exact (hcl n .putOk).1
      · show ∀ k, k ∈ (step g.s (.putDoneA n)).a.client.wantlist.cids → _
        rw [hh]
        simp only [step, hcall, if_true]
        rw [(hcl n .putOk).2]; exact hc.fresh
    · refine clean_of_frame hc ?_ hh
      show (step g.s (.putDoneA n)).a = _
      simp only [step, hcall]; rfl

theorem clean_deliverAB (g : GS) (ha : AInv g) (hc : Clean g) : Clean (gnext g .deliverAB) := by
  have hh := ahist_calm g .deliverAB ha (aOps_calm g.s _ (by simp) (by simp))
  cases hw : g.s.wireAB with
  | nil =>
    refine clean_of_frame hc ?_ hh
    show (step g.s .deliverAB).a = _
    rw [deliverAB_nil g.s hw]
  | cons m rest =>
    have e := (deliverAB_frame g.s m rest hw).2.2.2.2.2.2.2
    constructor
    · show ∀ t ∈ (step g.s .deliverAB).a.client.tasks, _
      rw [e]
      simp only [Node.step]
      rw [(ClientSending.sendingChanged_fields _ _ _ _).1]; exact hc.no_get
    · show ∀ k, k ∈ (step g.s .deliverAB).a.client.wantlist.cids → _
      rw [e, hh]
      simp only [Node.step]
      rw [(ClientSending.sendingChanged_fields _ _ _ _).2.1]; exact hc.fresh

theorem clean_deliverBA (g : GS) (ha : AInv g) (hc : Clean g) (ha' : AInv (gnext g .deliverBA)) :
    Clean (gnext g .deliverBA) := by
  cases hw : g.s.wireBA with
  | nil =>
    refine clean_of_frame hc ?_ ?_
    · show (step g.s .deliverBA).a = _
      simp only [step, hw]
    · rw [ahist_eq, ahist_eq]; simp only [gnext, aOps, hw, grun]
  | cons bs rest =>
    obtain ⟨_, hd⟩ := ahist_deliverBA g ha ha' bs rest hw
    have ea : (step g.s .deliverBA).a = (Node.step g.s.a (.msg 1 [] [] bs none)).1 := by
      simp only [step, hw]
    by_cases hb : bs.isEmpty = true
    · have : bs = [] := by simpa using hb
      subst this
      constructor
      · show ∀ t ∈ (step g.s .deliverBA).a.client.tasks, _
        rw [ea]; exact hc.no_get
      · show ∀ k, k ∈ (step g.s .deliverBA).a.client.wantlist.cids → _
        rw [ea]
        intro k hk hkd
        rcases (hd k).1 hkd with h | h
        · exact hc.fresh k hk h
        · simp at h
    · have ea' : (step g.s .deliverBA).a.client = Client.incoming g.s.a.client 1 [] [] bs := by
        rw [ea]; simp [Node.step, hb]
      obtain ⟨ps, hps⟩ := ha.peer1
      obtain ⟨r1, _⟩ := ClientView.incoming_rel g.s.a.client 1 [] [] bs ps hps
      constructor
      · show ∀ t ∈ (step g.s .deliverBA).a.client.tasks, _
        rw [ea']
        intro t ht q k hk
        rcases incoming_tasks _ _ _ _ _ t ht with h | ⟨nb, h⟩
        · exact hc.no_get t h q k hk
        · rw [h] at hk; cases hk
      · show ∀ k, k ∈ (step g.s .deliverBA).a.client.wantlist.cids → _
        rw [ea']
        intro k hk hkd
        have := (r1 k).1 hk
        rcases (hd k).1 hkd with h | h
        · exact hc.fresh k this.1 h
        · exact this.2 h

theorem sendingChanged_fields (c : Client.State) (p src : Nat) (st : Sending) :
    (Client.sendingChanged c p src st).tasks = c.tasks ∧ (Client.sendingChanged c p src st).wantlist = c.wantlist :=
  ⟨(ClientSending.sendingChanged_fields c p src st).1, (ClientSending.sendingChanged_fields c p src st).2.1⟩

theorem drainedA_tasks (a : Node.State) :
    (drainedA a).client.tasks = (Client.drain a.client a.now a.seq (Node.prefOf [])).1.tasks := by
  simp only [drainedA]
  split
  · exact (sendingChanged_fields _ _ _ _).1
  · rfl

theorem clean_drainA (g : GS) (ha : AInv g) (hc : Clean g) (ha' : AInv (gnext g .drainA)) :
    Clean (gnext g .drainA) := by
  obtain ⟨_, hhist⟩ := drainA_sent g ha ha'
  obtain ⟨n1, n2, n3⟩ := afterTasks_noget g.s.a.client g.s.a.now g.s.a.seq hc.no_get
  constructor
  · show ∀ t ∈ (step g.s .drainA).a.client.tasks, _
    rw [step_drainA_a g.s ha.srv, drainedA_tasks, drain_tasks]
    exact n3
  · show ∀ k, k ∈ (step g.s .drainA).a.client.wantlist.cids → _
    rw [drainA_wantlist g ha]
    show ∀ k, k ∈ (ClientView.afterTasks g.s.a.client g.s.a.now g.s.a.seq).1.wantlist.cids → _
    rw [n1, hhist]
    intro k hk hkd
    apply hc.fresh k hk
    unfold ClientView.afterSend at hkd
    split at hkd
    · exact ((ClientView.recordSend_deliv _ _ _ k).1 hkd).1
    · exact hkd

/-- `Clean` is stable under every internal action -/
theorem clean_internal (g : GS) (act : Act) (hact : act.internal = true) (ha : AInv g) (hc : Clean g)
    (ha' : AInv (gnext g act)) : Clean (gnext g act) := by
  cases act with
  | get k => cases hact
  | cancel q => cases hact
  | refresh => cases hact
  | drainA => exact clean_drainA g ha hc ha'
  | drainB => exact clean_drainB g ha hc
  | lookupA n => exact clean_complete g _ ha hc (Or.inl ⟨n, rfl⟩)
  | putDoneA n => exact clean_complete g _ ha hc (Or.inr ⟨n, rfl⟩)
  | lookupB n => exact clean_lookupB g n ha hc
  | deliverAB => exact clean_deliverAB g ha hc
  | deliverBA => exact clean_deliverBA g ha hc ha'

end Beetswap.Proofs.Net
