import Beetswap.Proofs.NetDefs
import Beetswap.Proofs.ClientView
import Beetswap.Proofs.ClientSending
import Beetswap.Proofs.ServerDrain
/-!
Core facts about the requesting node `a` inside the composition: its server half never does
anything, so `Node.step` on `a` is the client transition system; the history-extended run `gnext`
stays coherent with the composition.
-/
namespace Beetswap.Proofs.Net
open Std Beetswap.Net Beetswap.Wl
open Beetswap.Client (PeerSt Sending StoreRes Out TaskSt TaskKind Sys sendFullInterval)
open Beetswap.Spec.ClientSpec (GSys Ghost gstep grun GInv)

/-- the server half of `a`: nothing to run, nobody waiting -/
structure SrvIdle (sv : Beetswap.Server.State) : Prop where
  tasks : sv.tasks = []
  runq : sv.runq = []
  evq : sv.evq = []
  outq : sv.outq = []
  waiting : ∀ k : Nat, sv.waiting[k]? = none

theorem AInv.srv {g : GS} (h : AInv g) : SrvIdle g.s.a.server :=
  ⟨h.srv_tasks, h.srv_runq, h.srv_evq, h.srv_outq, h.srv_waiting⟩

theorem uh_nowait (l : List (Nat × Nat)) (st : Server.State) (b : Server.Batches)
    (hw : ∀ k : Nat, st.waiting[k]? = none) :
    l.foldl Server.uhStep (st, b) = (st, b) := by
  induction l with
  | nil => rfl
  | cons kd l ih =>
    simp only [List.foldl_cons]
    have : Server.uhStep (st, b) kd = (st, b) := by
      unfold Server.uhStep
      simp only [hw kd.1]
    rw [this]
    exact ih

/-- draining an idle server half with some new blocks queued: they go to nobody -/
theorem server_drain_idle (sv : Server.State) (seq : Nat) (obs : Nat → Option Nat)
    (_ht : sv.tasks = []) (hr : sv.runq = []) (he : sv.evq = [])
    (hw : ∀ k : Nat, sv.waiting[k]? = none) :
    Beetswap.Server.drain sv seq obs = ({ sv with outq := [] }, seq, []) := by
  rw [Server.drain_eq]
  simp only [hr, Beetswap.Server.pollTasks, he, List.append_nil, List.nil_append]
  rw [Server.updateHandlers_eq]
  simp only
  rw [uh_nowait _ _ _ (by simpa using hw)]
  simp

/-- the model's test "the outputs contain a `send`" -/
theorem any_send_eq (outs : List Out) :
    outs.any (fun o => match o with | .send .. => true | _ => false) = outs.any isSend := by
  congr 1

/-- `Node.step` of `a` for `drain`, with the idle server half. -/
theorem nodeA_drain (a : Node.State) (h : SrvIdle a.server) :
    Node.step a (.drain [] []) =
      ({ a with client := { (Client.drain a.client a.now a.seq (Node.prefOf [])).1 with newBlocks := [] },
                server := { a.server with outq := [] },
                seq := (Client.drain a.client a.now a.seq (Node.prefOf [])).2.1 },
       (Client.drain a.client a.now a.seq (Node.prefOf [])).2.2, none) := by
  unfold Node.step
  simp only [Client.takeNewBlocks]
  rcases hd : Client.drain a.client a.now a.seq (Node.prefOf []) with ⟨c, seq, o1⟩
  simp only
  by_cases hnb : c.newBlocks.isEmpty = true
  · simp only [hnb, if_true]
    rw [server_drain_idle a.server seq _ h.tasks h.runq h.evq h.waiting]
    simp
  · simp only [hnb, Bool.false_eq_true, if_false]
    rw [server_drain_idle (Server.newBlocks a.server c.newBlocks) seq _ h.tasks h.runq h.evq h.waiting]
    simp [Server.newBlocks]

theorem nodeA_complete (a : Node.State) (h : SrvIdle a.server) (n : Nat) (r : StoreRes) :
    (Node.step a (.complete n r)).1 = { a with client := (Client.complete a.client n r).getD a.client } := by
  have hs : Beetswap.Server.complete a.server n r = none := by
    unfold Beetswap.Server.complete
    simp [h.tasks]
  simp only [Node.step]
  cases hc : Client.complete a.client n r with
  | some c => rfl
  | none => simp only [hs, Option.getD_none]

/-! ### The history-extended run -/

theorem grun_sys (x : GSys) (ops : List Beetswap.Client.Op) :
    (grun x ops).1.sys = (Beetswap.Client.run x.sys ops).1 := by
  induction ops generalizing x with
  | nil => rfl
  | cons op ops ih =>
    simp only [grun, Beetswap.Client.run]
    rw [ih]
    rfl

theorem ginv_grun (x : GSys) (ops : List Beetswap.Client.Op) (h : GInv x) : GInv (grun x ops).1 := by
  induction ops generalizing x with
  | nil => exact h
  | cons op ops ih =>
    simp only [grun]
    exact ih _ (ClientView.ginv_step x op h)

/-! ### `absorbA` -/

theorem absorbA_a (outs : List Out) (s : State) : (absorbA s outs).a = s.a := by
  unfold absorbA
  induction outs generalizing s with
  | nil => rfl
  | cons o outs ih =>
    simp only [List.foldl_cons]
    rw [ih]
    cases o <;> rfl

theorem absorbA_b (outs : List Out) (s : State) :
    (absorbA s outs).b = s.b ∧ (absorbA s outs).storeB = s.storeB ∧ (absorbA s outs).wireBA = s.wireBA ∧
    (absorbA s outs).callsB = s.callsB := by
  unfold absorbA
  induction outs generalizing s with
  | nil => exact ⟨rfl, rfl, rfl, rfl⟩
  | cons o outs ih =>
    simp only [List.foldl_cons]
    obtain ⟨h1, h2, h3, h4⟩ := ih (s := _)
    rw [h1, h2, h3, h4]
    cases o <;> exact ⟨rfl, rfl, rfl, rfl⟩

theorem absorbB_a (outs : List Out) (s : State) : (absorbB s outs).a = s.a := by
  unfold absorbB
  induction outs generalizing s with
  | nil => rfl
  | cons o outs ih =>
    simp only [List.foldl_cons]
    rw [ih]
    cases o <;> rfl

/-- the node `a` after `drainA` -/
def drainedA (a : Node.State) : Node.State :=
  let d := Client.drain a.client a.now a.seq (Node.prefOf [])
  let c : Client.State := { d.1 with newBlocks := [] }
  { a with client := if d.2.2.any isSend then Client.sendingChanged c 1 1 (.sending 1) else c,
           server := { a.server with outq := [] }, seq := d.2.1 }

theorem step_drainA_def (s : State) :
    step s .drainA =
      absorbA { s with a := if (Node.step s.a (.drain [] [])).2.1.any isSend
          then (Node.step (Node.step s.a (.drain [] [])).1 (.sending 1 1 (.sending 1))).1
          else (Node.step s.a (.drain [] [])).1 } (Node.step s.a (.drain [] [])).2.1 := rfl

theorem step_drainA (s : State) (h : SrvIdle s.a.server) :
    step s .drainA =
      absorbA { s with a := drainedA s.a } (Client.drain s.a.client s.a.now s.a.seq (Node.prefOf [])).2.2 := by
  rw [step_drainA_def, nodeA_drain s.a h]
  simp only [drainedA]
  split <;> rfl

theorem step_drainA_a (s : State) (h : SrvIdle s.a.server) : (step s .drainA).a = drainedA s.a := by
  rw [step_drainA s h, absorbA_a]

/-! ### Coherence of the history-extended run -/

theorem srvIdle_outq {sv : Beetswap.Server.State} (h : SrvIdle sv) : SrvIdle { sv with outq := [] } :=
  ⟨h.tasks, h.runq, h.evq, rfl, h.waiting⟩

/-- the client operations `aOps` are what `step` does to `a`; the server half stays idle -/
theorem aSys_step (s : State) (act : Act) (h : SrvIdle s.a.server) :
    (Beetswap.Client.run (aSys s) (aOps s act)).1 = aSys (step s act) ∧
    SrvIdle (step s act).a.server := by
  cases act with
  | get k => exact ⟨rfl, h⟩
  | cancel q => exact ⟨rfl, h⟩
  | refresh => exact ⟨rfl, h⟩
  | drainA =>
    have e : aSys (step s .drainA) =
        { s := (drainedA s.a).client, now := (drainedA s.a).now, seq := (drainedA s.a).seq } := by
      unfold aSys; rw [step_drainA_a s h]
    rw [e, step_drainA_a s h]
    refine ⟨?_, srvIdle_outq h⟩
    simp only [aOps]
    rw [nodeA_drain s.a h]
    simp only [drainedA]
    split <;> rfl
  | drainB =>
    have e : (step s .drainB).a = s.a := by
      simp only [step]; rw [absorbB_a]
    unfold aSys; rw [e]; exact ⟨rfl, h⟩
  | lookupA n =>
    simp only [aOps, step]
    split
    · have e := nodeA_complete s.a h n .miss
      refine ⟨?_, ?_⟩
      · unfold aSys; simp only [e]; rfl
      · simp only [e]; exact h
    · exact ⟨rfl, h⟩
  | putDoneA n =>
    simp only [aOps, step]
    split
    · have e := nodeA_complete s.a h n .putOk
      refine ⟨?_, ?_⟩
      · unfold aSys; simp only [e]; rfl
      · simp only [e]; exact h
    · exact ⟨rfl, h⟩
  | lookupB n =>
    simp only [aOps, step]
    split <;> exact ⟨rfl, h⟩
  | deliverAB =>
    simp only [aOps, step]
    cases hw : s.wireAB with
    | nil => exact ⟨rfl, h⟩
    | cons m rest => exact ⟨rfl, h⟩
  | deliverBA =>
    simp only [aOps, step]
    cases hw : s.wireBA with
    | nil => exact ⟨rfl, h⟩
    | cons bs rest =>
      by_cases hb : bs.isEmpty = true
      · simp only [hb, if_true]
        refine ⟨?_, ?_⟩ <;> simp [Node.step, hb, aSys, Beetswap.Client.run] <;> exact h
      · simp only [hb, Bool.false_eq_true, if_false]
        refine ⟨?_, ?_⟩ <;> simp [Node.step, hb, aSys, Beetswap.Client.run, Beetswap.Client.step] <;> exact h

end Beetswap.Proofs.Net
