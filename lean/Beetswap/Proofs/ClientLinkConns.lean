import Beetswap.Proofs.ClientLink
/-!
A connection the behaviour has given up is not used again: in `Model/ClientLink` a connection
enters a peer's set of usable connections only when it is established.
-/
namespace Beetswap.Proofs.ClientLink
open Std Beetswap.ClientLink
open Beetswap.Client (PeerSt Sending Out)
open Beetswap.Proofs.ClientView (kmap_get_insert kset_mem_insert)

/-- `sending_state_changed` never touches the connection sets -/
theorem sendingChanged_conns (cl : Client.State) (p src : Nat) (st : Sending) (q c : Nat) (ps' : PeerSt)
    (h : (Client.sendingChanged cl p src st).peers[q]? = some ps') (hc : c ∈ ps'.conns) :
    ∃ ps, cl.peers[q]? = some ps ∧ c ∈ ps.conns := by
  rcases Proofs.ClientSending.sendingChanged_cases cl p src st with e | e
  · rw [e] at h; exact ⟨ps', h, hc⟩
  · rw [e, Proofs.ClientSending.setSending_peers] at h
    by_cases hq : q = p
    · subst hq
      simp only [if_true] at h
      cases hp : cl.peers[q]? with
      | none => rw [hp] at h; cases h
      | some ps =>
        rw [hp] at h
        simp only [Option.map_some, Option.some.injEq] at h
        subst h
        exact ⟨ps, rfl, hc⟩
    · simp only [hq, if_false] at h
      exact ⟨ps', h, hc⟩

/-- the behaviour's step for one handler event -/
theorem repOp_conns (x : Client.Sys) (p c0 : Nat) (r : ClientHandler.Report) (q c : Nat) (ps' : PeerSt)
    (h : (Client.step x (repOp p c0 r)).1.s.peers[q]? = some ps') (hc : c ∈ ps'.conns) :
    ∃ ps, x.s.peers[q]? = some ps ∧ c ∈ ps.conns := by
  cases r with
  | state hs => exact sendingChanged_conns x.s p c0 (toSending c0 hs) q c ps' h hc
  | closingConn =>
    obtain ⟨ps, a, b, _⟩ := closed_member x.s p c0 q c ps' h hc
    exact ⟨ps, a, b⟩

/-- `update_handlers` only gives connections up -/
theorem drain_conns (x : Client.Sys) (pref : Nat → Option Nat) (q c : Nat) (ps' : PeerSt)
    (h : (Client.step x (.drain pref)).1.s.peers[q]? = some ps') (hc : c ∈ ps'.conns) :
    ∃ ps, x.s.peers[q]? = some ps ∧ c ∈ ps.conns := by
  let s1 := (ClientView.afterTasks x.s x.now x.seq).1
  obtain ⟨_, a2, _, _, _⟩ := ClientView.afterTasks_spec x.s x.now x.seq
  obtain ⟨_, _, _, u4, _⟩ := ClientView.updateHandlers_spec s1 x.now pref
  have hcl : (Client.step x (.drain pref)).1.s = (Client.updateHandlers s1 x.now pref).1 := rfl
  have hpeers : (Client.step x (.drain pref)).1.s.peers[q]? =
      (s1.peers[q]?).bind (fun ps => (Client.updatePeer s1.wantlist x.now ps (pref q)).1) := by
    rw [hcl, u4 q]; rfl
  rw [hpeers] at h
  have hcs : (s1.peers[q]?).map cs = (x.s.peers[q]?).map cs := by
    have := a2 q
    change (s1.peers[q]?).map ClientView.pframe = _ at this
    cases hx : s1.peers[q]? <;> cases hy : x.s.peers[q]? <;> rw [hx, hy] at this <;>
      simp [ClientView.pframe, cs] at this ⊢
    exact ⟨this.1, this.2.1⟩
  cases hx : s1.peers[q]? with
  | none => rw [hx] at h; cases h
  | some ps1 =>
    rw [hx] at h hcs
    cases hp : x.s.peers[q]? with
    | none => rw [hp] at hcs; cases hcs
    | some ps =>
      rw [hp] at hcs
      simp only [Option.map_some, Option.some.injEq, cs, Prod.mk.injEq] at hcs
      cases hu : Client.updatePeer s1.wantlist x.now ps1 (pref q) with
      | mk y mm =>
        have h' : y = some ps' := by
          have : (some ps1).bind (fun ps => (Client.updatePeer s1.wantlist x.now ps (pref q)).1) = some ps' := h
          simpa [hu] using this
        subst h'
        obtain ⟨f1, _, _⟩ := updatePeer_cs _ _ _ _ _ _ hu
        exact ⟨ps, rfl, hcs.1 ▸ f1 c hc⟩

/-- A connection becomes one of a peer's usable connections only by being established: no other
action of the composition — no report of any handler, late or stale, no drain, no close of another
connection — puts connection `c` into a peer's set. A connection that was given up (removed after
the acknowledgement timeout or a failure) therefore stays given up, and since a wantlist is handed
only to a connection of the set (`send_on_own_connection`), it is never handed one again. -/
theorem conns_only_by_connect (s : State) (a : Act) (q c : Nat) (ps' : PeerSt)
    (hne : ∀ p, a ≠ .connect p c)
    (h : (step s a).cl.s.peers[q]? = some ps') (hc : c ∈ ps'.conns) :
    ∃ ps, s.cl.s.peers[q]? = some ps ∧ c ∈ ps.conns := by
  cases a with
  | client op =>
    simp only [step] at h
    split at h
    · rename_i hp
      have := plain_cs s.cl op hp q
      rw [h] at this
      cases hx : s.cl.s.peers[q]? with
      | none => rw [hx] at this; cases this
      | some ps =>
        rw [hx] at this
        simp only [Option.map_some, Option.some.injEq, cs, Prod.mk.injEq] at this
        exact ⟨ps, rfl, this.1 ▸ hc⟩
    · exact ⟨ps', h, hc⟩
  | connect p c' =>
    have hcc : c' ≠ c := fun e => hne p (by rw [e])
    simp only [step] at h
    split at h
    · exact ⟨ps', h, hc⟩
    · have h' : (Client.connect s.cl.s p c').peers[q]? = some ps' := h
      rw [connect_peers] at h'
      by_cases hq : q = p
      · subst hq
        simp only [if_true, Option.some.injEq] at h'
        subst h'
        have hc' : c ∈ ((s.cl.s.peers[q]?).getD {}).conns.insert c' := hc
        rcases (kset_mem_insert _ _ _).1 hc' with e | e
        · exact absurd e.symm hcc
        · cases hx : s.cl.s.peers[q]? with
          | none => rw [hx] at e; simp at e
          | some ps => rw [hx] at e; exact ⟨ps, rfl, e⟩
      · simp only [hq, if_false] at h'
        exact ⟨ps', h', hc⟩
  | drain pref => exact drain_conns s.cl pref q c ps' h hc
  | deliverCmd c' =>
    simp only [step] at h
    split at h
    · split at h
      · split at h <;> exact ⟨ps', h, hc⟩
      · exact ⟨ps', h, hc⟩
    · exact ⟨ps', h, hc⟩
  | handler c' i =>
    simp only [step] at h
    split at h
    · split at h <;> exact ⟨ps', h, hc⟩
    · exact ⟨ps', h, hc⟩
  | deliverRep c' =>
    simp only [step] at h
    split at h
    · rename_i l hl
      split at h
      · rename_i r rest hr
        exact repOp_conns s.cl l.peer c' r q c ps' h hc
      · exact ⟨ps', h, hc⟩
    · exact ⟨ps', h, hc⟩
  | swarmClosed c' =>
    simp only [step] at h
    split at h
    · rename_i l hl
      split at h
      · obtain ⟨ps, a, b, _⟩ := closed_member s.cl.s l.peer c' q c ps' h hc
        exact ⟨ps, a, b⟩
      · exact ⟨ps', h, hc⟩
    · exact ⟨ps', h, hc⟩

end Beetswap.Proofs.ClientLink
