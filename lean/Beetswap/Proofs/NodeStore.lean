import Beetswap.Spec.NodeSpec
import Beetswap.Proofs.NodeStoreServer
/-!
Proofs for the store / forward clauses of C01 at the level of the whole node. The statements
are used by `Props/C01`.

One inductive invariant `NInv` over `hrun`: the client invariant `CInv` (blocks of `put` tasks and
`newBlocks` were accepted), the server invariant `SInv` (queued / looked-up blocks were accepted or
are external) and "every output so far is good" (`GoodOut`).
-/
namespace Beetswap.Proofs.NodeStore
open Std Beetswap.Node Beetswap.Spec.NodeSpec
open Beetswap.Client (Out StoreRes)

def accP (h : Hist) : Nat × Nat → Prop := fun kd => kd ∈ h.accepted
def goodP (h : Hist) : Nat × Nat → Prop := fun kd => kd ∈ h.accepted ∨ kd ∈ h.external

structure NInv (x : State × Hist) : Prop where
  client : CInv (accP x.2) x.1.client
  server : SInv (goodP x.2) x.1.server
  outs : ∀ o ∈ x.2.outs, GoodOut (accP x.2) (goodP x.2) o

theorem ninv_init : NInv (({} : State), ({} : Hist)) :=
  ⟨cinv_init _, sinv_init _, fun _ ho => absurd ho List.not_mem_nil⟩

theorem hstep_eq (x : State × Hist) (op : Op) :
    hstep x op = ((step x.1 op).1,
      { outs := x.2.outs ++ (step x.1 op).2.1, accepted := x.2.accepted ++ acceptedBy x.1 op,
        external := x.2.external ++ externalBlocks x.1 op }) := rfl

theorem mem_acceptedBy (s : State) (p : Nat) (hs ds : List Nat) (bs : List (Nat × Nat))
    (w : Option (Bool × List Server.Entry)) (kd : Nat × Nat) (hp : p ∈ s.client.peers)
    (hk : kd ∈ specAcc s.client.wantlist.cids [] bs) : kd ∈ acceptedBy s (.msg p hs ds bs w) := by
  show kd ∈ (if p ∈ s.client.peers then (bs.foldl _ ([], [])).1 else [])
  rw [if_pos hp, spec_fold]
  simpa using hk

theorem mem_externalBlocks (s : State) (seq : Nat) (r : StoreRes) (kd : Nat × Nat)
    (hk : kd ∈ extOf s.server seq r) : kd ∈ externalBlocks s (.complete seq r) := by
  cases r with
  | hit d => exact hk
  | miss => cases hk
  | error => cases hk
  | putOk => cases hk
  | putErr => cases hk

theorem ninv_hstep (x : State × Hist) (op : Op) (h : NInv x) : NInv (hstep x op) := by
  obtain ⟨s, hist⟩ := x
  rw [hstep_eq]
  have hA : ∀ kd, accP hist kd → kd ∈ hist.accepted ++ acceptedBy s op :=
    fun kd hk => List.mem_append_left _ hk
  have hG : ∀ kd, goodP hist kd →
      (kd ∈ hist.accepted ++ acceptedBy s op ∨ kd ∈ hist.external ++ externalBlocks s op) := by
    intro kd hk
    rcases hk with hk | hk
    · exact Or.inl (List.mem_append_left _ hk)
    · exact Or.inr (List.mem_append_left _ hk)
  suffices hmain :
      CInv (fun kd => kd ∈ hist.accepted ++ acceptedBy s op) (step s op).1.client ∧
      SInv (fun kd => kd ∈ hist.accepted ++ acceptedBy s op ∨ kd ∈ hist.external ++ externalBlocks s op)
        (step s op).1.server ∧
      ∀ o ∈ (step s op).2.1, GoodOut (fun kd => kd ∈ hist.accepted ++ acceptedBy s op)
        (fun kd => kd ∈ hist.accepted ++ acceptedBy s op ∨ kd ∈ hist.external ++ externalBlocks s op) o by
    refine ⟨hmain.1, hmain.2.1, ?_⟩
    intro o ho
    rcases List.mem_append.1 ho with ho | ho
    · exact (h.outs o ho).mono hA hG
    · exact hmain.2.2 o ho
  have hc := h.client.mono hA
  have hs := h.server.mono hG
  dsimp only at hc hs
  have nil : ∀ {P : Out → Prop}, ∀ o ∈ ([] : List Out), P o := fun _ ho => absurd ho List.not_mem_nil
  cases op with
  | connect p c => exact ⟨cinv_connect p c hc, sinv_connect p hs, nil⟩
  | closed p c rem =>
    by_cases hr : rem = 0
    · have e : step s (.closed p c rem) =
          ({ s with client := Client.closed s.client p c, server := Server.disconnected s.server p },
            [], none) := by simp [step, hr]
      rw [e]
      exact ⟨cinv_closed p c hc, sinv_disconnected p hs, nil⟩
    · have e : step s (.closed p c rem) = ({ s with client := Client.closed s.client p c }, [], none) := by
        simp [step, hr]
      rw [e]
      exact ⟨cinv_closed p c hc, hs, nil⟩
  | closing p c => exact ⟨cinv_closed p c hc, hs, nil⟩
  | get k fits => exact ⟨cinv_get k fits hc, hs, nil⟩
  | cancel q => exact ⟨cinv_cancel q hc, hs, nil⟩
  | msg p hs' ds bs w =>
    -- client half
    have hcl : CInv (fun kd => kd ∈ hist.accepted ++ acceptedBy s (.msg p hs' ds bs w))
        (if hs'.isEmpty && ds.isEmpty && bs.isEmpty then s
          else { s with client := Client.incoming s.client p hs' ds bs }).client := by
      split
      · exact hc
      · refine (cinv_incoming p hs' ds bs h.client).mono ?_
        intro kd hk
        rcases hk with hk | ⟨hp, hk⟩
        · exact hA kd hk
        · exact List.mem_append_right _ (mem_acceptedBy s p hs' ds bs w kd hp hk)
    have hsv0 : (if hs'.isEmpty && ds.isEmpty && bs.isEmpty then s
          else { s with client := Client.incoming s.client p hs' ds bs }).server = s.server := by
      split <;> rfl
    cases w with
    | none => exact ⟨hcl, by rw [show (step s (.msg p hs' ds bs none)).1.server = _ from hsv0]; exact hs, nil⟩
    | some fe =>
      obtain ⟨full, es⟩ := fe
      refine ⟨hcl, ?_, nil⟩
      show SInv _ (Server.incoming (if hs'.isEmpty && ds.isEmpty && bs.isEmpty then s
          else { s with client := Client.incoming s.client p hs' ds bs }).server p full es)
      rw [hsv0]
      exact sinv_incoming p full es hs
  | sending p src st => exact ⟨cinv_sendingChanged p src st hc, hs, nil⟩
  | newBlocks bs =>
    exact ⟨hc, sinv_newBlocks bs hs (fun kd hk => Or.inr (List.mem_append_right _ hk)), nil⟩
  | complete seq r =>
    cases hcc : Client.complete s.client seq r with
    | some c =>
      have e : step s (.complete seq r) = ({ s with client := c }, [], none) := by simp [step, hcc]
      rw [e]
      exact ⟨cinv_complete seq r hcc hc, hs, nil⟩
    | none =>
      cases hsc : Server.complete s.server seq r with
      | some sv =>
        have e : step s (.complete seq r) = ({ s with server := sv }, [], none) := by
          simp [step, hcc, hsc]
        rw [e]
        refine ⟨hc, (sinv_complete seq r hsc h.server).mono ?_, nil⟩
        intro kd hk
        rcases hk with hk | hk
        · exact hG kd hk
        · exact Or.inr (List.mem_append_right _ (mem_externalBlocks s seq r kd hk))
      | none =>
        have e : step s (.complete seq r) = (s, [], none) := by simp [step, hcc, hsc]
        rw [e]
        exact ⟨hc, hs, nil⟩
  | tick ms => exact ⟨hc, hs, nil⟩
  | drain pref obs =>
    obtain ⟨c1, o1⟩ := drain_inv (G := fun kd => kd ∈ hist.accepted ++ acceptedBy s (.drain pref obs) ∨
      kd ∈ hist.external ++ externalBlocks s (.drain pref obs)) s.client s.now s.seq (prefOf pref) hc
    obtain ⟨c2, nb⟩ := takeNewBlocks_inv (Client.drain s.client s.now s.seq (prefOf pref)).1 c1
    have hsv : SInv (fun kd => kd ∈ hist.accepted ++ acceptedBy s (.drain pref obs) ∨
        kd ∈ hist.external ++ externalBlocks s (.drain pref obs))
        (if (Client.takeNewBlocks (Client.drain s.client s.now s.seq (prefOf pref)).1).2.isEmpty then s.server
          else Server.newBlocks s.server (Client.takeNewBlocks (Client.drain s.client s.now s.seq (prefOf pref)).1).2) := by
      split
      · exact hs
      · exact sinv_newBlocks _ hs (fun kd hk => Or.inl (nb kd hk))
    obtain ⟨s2, o2⟩ := drain_sinv (A := fun kd => kd ∈ hist.accepted ++ acceptedBy s (.drain pref obs)) _
      (Client.drain s.client s.now s.seq (prefOf pref)).2.1 (prefOf obs) hsv
    refine ⟨c2, s2, ?_⟩
    intro o ho
    have ho : o ∈ (Client.drain s.client s.now s.seq (prefOf pref)).2.2 ++ (Server.drain _ _ _).2.2 := ho
    rcases List.mem_append.1 ho with ho | ho
    · exact o1 o ho
    · exact o2 o ho

theorem ninv_hrun (ops : List Op) (x : State × Hist) (h : NInv x) : NInv (hrun x ops) := by
  induction ops generalizing x with
  | nil => exact h
  | cons op ops ih => exact ih (hstep x op) (ninv_hstep x op h)

/-- Every block the node writes to its blockstore on behalf of the network was accepted by the
client gate under exactly that CID (for all operation sequences). -/
theorem store_keyed (ops : List Op) (seq : Nat) (bs : List (Nat × Nat)) (kd : Nat × Nat)
    (h : Out.callPut seq bs ∈ (hrun ({}, {}) ops).2.outs) (hk : kd ∈ bs) :
    kd ∈ (hrun ({}, {}) ops).2.accepted :=
  (ninv_hrun ops _ ninv_init).outs _ h kd hk

/-- Every block forwarded to another peer was accepted by the client gate (and stored), or is a
blockstore hit / an application-announced block: never a received block that was not wanted. -/
theorem forwarded_subset (ops : List Op) (p : Nat) (bs : List (Nat × Nat)) (kd : Nat × Nat)
    (h : Out.blocks p bs ∈ (hrun ({}, {}) ops).2.outs) (hk : kd ∈ bs) :
    kd ∈ (hrun ({}, {}) ops).2.accepted ∨ kd ∈ (hrun ({}, {}) ops).2.external :=
  (ninv_hrun ops _ ninv_init).outs _ h kd hk

/-- A block is handed from the client half to the server half only after its store write
succeeded. -/
theorem new_blocks_were_stored (ops : List Op) (kd : Nat × Nat)
    (h : kd ∈ (hrun ({}, {}) ops).1.client.newBlocks) : kd ∈ (hrun ({}, {}) ops).2.accepted :=
  (ninv_hrun ops _ ninv_init).client.newBlocks kd h

theorem incoming_unwanted (c : Client.State) (p k d : Nat) (h : k ∉ c.wantlist.cids) :
    (Client.incoming c p [] [] [(k, d)]).queue = c.queue ∧
    (Client.incoming c p [] [] [(k, d)]).tasks = c.tasks ∧
    (Client.incoming c p [] [] [(k, d)]).newBlocks = c.newBlocks := by
  unfold Client.incoming
  split
  · exact ⟨rfl, rfl, rfl⟩
  · rename_i ps hps
    simp [applyBlock_not_mem, h]

/-- A received block for a CID that is not wanted leaves the whole node unchanged. -/
theorem unwanted_block_inert_node (s : State) (p k d : Nat) (h : k ∉ s.client.wantlist.cids) :
    (step s (.msg p [] [] [(k, d)] none)).1.client.queue = s.client.queue ∧
    (step s (.msg p [] [] [(k, d)] none)).1.client.tasks = s.client.tasks ∧
    (step s (.msg p [] [] [(k, d)] none)).1.client.newBlocks = s.client.newBlocks ∧
    (step s (.msg p [] [] [(k, d)] none)).1.server = s.server ∧
    (step s (.msg p [] [] [(k, d)] none)).2.1 = [] := by
  have e : step s (.msg p [] [] [(k, d)] none) =
      ({ s with client := Client.incoming s.client p [] [] [(k, d)] }, [], none) := rfl
  rw [e]
  obtain ⟨h1, h2, h3⟩ := incoming_unwanted s.client p k d h
  exact ⟨h1, h2, h3, rfl, rfl⟩

end Beetswap.Proofs.NodeStore
