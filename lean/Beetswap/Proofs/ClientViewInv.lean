import Beetswap.Proofs.ClientViewBasic
/-!
Preservation of `PeerInv` by the elementary events: a full wantlist / an update handed to the
peer, a wantlist insertion (+ `wantedAgain`), a wantlist removal, session start.
-/
namespace Beetswap.Proofs.ClientView
open Std Beetswap.Client Beetswap.Wl Beetswap.Spec.ClientSpec

theorem recordSend_told (g : Ghost) (want : KSet) (m : WlMsg) (k : Nat) :
    k ∈ (g.recordSend want m).told ↔
      if m.full = true then (k ∈ m.wantHave ∨ k ∈ m.wantBlock)
      else ((k ∈ g.told ∧ k ∉ m.cancel) ∨ k ∈ m.wantHave ∨ k ∈ m.wantBlock) := by
  unfold Ghost.recordSend
  by_cases hf : m.full = true
  · simp [hf, mem_insertAll]
  · simp [hf, mem_insertAll, mem_eraseAll]

theorem recordSend_deliv (g : Ghost) (want : KSet) (m : WlMsg) (k : Nat) :
    k ∈ (g.recordSend want m).deliv ↔ k ∈ g.deliv ∧ k ∉ m.wantHave ∧ k ∉ m.wantBlock := by
  simp [Ghost.recordSend, mem_eraseAll]

theorem recordSend_dh (g : Ghost) (want : KSet) (m : WlMsg) (k : Nat) :
    k ∈ (g.recordSend want m).dh ↔
      (if m.full = true then (k ∈ g.dh ∧ k ∈ want) else (k ∈ g.dh ∧ k ∉ m.cancel))
        ∧ k ∉ m.wantHave ∧ k ∉ m.wantBlock := by
  unfold Ghost.recordSend
  by_cases hf : m.full = true
  · simp [hf, mem_eraseAll, mem_restrict]
  · simp [hf, mem_eraseAll]

theorem recordSend_haveOk (g : Ghost) (want : KSet) (m : WlMsg) :
    (g.recordSend want m).haveOk = g.haveOk := rfl

theorem _root_.Beetswap.Spec.ClientSpec.PeerInv.congr {s s' : State} {ps ps' : PeerSt} {g : Ghost} (h : PeerInv s ps g)
    (hw : s'.wantlist = s.wantlist) (hwl : ps'.wl = ps.wl) : PeerInv s' ps' g := by
  obtain ⟨h1, h2, h3, h4, h5, h6, h7, h8, h9⟩ := h
  constructor <;> (rw [hwl] <;> try rw [hw]) <;> assumption


theorem peerInv_genFull {s s' : State} {ps ps' : PeerSt} {g : Ghost} (h : PeerInv s ps g)
    (hw : s'.wantlist = s.wantlist) (hwl : ps'.wl = (ps.wl.genFull s.wantlist).1) :
    PeerInv s' ps' (g.recordSend s.wantlist.cids (ps.wl.genFull s.wantlist).2) := by
  obtain ⟨h1, h2, h3, h4, h5, h6, h7, h8, h9⟩ := h
  constructor
  all_goals rw [hwl]
  all_goals try rw [hw]
  all_goals try
    (intro k
     have := h1 k; have := h2 k; have := h3 k; have := h4 k; have := h5 k; have := h6 k; have := h7 k
     clear h1 h2 h3 h4 h5 h6 h7 h8 h9
     simp only [genFull_req, fullNext_eq, recordSend_told, recordSend_deliv, recordSend_dh,
       recordSend_haveOk, genFull_full, genFull_wantHave, genFull_wantBlock, genFull_force]
     rcases hr : ps.wl.req[k]? with _ | r
     · by_cases hk : k ∈ s.wantlist.cids <;> simp_all
     · by_cases hk : k ∈ s.wantlist.cids <;> cases r <;> simp_all)
  · clear h1 h2 h4 h5 h6 h7 h8 h9
    intro _ k
    have := h3 k
    rw [kmap_mem_iff, genFull_req, fullNext_eq]
    rcases hr : ps.wl.req[k]? with _ | r
    · by_cases hk : k ∈ s.wantlist.cids <;> simp_all
    · by_cases hk : k ∈ s.wantlist.cids <;> cases r <;> simp_all
  · exact h9

theorem recordSend_empty (g : Ghost) (want : KSet) (m : WlMsg) (hf : m.full = false)
    (he : m.isEmpty = true) : g.recordSend want m = g := by
  obtain ⟨f, a, b, c⟩ := m
  simp only [WlMsg.isEmpty, Bool.and_eq_true, List.isEmpty_iff] at he
  obtain ⟨⟨rfl, rfl⟩, rfl⟩ := he
  subst hf
  rfl

theorem peerInv_genUpdate {s s' : State} {ps ps' : PeerSt} {g : Ghost} (h : PeerInv s ps g)
    (hw : s'.wantlist = s.wantlist) (hwl : ps'.wl = (ps.wl.genUpdate s.wantlist).1) :
    PeerInv s' ps' (g.recordSend s.wantlist.cids (ps.wl.genUpdate s.wantlist).2) := by
  by_cases hu : ps.wl.isUpdated s.wantlist = true
  · rw [genUpdate_of_updated _ _ hu] at hwl ⊢
    rw [recordSend_empty _ _ _ rfl rfl]
    exact h.congr hw hwl
  have hu : ps.wl.isUpdated s.wantlist = false := by simpa using hu
  obtain ⟨h1, h2, h3, h4, h5, h6, h7, h8, h9⟩ := h
  constructor
  all_goals rw [hwl]
  all_goals try rw [hw]
  all_goals try
    (intro k
     have := h1 k; have := h2 k; have := h3 k; have := h4 k; have := h5 k; have := h6 k; have := h7 k
     clear h1 h2 h3 h4 h5 h6 h7 h8 h9
     simp only [genUpdate_req _ _ hu, fullNext_eq, recordSend_told, recordSend_deliv, recordSend_dh,
       recordSend_haveOk, genUpdate_full, genUpdate_wantHave _ _ hu, genUpdate_wantBlock _ _ hu,
       genUpdate_cancel _ _ hu, genUpdate_force _ _ hu]
     rcases hr : ps.wl.req[k]? with _ | r
     · by_cases hk : k ∈ s.wantlist.cids <;> simp_all
     · by_cases hk : k ∈ s.wantlist.cids <;> cases r <;> simp_all)
  · clear h1 h2 h4 h5 h6 h7 h8 h9
    intro _ k
    have := h3 k
    rw [kmap_mem_iff, genUpdate_req _ _ hu, fullNext_eq]
    rcases hr : ps.wl.req[k]? with _ | r
    · by_cases hk : k ∈ s.wantlist.cids <;> simp_all
    · by_cases hk : k ∈ s.wantlist.cids <;> cases r <;> simp_all
  · rw [genUpdate_synced _ _ hu]; exact Nat.le_refl _


/-! wantlist insert / remove -/
theorem insert_cids (w : Wantlist) (k j : Nat) : j ∈ (w.insert k).1.cids ↔ j = k ∨ j ∈ w.cids := by
  unfold Wantlist.insert
  split
  · rename_i h
    constructor
    · exact .inr
    · rintro (rfl | h') <;> assumption
  · exact kset_mem_insert _ _ _

theorem insert_revision (w : Wantlist) (k : Nat) :
    (w.insert k).1.revision = if k ∈ w.cids then w.revision else w.revision + 1 := by
  unfold Wantlist.insert; split <;> rfl

theorem insert_snd (w : Wantlist) (k : Nat) : (w.insert k).2 = !decide (k ∈ w.cids) := by
  unfold Wantlist.insert; split <;> simp [*]

theorem insert_of_mem (w : Wantlist) (k : Nat) (h : k ∈ w.cids) : (w.insert k).1 = w := by
  simp [Wantlist.insert, h]

theorem remove_cids (w : Wantlist) (k j : Nat) : j ∈ (w.remove k).1.cids ↔ j ≠ k ∧ j ∈ w.cids := by
  unfold Wantlist.remove
  split
  · exact kset_mem_erase _ _ _
  · rename_i h
    constructor
    · intro h'; exact ⟨fun e => h (e ▸ h'), h'⟩
    · exact fun h' => h'.2

theorem remove_revision (w : Wantlist) (k : Nat) :
    (w.remove k).1.revision = if k ∈ w.cids then w.revision + 1 else w.revision := by
  unfold Wantlist.remove; split <;> rfl

theorem remove_snd (w : Wantlist) (k : Nat) : (w.remove k).2 = decide (k ∈ w.cids) := by
  unfold Wantlist.remove; split <;> simp [*]

theorem remove_of_not_mem (w : Wantlist) (k : Nat) (h : k ∉ w.cids) : (w.remove k).1 = w := by
  simp [Wantlist.remove, h]

theorem wantedAgain_req (wl : WState) (k j : Nat) :
    (wl.wantedAgain k).req[j]? = if j = k ∧ wl.req[k]? = some .gotBlock then none else wl.req[j]? := by
  unfold WState.wantedAgain
  by_cases h : wl.req[k]? = some .gotBlock
  · simp only [h, if_true, kmap_get_erase, and_true]
  · simp [h]

theorem wantedAgain_force (wl : WState) (k : Nat) : (wl.wantedAgain k).force = wl.force := by
  unfold WState.wantedAgain; split <;> rfl
theorem wantedAgain_synced (wl : WState) (k : Nat) : (wl.wantedAgain k).synced = wl.synced := by
  unfold WState.wantedAgain; split <;> rfl

theorem peerInv_shrink {s s' : State} {ps ps' : PeerSt} {g : Ghost} (h : PeerInv s ps g)
    (hsub : ∀ j, j ∈ s'.wantlist.cids → j ∈ s.wantlist.cids)
    (hrev : s'.wantlist = s.wantlist ∨ s.wantlist.revision < s'.wantlist.revision)
    (hwl : ps'.wl = ps.wl) : PeerInv s' ps' g := by
  rcases hrev with hrev | hrev
  · exact h.congr hrev hwl
  obtain ⟨h1, h2, h3, h4, h5, h6, h7, h8, h9⟩ := h
  constructor
  all_goals rw [hwl]
  · exact h1
  · exact h2
  · exact fun k hk hk' => h3 k hk (hsub k hk')
  · exact h4
  · exact h5
  · exact h6
  · exact h7
  · intro he; omega
  · omega

theorem peerInv_insert {s s' : State} {ps ps' : PeerSt} {g : Ghost} (h : PeerInv s ps g) (k : Nat)
    (hk : k ∉ s.wantlist.cids)
    (hw : s'.wantlist = (s.wantlist.insert k).1) (hwl : ps'.wl = ps.wl.wantedAgain k) :
    PeerInv s' ps' g := by
  obtain ⟨h1, h2, h3, h4, h5, h6, h7, h8, h9⟩ := h
  constructor
  all_goals rw [hwl]
  all_goals try rw [hw]
  all_goals try
    (intro j
     have := h1 j; have := h2 j; have := h3 j; have := h4 j; have := h5 j; have := h6 j; have := h7 j
     clear h1 h2 h3 h4 h5 h6 h7 h8 h9
     simp only [wantedAgain_req, wantedAgain_force, insert_cids]
     by_cases hj : j = k
     · subst hj
       rcases hr : ps.wl.req[j]? with _ | r
       · simp_all
       · cases r <;> simp_all
     · simp_all)
  · rw [wantedAgain_synced, insert_revision]; simp only [hk, if_false]; intro he; omega
  · rw [wantedAgain_synced, insert_revision]; simp only [hk, if_false]; omega

set_option linter.unusedSimpArgs false in
theorem peerInv_init (s : State) (hz : s.wantlist.revision = 0 → ∀ k, k ∉ s.wantlist.cids) :
    PeerInv s {} {} := by
  have hreq : ∀ k, ({} : PeerSt).wl.req[k]? = none := fun k => kmap_get_empty k
  constructor
  case synced_keys =>
    intro he k
    rw [kmap_mem_iff, hreq]
    have := hz he.symm k
    simp [this]
  case synced_le => exact Nat.zero_le _
  all_goals (intro k; simp [hreq, kset_not_mem_empty])

end Beetswap.Proofs.ClientView
