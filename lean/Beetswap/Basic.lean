def hello := "world"
