import Beetswap.Model.ServerLink
import Driver.NodeIO
/-!
Replay of one node's recorded run — the behaviour's operations and the records of all its
connection handlers, in the order they happened — through the server-side composition
`Model/ServerLink`.

The behaviour is driven by the recorded operations through `Model/Node` (whose server half the node
replay already compares with the implementation's state after every operation). What is checked
here is the glue `Model/ServerLink` adds and its theorems rest on — how libp2p-swarm carries a
`QueueOutgoingMessages` event (`NotifyHandler::Any`) to a handler, and when lib.rs tells the server
half that a peer is gone:

* the `blk` events of a drain are the events the model dispatches (`mkEvs`);
* blocks a real handler is handed (`on_behaviour_event`) are one event the model's behaviour has
  dispatched to the peer of that connection and that has not been handed to any handler yet; the
  connection is one of that peer's, established, and has not begun to close (`accept` +
  `deliverCmd`); the event is then consumed — handing it over twice, to a connection of another peer,
  or to a closing connection is reported;
* `ConnectionClosed` carries `remaining_established` = the peer's other connections in the model's
  pool, and after it the implementation's server half knows exactly the peers `Model/ServerLink`
  says are connected (`record_iff_connected`, checked on the implementation's own snapshot).
-/
namespace Driver.SLinkVal
open Beetswap Beetswap.ServerLink Std

structure SV where
  s : ServerLink.State := {}
  node : Node.State := {}
  dispatched : Nat := 0
  delivered : Nat := 0
  closedConns : Nat := 0
  /-- blocks a handler was handed before the burst of `poll` calls that dispatched them was recorded
  (the swarm returned in the middle of a burst): matched when the drain is recorded -/
  early : List (Nat × Nat × String) := []

def evText (e : Ev) : String := NodeIO.showBlocks (e.blocks.map fun kd => (kd.1 % 7, kd.2))

def blkToks (outs : List Client.Out) : List String :=
  NodeIO.sortStr ((outs.filter fun o => match o with | .blocks .. => true | _ => false).map NodeIO.showOut)

/-- the peers the implementation's server half has a record for (`S=p[..],q[..]`) -/
def implKnown (sField : String) : List Nat :=
  let body := (sField.drop 2).toString
  if body.isEmpty then [] else
  NodeIO.sortNat ((body.splitOn ",").filterMap fun e => (e.splitOn "[").head?.bind (·.toNat?))

def modelKnown (sv : Server.State) : List Nat := NodeIO.sortNat sv.wl.keys

def connectedPeers (links : KMap Link) : List Nat :=
  NodeIO.sortNat ((links.toList.filter fun cl => !cl.2.gone).map (·.2.peer)).eraseDups

def sync (v : SV) : ServerLink.State := { v.s with sv := v.node.server, seq := v.node.seq }

/-- The handler of connection `c` is handed `n` blocks `ids`. `late`: the drain that dispatched them
has been recorded (otherwise an unmatched hand-over waits for it). -/
def deliver (v : SV) (c : Nat) (n : String) (ids : String) (late : Bool) : SV × Option String :=
    match v.s.links[c]? with
    | none => (v, some s!"the handler of connection {c} was handed blocks, the model does not know the connection")
    | some l =>
      if l.gone || l.closing then
        (v, some s!"the handler of connection {c} was handed blocks although the connection has begun to close")
      else
        match v.s.outbox.find? (fun e => e.peer == l.peer && evText e == ids) with
        | none =>
          if !late then ({ v with early := v.early ++ [(c, n.toNat?.getD 0, ids)] }, none) else
          let other := v.s.outbox.find? (fun e => evText e == ids)
          (v, some (match other with
            | some e => s!"the handler of connection {c} (peer {l.peer}) was handed blocks `{ids}` that the behaviour dispatched to peer {e.peer}"
            | none => s!"the handler of connection {c} (peer {l.peer}) was handed blocks `{ids}` that the model's behaviour has not dispatched to that peer, or that were already handed to a handler"))
        | some e =>
          if n.toNat? != some e.blocks.length then
            (v, some s!"the handler of connection {c} was handed {n} blocks, the dispatched event holds {e.blocks.length}")
          else
            -- the swarm took the event, connection `c` accepted it, its task hands it to the handler
            let s1 : ServerLink.State :=
              { v.s with outbox := v.s.outbox.filter (fun x => x.id != e.id),
                         links := v.s.links.insert c { l with cmds := l.cmds ++ [e] } }
            let s2 := ServerLink.step s1 (.deliverCmd c)
            let ok := match s2.links[c]? with
              | some l2 => l2.cmds.isEmpty && l2.delivered.length == l.delivered.length + 1
              | none => false
            ({ v with s := s2, delivered := v.delivered + 1 },
             if ok then none else some s!"the model could not hand the event to the handler of connection {c}")

/-- One behaviour operation with the implementation's `blk` outputs and server peers after it. -/
def stepB (v : SV) (opText : String) (implBlks : String) (implS : String) : SV × Option String :=
  match opText.splitOn " " with
  | ["reset", sdh] => ({ node := { client := { sdh := sdh.startsWith "1" } } }, none)
  | toks =>
    match NodeIO.parseOp toks v.node.now with
    | none => (v, some s!"unreadable operation `{opText}`")
    | some op =>
      let s0 := sync v
      let (node', nouts, _) := Node.step v.node op
      let (s', bad, v) : ServerLink.State × Option String × SV :=
        match op with
        | .connect p c =>
          if c ∈ s0.links then (s0, some s!"connection {c} established twice", v)
          else ({ ServerLink.step s0 (.connect p c) with sv := node'.server }, none, v)
        | .closing _ c =>
          -- `ClientClosingConnection` comes out of `poll_close`: the connection task is closing
          (ServerLink.step s0 (.beginClose c), none, v)
        | .closed p c rem =>
          match s0.links[c]? with
          | none => (s0, some s!"ConnectionClosed for connection {c}, which the model does not know", v)
          | some l =>
            if l.gone then (s0, some s!"ConnectionClosed for connection {c} twice", v)
            else if l.peer != p then (s0, some s!"ConnectionClosed for connection {c} names peer {p}, the model has it as a connection of peer {l.peer}", v)
            else
              let s1 := ServerLink.step (ServerLink.step s0 (.beginClose c)) (.swarmClosed c)
              let others := (poolOf s1.links p).length
              let v := { v with closedConns := v.closedConns + 1 }
              if others != rem then
                (s1, some s!"ConnectionClosed for connection {c} of peer {p} says remaining_established = {rem}, the model's pool holds {others} other connection(s) of that peer", v)
              else if modelKnown s1.sv != modelKnown node'.server then
                (s1, some s!"after ConnectionClosed for connection {c} the composition's server half knows peers {modelKnown s1.sv}, the node model {modelKnown node'.server}", v)
              else (s1, none, v)
        | .drain _ _ =>
          let evs := mkEvs s0.nextE nouts
          let s1 := { s0 with sv := node'.server, seq := node'.seq, outbox := s0.outbox ++ evs, nextE := s0.nextE + evs.length }
          let mine := " ".intercalate (blkToks nouts)
          (s1, if mine != implBlks then some s!"the behaviour dispatched `{implBlks}`, the model `{mine}`" else none,
           { v with dispatched := v.dispatched + evs.length })
        | _ => ({ s0 with sv := node'.server, seq := node'.seq }, none, v)
      let v' := { v with s := s', node := node' }
      if let some why := bad then (v', some why)
      else
      -- hand-overs that were recorded before this drain
      let (v', bad) : SV × Option String :=
        match op with
        | .drain _ _ =>
          v'.early.foldl (fun (acc : SV × Option String) (e : Nat × Nat × String) =>
            if acc.2.isSome then acc else deliver acc.1 e.1 (toString e.2.1) e.2.2 true) ({ v' with early := [] }, none)
        | _ => (v', none)
      if let some why := bad then (v', some why)
      else
        -- the record rule on the implementation's own snapshot: a record exactly for the connected peers
        let conn := connectedPeers s'.links
        if implS.startsWith "S=" && implKnown implS != conn then
          (v', some s!"after `{opText}` the implementation's server half has a record for peers {implKnown implS}, connected (in the swarm's pool) are {conn}")
        else if modelKnown s'.sv != conn then
          (v', some s!"after `{opText}` the model's server half has a record for peers {modelKnown s'.sv}, connected are {conn}")
        else (v', none)

/-- One handler record of connection `c`. Only `in queue-blocks <n> ids=<blocks>` matters here. -/
def stepH (v : SV) (c : Nat) (rest : String) : SV × Option String :=
  match rest.splitOn " " with
  | ["in", "queue-blocks", n, ids] => deliver v c n (ids.drop 4).toString false
  | _ => (v, none)

/-- One line of a node's log: `B <op> ## <P=…> ## <sends> ## <blks> ## <S=…>` or `H c=<conn> p=<peer> <record>`. -/
def stepLine (v : SV) (line : String) : SV × Option String :=
  if line.startsWith "B " then
    match ((line.drop 2).toString).splitOn " ## " with
    | [op, _, _, blks, s] => stepB v op blks s
    | op :: _ => stepB v op "" ""
    | [] => (v, none)
  else if line.startsWith "H " then
    match ((line.drop 2).toString).splitOn " " with
    | c :: _p :: rest =>
      match ((c.drop 2).toString).toNat? with
      | some c => stepH v c (" ".intercalate rest)
      | none => (v, some "unreadable handler record")
    | _ => (v, some "unreadable handler record")
  else (v, none)

end Driver.SLinkVal
