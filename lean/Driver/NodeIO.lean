import Beetswap.Model.Node
import Beetswap.Model.Text
/-! Text form of node ops, outputs and state snapshots (shared with the Rust harness). -/
namespace Driver.NodeIO
open Beetswap Beetswap.Client Beetswap.Wl Std

def natList := Text.natList
def showNats (l : List Nat) : String := "+".intercalate (l.map toString)

def sortNat (l : List Nat) : List Nat := l.mergeSort (· ≤ ·)
def sortStr (l : List String) : List String := l.mergeSort (· ≤ ·)

def parsePairs (s : String) : Option (List (Nat × Nat)) :=
  if s.isEmpty then some [] else
  (s.splitOn ",").mapM fun t =>
    match t.splitOn ":" with
    | [a, b] => do pure (← a.toNat?, ← b.toNat?)
    | _ => none

def parseEntries (s : String) : Option (List Server.Entry) :=
  if s.isEmpty then some [] else
  (s.splitOn ",").mapM fun t =>
    let cancel := t.endsWith "!"
    let body := if cancel then (t.dropEnd 1).toString else t
    if body == "x" then some { cid := none, cancel := cancel }
    else body.toNat?.map fun k => { cid := some k, cancel := cancel }

def parseSending (s : String) (now : Nat) : Option Sending :=
  match s.splitOn ":" with
  | ["ready"] => some .ready
  | ["requested", c] => c.toNat?.map (.requested now)
  | ["received", c] => c.toNat?.map .requestReceived
  | ["sending", c] => c.toNat?.map .sending
  | ["failed", c] => c.toNat?.map .failed
  | _ => none

def parseRes (s : String) : Option StoreRes :=
  match s.splitOn ":" with
  | ["hit", d] => d.toNat?.map .hit
  | ["miss"] => some .miss
  | ["error"] => some .error
  | ["putok"] => some .putOk
  | ["puterr"] => some .putErr
  | _ => none

def kv (s : String) (key : String) : Option String :=
  if s.startsWith (key ++ "=") then some (s.drop (key.length + 1)).toString else none

def parseOp (toks : List String) (now : Nat) : Option Node.Op :=
  match toks with
  | ["connect", p, c] => do pure (.connect (← p.toNat?) (← c.toNat?))
  | ["closed", p, c, r] => do pure (.closed (← p.toNat?) (← c.toNat?) (← r.toNat?))
  | ["closing", p, c] => do pure (.closing (← p.toNat?) (← c.toNat?))
  | ["get", k, f] => do pure (.get (← k.toNat?) (f == "1"))
  | ["cancel", q] => do pure (.cancel (← q.toNat?))
  | "msg" :: p :: h :: d :: b :: w :: _ => do   -- an optional 7th token `c=<connection>` is not the model's business
    let h ← natList (← kv h "h")
    let d ← natList (← kv d "d")
    let b ← parsePairs (← kv b "b")
    let w ← kv w "w"
    let wl ← (if w == "N" then some none else
      match w.splitOn "/" with
      | [f, es] => do pure (some (f == "1", ← parseEntries es))
      | _ => none)
    pure (.msg (← p.toNat?) h d b wl)
  | ["sending", p, src, st] => do pure (.sending (← p.toNat?) (← src.toNat?) (← parseSending st now))
  | ["newblocks", b] => do pure (.newBlocks (← parsePairs b))
  | ["complete", s, r] => do pure (.complete (← s.toNat?) (← parseRes r))
  | ["tick", ms] => do pure (.tick (← ms.toNat?))
  -- a failed dial (`FromSwarm::DialFailure`) is none of the behaviour's business: lib.rs ignores it, the node
  -- model has no operation for it — it must leave the state as it is (a tick of 0 ms)
  | ["dialfail", _p, _c] => some (.tick 0)
  | ["drain", pref, obs] => do pure (.drain (← parsePairs (← kv pref "c")) (← parsePairs (← kv obs "l")))
  | _ => none

def showBlocks (bs : List (Nat × Nat)) : String :=
  "+".intercalate (sortStr (bs.map fun kd => s!"{kd.1}.{kd.2}"))

def showOut : Out → String
  | .resp q d => s!"resp:{q}:{d}"
  | .err q k => s!"err:{q}:{k}"
  | .send p c m =>
    let f := if m.full then "F" else "U"
    s!"send:{p}:{c}:{f}:wh={showNats (sortNat m.wantHave)}:wb={showNats (sortNat m.wantBlock)}:cn={showNats (sortNat m.cancel)}"
  | .callGet seq k => s!"get:{seq}:{k}"
  | .callPut seq bs => s!"put:{seq}:{showBlocks bs}"
  | .blocks p bs => s!"blk:{p}:{showBlocks (bs.map fun kd => (kd.1 % 7, kd.2))}"

def showOuts (os : List Out) : String := " ".intercalate (sortStr (os.map showOut))

def showReq : Req → String
  | .sentWantHave => "SWH" | .gotHave => "GH" | .gotDontHave => "GDH"
  | .sentWantBlock => "SWB" | .gotBlock => "GB"

def showSending : Sending → String
  | .ready => "ready"
  | .requested t c => s!"req:{t}:{c}"
  | .requestReceived c => s!"rcv:{c}"
  | .sending c => s!"snd:{c}"
  | .failed c => s!"fail:{c}"

def showPeer (p : Nat) (ps : PeerSt) : String :=
  let req := "+".intercalate (ps.wl.req.toList.map fun kr => s!"{kr.1}.{showReq kr.2}")
  let b (x : Bool) := if x then "1" else "0"
  s!"{p}[{showNats ps.conns.toList};{showSending ps.sending};{b ps.sendFull};{req};{b ps.wl.force};{ps.wl.synced}]"

def showPeers (c : Client.State) : String :=
  ",".intercalate (c.peers.toList.map fun pp => showPeer pp.1 pp.2)

def showState (s : Node.State) : String :=
  let c := s.client
  let sv := s.server
  let peers := ",".intercalate (c.peers.toList.map fun pp => showPeer pp.1 pp.2)
  let waiters := ",".intercalate (c.waiters.toList.map fun kq => s!"{kq.1}:{showNats (sortNat kq.2)}")
  let swl := ",".intercalate (sv.wl.toList.map fun pw => s!"{pw.1}[{showNats pw.2.toList}]")
  let swt := ",".intercalate (sv.waiting.toList.map fun kp => s!"{kp.1}:{showNats (sortNat kp.2)}")
  s!"W={showNats c.wantlist.cids.toList}@{c.wantlist.revision}|P={peers}|Q={waiters}|A={showNats c.abort.keys}|T={c.tasks.length}|NB={c.newBlocks.length}|S={swl}|Wt={swt}|O={showNats (sortNat (sv.outq.map (·.1)))}|ST={sv.tasks.length}"

end Driver.NodeIO
