import Beetswap.Model.ClientLink
import Driver.NodeIO
import Driver.ConnVal
/-!
Replay of one node's recorded run — the behaviour's operations and the records of all its
connection handlers, in the order they happened — through the composition `Model/ClientLink`.

The behaviour side is driven by the recorded operations (as in the node stream, through
`Model/Node`), the handler side by the recorded inputs and probe answers (as in `ConnVal`, through
`Model/ConnHandler`, whose client half is the link's handler). What is checked here is the glue
that `Model/ClientLink` adds and its theorems rest on:

* a wantlist the real handler of a connection was given is one the model's behaviour handed to
  that connection and that is still waiting there (`deliverCmd`), and the model's handler state
  after taking it is the state of the full handler model;
* an event the real behaviour received from a connection is the oldest event the model's handler
  of that connection has returned and that is still under way (`deliverRep`), and the behaviour
  operation `Model/ClientLink` derives from it leaves the client in the state the node model and
  the implementation are in;
* `ConnectionClosed` arrives when the model's handler has finished `poll_close` and nothing is
  under way (`swarmClosed`);
* after every step the executable form of the hand-over discipline holds (`disciplined`).
-/
namespace Driver.LinkVal
open Beetswap Beetswap.ClientLink Std

structure LV where
  s : ClientLink.State := {}
  node : Node.State := {}
  hs : Std.HashMap Nat ConnVal.V := {}
  handovers : Nat := 0
  reports : Nat := 0

def clientReports (outs : List ConnHandler.Out) : List ClientHandler.Report :=
  outs.filterMap fun o => match o with
    | .ev (.report r) => some r
    | _ => none

def showReport (c : Nat) : ClientHandler.Report → String
  | .state .ready => "ready"
  | .state hs => s!"{ConnVal.showHS hs}:{c}"
  | .closingConn => "closing"

def sync (v : LV) : ClientLink.State :=
  { v.s with cl := { s := v.node.client, now := v.node.now, seq := v.node.seq } }

def sendsOf (outs : List Client.Out) : String :=
  " ".intercalate (NodeIO.sortStr ((outs.filter fun o => match o with | .send .. => true | _ => false).map NodeIO.showOut))

def clientOp : Node.Op → Option Client.Op
  | .get k f => some (.get k f)
  | .cancel q => some (.cancel q)
  | .complete n r => some (.complete n r)
  | .msg p hs ds bs _ => if hs.isEmpty && ds.isEmpty && bs.isEmpty then none else some (.msg p hs ds bs)
  | .tick ms => some (.tick ms)
  | _ => none

/-- One behaviour operation. -/
def stepB (v : LV) (opText : String) (implPeers : String) (implSends : String) : LV × Option String :=
  match opText.splitOn " " with
  | ["reset", sdh] =>
    ({ v with node := { client := { sdh := sdh.startsWith "1" } }, s := {}, hs := {} }, none)
  | toks =>
    match NodeIO.parseOp toks v.node.now with
    | none => (v, some s!"unreadable operation `{opText}`")
    | some op =>
      let s0 := sync v
      let (node', nouts, _) := Node.step v.node op
      let (s', bad, isRep) : ClientLink.State × Option String × Bool :=
        match op with
        | .connect p c => (ClientLink.step s0 (.connect p c), none, false)
        | .closed _ c _ =>
          match s0.links[c]? with
          | none => (s0, some s!"ConnectionClosed for connection {c}, which the model does not know", false)
          | some l =>
            if l.gone then (s0, some s!"ConnectionClosed for connection {c} twice", false)
            else if !(l.h.closing && l.h.queue.isEmpty && l.reps.isEmpty) then
              (s0, some s!"ConnectionClosed for connection {c} while the model's handler has not finished poll_close or events are under way (closing={l.h.closing}, queued={l.h.queue.length}, under way={l.reps.length})", false)
            else (ClientLink.step s0 (.swarmClosed c), none, false)
        | .closing _ c =>
          match (s0.links[c]?).bind (·.reps.head?) with
          | some .closingConn => (ClientLink.step s0 (.deliverRep c), none, true)
          | some r => (s0, some s!"the behaviour received `closing` from connection {c}, the model's handler returned `{showReport c r}` first", false)
          | none => (s0, some s!"the behaviour received `closing` from connection {c}, the model's handler has returned nothing that is under way", false)
        | .sending _ src st =>
          let got := NodeIO.showSending st
          match (s0.links[src]?).bind (·.reps.head?) with
          | some r =>
            let want := match r with
              | .state hs => NodeIO.showSending (toSending src hs)
              | .closingConn => "closing"
            if want == got then (ClientLink.step s0 (.deliverRep src), none, true)
            else (s0, some s!"the behaviour received `{got}` from connection {src}, the model's handler returned `{want}` first", false)
          | none => (s0, some s!"the behaviour received `{got}` from connection {src}, the model's handler has returned nothing that is under way", false)
        | .drain pref _ =>
          let r := Client.step s0.cl (.drain (Node.prefOf pref))
          let s1 := ClientLink.step s0 (.drain (Node.prefOf pref))
          (s1, if sendsOf r.2 != implSends then some s!"the behaviour handed over `{implSends}`, the model `{sendsOf r.2}`" else none, false)
        | _ =>
          match clientOp op with
          | some cop => (ClientLink.step s0 (.client cop), none, false)
          | none => (s0, none, false)
      let _ := nouts
      let v' := { v with s := s', node := node', reports := v.reports + (if isRep then 1 else 0) }
      if let some why := bad then (v', some why)
      else
        let mp := "P=" ++ NodeIO.showPeers s'.cl.s
        let np := "P=" ++ NodeIO.showPeers node'.client
        if mp != np then (v', some s!"after `{opText}` the composition's client has {mp}, the node model {np}")
        else if mp != implPeers then (v', some s!"after `{opText}` the model's client has {mp}, the implementation {implPeers}")
        else if !disciplined s' then (v', some s!"after `{opText}` a wantlist waits for a connection whose handler has not reported the outcome of the previous one")
        else (v', none)

/-- One handler record of connection `c`. -/
def stepH (v : LV) (c : Nat) (rest : String) : LV × Option String :=
  let hv := v.hs.getD c {}
  if rest.startsWith "in send-wantlist" then
    match v.s.links[c]? with
    | none => (v, some s!"the handler of connection {c} was given a wantlist, the model does not know the connection")
    | some l =>
      match l.cmds with
      | [] => (v, some s!"the handler of connection {c} was given a wantlist that the model's behaviour has not handed to this connection (or that was already taken)")
      | _ :: _ =>
        if l.gone || l.h.closing then
          (v, some s!"the handler of connection {c} was given a wantlist although the model's connection is closing")
        else
          let free := handlerFree l.h
          let s' := ClientLink.step v.s (.deliverCmd c)
          let (hv', bad) := ConnVal.stepLine hv rest
          let v' := { v with s := s', hs := v.hs.insert c hv', handovers := v.handovers + 1 }
          if !free then (v', some s!"the handler of connection {c} was given a wantlist before it reported the outcome of the previous one")
          else if let some why := bad then (v', some why)
          else
            match s'.links[c]? with
            | some l' =>
              -- wantlists carry different tags in the two models
              let norm (h : ClientHandler.H) : ClientHandler.H := { h with msg := h.msg.map fun _ => 0 }
              if norm l'.h != norm hv'.h.client then (v', some s!"after taking the wantlist the composition's handler of connection {c} differs from the client half of the handler model")
              else (v', none)
            | none => (v', none)
  else
    let (hv', bad) := ConnVal.stepLine hv rest
    let reps := clientReports hv'.lastOuts
    let s' : ClientLink.State :=
      match v.s.links[c]? with
      | some l => { v.s with links := v.s.links.insert c { l with h := hv'.h.client, reps := l.reps ++ reps } }
      | none => v.s
    let v' := { v with s := s', hs := v.hs.insert c hv' }
    if let some why := bad then (v', some why)
    else if !disciplined s' then (v', some s!"after `{rest}` a wantlist waits for connection {c} whose handler is not free")
    else (v', none)

/-- One line of a node's log: `B <op> ## <P=…> [## <sends>]` or `H c=<conn> p=<peer> <record>`. -/
def stepLine (v : LV) (line : String) : LV × Option String :=
  if line.startsWith "B " then
    match ((line.drop 2).toString).splitOn " ## " with
    | [op] => stepB v op "P=" ""
    | [op, p] => stepB v op p ""
    | op :: p :: sends :: _ => stepB v op p sends
    | [] => (v, none)
  else if line.startsWith "H " then
    match ((line.drop 2).toString).splitOn " " with
    | c :: _p :: rest =>
      match ((c.drop 2).toString).toNat? with
      | some c => stepH v c (" ".intercalate rest)
      | none => (v, some "unreadable handler record")
    | _ => (v, some "unreadable handler record")
  else (v, none)

end Driver.LinkVal
