import Beetswap.Model.Incoming
import Beetswap.Model.Builder
import Beetswap.Model.Client
import Beetswap.Model.Text
/-! Driver commands of the CID layer (shared text forms with harness/src/cidexec.rs). -/
namespace Driver.CidIO
open Beetswap Beetswap.Cid Beetswap.Incoming

def showCid (c : Cid) : String := s!"{c.version}.{c.codec}.{c.hash.code}.{Text.hex c.hash.digest}"

def parseCidText (s : String) : Option Cid :=
  match s.splitOn "." with
  | [v, codec, code, d] => do
    pure { version := ← v.toNat?, codec := ← codec.toNat?, hash := { code := ← code.toNat?, digest := ← Text.unhex d } }
  | _ => none

def showHashRes : HashRes → String
  | .ok mh => s!"ok:{mh.code}:{Text.hex mh.digest}"
  | .unknown => "unknown" | .size => "size" | .custom => "custom" | .fatal => "fatal"

def parseHashRes (s : String) : Option HashRes :=
  match s.splitOn ":" with
  | ["ok", code, d] => do pure (.ok { code := ← code.toNat?, digest := ← Text.unhex d })
  | ["unknown"] => some .unknown
  | ["size"] => some .size
  | ["custom"] => some .custom
  | ["fatal"] => some .fatal
  | _ => none

def le32 (n : Nat) : List Nat := [n % 256, n / 256 % 256, n / 65536 % 256, n / 16777216 % 256]

/-- A scripted hasher of the harness: `answers` maps a code to an answer kind. -/
def scripted (S idx : Nat) (answers : List (Nat × Char)) : Hasher := fun code data =>
  -- 'p': picky — refuses data starting with 0xee with a custom error, hashes everything else
  let kind := (answers.find? (·.1 == code)).map (·.2)
  let kind := if kind == some 'p' then (if data.head? == some 0xee then some 'c' else some 'o') else kind
  -- 'q': the same with "unknown code" as the refusal
  let kind := if kind == some 'q' then (if data.head? == some 0xee then some 'u' else some 'o') else kind
  match kind with
  | some 'o' =>
    let d := [idx % 256] ++ le32 (data.sum % 4294967296) ++ le32 (data.length % 4294967296)
    if d.length ≤ S then .ok { code := code, digest := d } else .size
  | some 'c' => .custom
  | some 'f' => .fatal
  | some 's' => .size
  | _ => .unknown

def parseSpec (spec : String) : Option (List (List (Nat × Char))) :=
  if spec.isEmpty then some [] else
  (spec.splitOn ";").mapM fun h =>
    ((h.splitOn ",").filter (fun s => !s.isEmpty && s != "-")).mapM fun kv =>
      match kv.splitOn ":" with
      | [c, k] => do pure (← c.toNat?, ← k.toList.head?)
      | _ => none

/-- Consultation order: most recently registered first, then the built-in (an oracle value). -/
def mkTable (S : Nat) (spec : List (List (Nat × Char))) (builtin : Hasher) : List (Nat × Hasher) :=
  let hs := spec.zipIdx.map fun (a, i) => (i + 1, scripted S (i + 1) a)
  hs.reverse ++ [(0, builtin)]

/-- Which scripted hashers are invoked: all up to and including the first non-unknown answer. -/
def callsOf (table : List (Nat × Hasher)) (code : Nat) (data : List Nat) : List Nat :=
  match table with
  | [] => []
  | (i, h) :: rest =>
    let here := if i == 0 then [] else [i]
    match h code data with
    | .unknown => here ++ callsOf rest code data
    | _ => here

def kv (s key : String) : Option String :=
  if s.startsWith (key ++ "=") then some (s.drop (key.length + 1)).toString else none

def showToCid : ToCidRes → String
  | .ok c => s!"ok {showCid c}"
  | .unknown => "unknown" | .size => "size" | .custom => "custom" | .fatal => "fatal" | .panic => "panic"

def sortStr (l : List String) : List String := l.mergeSort (· ≤ ·)

def showProc : ProcRes → String
  | .fatal => "fatal"
  | .panic => "panic"
  | .ok m =>
    let cm := clientOf m
    let ps := ",".intercalate (sortStr (cm.presences.map fun (c, t) => s!"{showCid c}:{t}"))
    let bs := ",".intercalate (sortStr (cm.blocks.map fun (c, d) => s!"{showCid c}:{Text.hex d}"))
    let w := match m.server with
      | none => "N"
      | some w => s!"{Text.showBool w.full}/" ++ ";".intercalate (w.entries.map Text.showEntry)
    s!"ok c={if m.client.isSome then 1 else 0} P={ps} B={bs} W={w}"

/-- lookup in an oracle association list keyed by byte strings -/
def lookupOracle {α : Type} (l : List (List Nat × α)) (k : List Nat) : Option α :=
  (l.find? (·.1 == k)).map (·.2)

def step (toks : List String) : Option String :=
  match toks with
  | ["pfx", h] => do
    let bs ← Text.unhex h
    pure (match CidPrefix.fromBytes bs with
      | some p => s!"some {p.version} {p.codec} {p.mhCode} {p.mhSize}"
      | none => "none")
  | ["pfxof", v, codec, code, size] => do
    let v ← v.toNat?; let codec ← codec.toNat?; let code ← code.toNat?; let size ← size.toNat?
    if size > 64 then pure "invalid-cid"
    else if v == 0 && !(code == 0x12 && size == 32) then pure "invalid-cid"
    else
      let c : Cid := if v == 0 then ⟨0, 0x70, ⟨code, List.replicate size 7⟩⟩ else ⟨1, codec, ⟨code, List.replicate size 7⟩⟩
      pure (Text.hex (CidPrefix.fromCid c).toBytes)
  | ["hash", s, t, code, data, b] => do
    let S ← s.toNat?; let spec ← parseSpec (← kv t "T"); let code ← code.toNat?
    let data ← Text.unhex data
    let builtin ← parseHashRes (← kv b "B")
    let table := mkTable S spec (fun _ _ => builtin)
    let r := tableHash (table.map (·.2)) code data
    pure s!"{showHashRes r} calls={",".intercalate ((callsOf table code data).map toString)}"
  | ["tocid", s, _t, pfx, data, h] => do
    let S ← s.toNat?; let pfx ← Text.unhex pfx; let data ← Text.unhex data
    let h ← kv h "H"
    match CidPrefix.fromBytes pfx with
    | none => pure "none"
    | some p =>
      let H ← parseHashRes h
      pure (showToCid (p.toCid S (fun _ _ => H) data))
  | ["conv", s, t, v, codec, code, d] => do
    let S ← s.toNat?; let T ← t.toNat?; let v ← v.toNat?; let codec ← codec.toNat?
    let code ← code.toNat?; let d ← Text.unhex d
    if d.length > S then pure "invalid-cid"
    else if v == 0 && !(code == 0x12 && d.length == 32) then pure "invalid-cid"
    else
      let c : Cid := if v == 0 then ⟨0, 0x70, ⟨code, d⟩⟩ else ⟨1, codec, ⟨code, d⟩⟩
      let c2 := convertCid T c
      let m2 := convertMultihash T c.hash
      let back := c2.bind (convertCid S)
      let sc := match c2 with | some c => s!"some:{showCid c}" | none => "none"
      let sm := match m2 with | some m => s!"some:{m.code}:{Text.hex m.digest}" | none => "none"
      let sb := match c2, back with
        | none, _ => "-"
        | some _, some b => if b == c then "1" else "0"
        | some _, none => "-"
      pure s!"{sc} mh={sm} back={sb}"
  | ["procmsg", s, _t, msg, p, h] => do
    let S ← s.toNat?
    let msg ← Text.parseMessage msg
    let pv ← kv p "P"
    let hv ← kv h "H"
    let ps := if pv.isEmpty then [] else pv.splitOn ";"
    let hs := if hv.isEmpty then [] else hv.splitOn ";"
    if ps.length != msg.presences.length || hs.length != msg.payload.length then none
    else
      -- oracles are positional; turn them into functions of the bytes they were computed from
      let parseTab ← (msg.presences.zip ps).mapM fun (pr, o) =>
        if o == "-" then some (pr.cid, (none : Option Cid)) else (parseCidText o).map fun c => (pr.cid, some c)
      let hashTab ← (msg.payload.zip hs).mapM fun (b, o) =>
        if o == "-" then some ((b.pfx, b.data), HashRes.unknown)
        else (parseHashRes o).map fun r => ((b.pfx, b.data), r)
      let parse := fun bs => ((parseTab.find? (·.1 == bs)).map (·.2)).join
      -- the hash oracle is keyed by (code, data); recover the code through the prefix
      let H : Hasher := fun code data =>
        match hashTab.find? (fun e => e.1.2 == data &&
            (match CidPrefix.fromBytes e.1.1 with | some p => p.mhCode == code | none => false)) with
        | some e => e.2
        | none => .unknown
      pure (showProc (processMessage S H parse msg))
  | ["getsize", sn, ss, v, codec, code, d] => do
    let SN ← sn.toNat?; let SS ← ss.toNat?; let v ← v.toNat?; let codec ← codec.toNat?
    let code ← code.toNat?; let d ← Text.unhex d
    if d.length > SS then pure "invalid-cid"
    else if v == 0 && !(code == 0x12 && d.length == 32) then pure "invalid-cid"
    else
      let c : Cid := if v == 0 then ⟨0, 0x70, ⟨code, d⟩⟩ else ⟨1, codec, ⟨code, d⟩⟩
      -- `Behaviour::get` = `ClientBehaviour::get` with `fits` = whether `convert_cid` succeeds
      let fits := (convertCid SN c).isSome
      let (s, q) := Client.get {} 0 fits
      let (_, _, outs) := Client.drain s 0 0 (fun _ => none)
      pure (match outs with
        | [.callGet _ _] => "lookup"
        | [.err q' 0] => if q' == q then "err" else "odd"
        | _ => "odd")
  | ["proto", h] =>
    if h == "N" then
      some (match Builder.build none with
        | .built s => s!"built {Text.hex ((String.ofList s).toUTF8.toList.map (·.toNat))}"
        | .rejected => "rejected" | .panic => "panic")
    else do
      let bs ← Text.unhex h
      let s ← String.fromUTF8? (ByteArray.mk (bs.map (·.toUInt8)).toArray)
      pure (match Builder.build (some s.toList) with
        | .built s => s!"built {Text.hex ((String.ofList s).toUTF8.toList.map (·.toNat))}"
        | .rejected => "rejected" | .panic => "panic")
  | _ => none

end Driver.CidIO
