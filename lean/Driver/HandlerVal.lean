import Beetswap.Model.ClientHandler
/-!
Validation of recorded connection-handler traces (Tier 2 `WrapHandler` logs) against the
automaton `Model/ClientHandler`. What the sink and the timer answered is not observable, so the
validator keeps the *set* of automaton states compatible with the observations so far: an
observed output must be producible from one of them under some environment answer.
-/
namespace Driver.HandlerVal
open Beetswap.ClientHandler

def allEnvs : List Env := Id.run do
  let ios := [IoRes.ok, IoRes.err, IoRes.pending]
  let mut out := []
  for t in [false, true] do
    for pr in ios do
      for ss in [false, true] do
        for f in ios do
          out := { timerFired := t, pollReady := pr, startSendOk := ss, flush := f : Env } :: out
  return out

inductive Obs where
  | sendWantlist (w : Nat)
  | setStream
  | allocFailed
  | outReport (r : Report)
  | outOpen
  | closeReport (r : Report)
  | halted
  | ignore

def parseState (s : String) : Option HS :=
  if s.startsWith "received" then some .requestReceived
  else if s.startsWith "sending" then some .sending
  else if s.startsWith "ready" then some .ready
  else if s.startsWith "failed" then some .failed
  else none

def parseObs (rest : String) : Obs :=
  let t := rest.splitOn " "
  match t with
  | "in" :: "send-wantlist" :: n :: _ => .sendWantlist ((n.drop 1).toString.toNat?.getD 0)
  | ["in", "outbound-stream", "client"] => .setStream
  | ["in", "dial-upgrade-error", "client"] => .allocFailed
  | ["out", "report", s] => match parseState s with | some s => .outReport (.state s) | none => .ignore
  | "out" :: "open-substream" :: "client" :: _ => .outOpen
  | ["out", "closing"] => .outReport .closingConn
  | ["close", "report", s] => match parseState s with | some s => .closeReport (.state s) | none => .ignore
  | ["close", "closing"] => .closeReport .closingConn
  | ["halted"] => .halted
  | _ => .ignore

def dedup (l : List H) : List H := l.foldl (fun acc h => if acc.contains h then acc else acc ++ [h]) []

/-- the observable result of a `poll` step -/
def pollObs (outs : List Out) : Option Out :=
  outs.reverse.find? fun o => match o with
    | .report _ => true
    | .openSubstream => true
    | _ => false

def stepSet (states : List H) (sid : Nat) (o : Obs) : List H × Nat :=
  match o with
  | .ignore => (states, sid)
  | .sendWantlist w =>
    -- `SendingState::RequestReceived` carries an `Instant`: a wantlist handed over while the previous one
    -- is still outstanding (outside the environment's obligations: known finding F14) is reported
    -- again if the clock has moved; the automaton's state has no time, so both are accepted here
    (dedup (states.flatMap fun h =>
      let h' := (step h (.sendWantlist w)).1
      if h.ss == .requestReceived && !h.halted then [h', { h' with queue := h'.queue ++ [.state .requestReceived] }] else [h']), sid)
  | .setStream => (dedup (states.map fun h => (step h (.setStream sid)).1), sid + 1)
  | .allocFailed => (dedup (states.map fun h => (step h .allocFailed).1), sid)
  | .outReport r =>
    (dedup (states.flatMap fun h => allEnvs.filterMap fun env =>
      let (h', outs) := step h (.poll env)
      if pollObs outs == some (.report r) then some h' else none), sid)
  | .outOpen =>
    (dedup (states.flatMap fun h => allEnvs.filterMap fun env =>
      let (h', outs) := step h (.poll env)
      if pollObs outs == some .openSubstream then some h' else none), sid)
  | .closeReport r =>
    (dedup (states.filterMap fun h =>
      let (h', outs) := step h .pollClose
      if pollObs outs == some (.report r) then some h' else none), sid)
  | .halted =>
    -- `connection_keep_alive()` returned false: a poll (with some environment answer and no
    -- observable output, or the previous observable one) has halted the handler
    (dedup (states.filter (·.halted) ++ (states.flatMap fun h => allEnvs.filterMap fun env =>
      let (h', _) := step h (.poll env)
      if h'.halted then some h' else none)), sid)

/-- Validate the event lines of one connection. Returns the index of the first line that no
automaton state explains. -/
def validate (lines : List String) : Option (Nat × String) := Id.run do
  let mut states : List H := [{}]
  let mut sid := 0
  let mut n := 0
  for l in lines do
    let (s', sid') := stepSet states sid (parseObs l)
    if s'.isEmpty then
      return some (n, l)
    states := s'
    sid := sid'
    n := n + 1
  return none

end Driver.HandlerVal
