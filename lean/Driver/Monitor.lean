import Beetswap.Spec.ClientSpec
import Beetswap.Spec.ServerSpec
import Driver.NodeIO
/-!
Implementation-vs-specification monitors: the executable `Spec` vocabulary (history variables of
`Spec/ClientSpec`, the invariant of `Spec/ServerSpec`) evaluated on traces *recorded from the
real code*: op lines and the implementation's own outputs / state snapshots. No model state is
involved: a violation found here is a concrete history on which the implementation breaks the
property.
-/
namespace Driver.Monitor
open Std Beetswap Beetswap.Client Beetswap.Wl Beetswap.Spec.ClientSpec

structure PeerSnap where
  conns : List Nat
  sending : String
  sendFull : Bool
  req : List (Nat × String)
  force : Bool
  synced : Nat

structure Snap where
  want : List Nat := []
  rev : Nat := 0
  peers : List (Nat × PeerSnap) := []
  waiters : List (Nat × List Nat) := []
  abort : List Nat := []
  tasks : Nat := 0
  newBlocks : Nat := 0
  swl : List (Nat × List Nat) := []
  swt : List (Nat × List Nat) := []
  outq : List Nat := []
  stasks : Nat := 0

def plusList (s : String) : Option (List Nat) :=
  if s.isEmpty then some [] else (s.splitOn "+").mapM (·.toNat?)

def commaList (s : String) : List String := if s.isEmpty then [] else s.splitOn ","

def parsePeer (s : String) : Option (Nat × PeerSnap) :=
  -- p[conns;sending;sf;req;force;synced]
  match s.splitOn "[" with
  | [p, rest] =>
    match (rest.dropEnd 1).toString.splitOn ";" with
    | [conns, sending, sf, req, force, synced] => do
      let req ← (if req.isEmpty then some [] else (req.splitOn "+").mapM fun e =>
        match e.splitOn "." with
        | [k, st] => k.toNat?.map (·, st)
        | _ => none)
      pure (← p.toNat?, { conns := ← plusList conns, sending := sending, sendFull := sf == "1",
                           req := req, force := force == "1", synced := ← synced.toNat? })
    | _ => none
  | _ => none

def parseKeyed (s : String) (open_ close : String) : Option (Nat × List Nat) :=
  -- k:a+b   or  p[a+b]
  if close.isEmpty then
    match s.splitOn open_ with
    | [k, v] => do pure (← k.toNat?, ← plusList v)
    | _ => none
  else
    match s.splitOn open_ with
    | [k, v] => do pure (← k.toNat?, ← plusList (v.dropEnd 1).toString)
    | _ => none

def field (parts : List String) (key : String) : Option String :=
  (parts.find? (·.startsWith (key ++ "="))).map fun s => (s.drop (key.length + 1)).toString

def parseSnap (s : String) : Option Snap := do
  let parts := s.splitOn "|"
  let w ← field parts "W"
  let (want, rev) ← (match w.splitOn "@" with
    | [a, b] => do pure (← plusList a, ← b.toNat?)
    | _ => none)
  let peers ← (commaList (← field parts "P")).mapM parsePeer
  let waiters ← (commaList (← field parts "Q")).mapM (parseKeyed · ":" "")
  let abort ← plusList (← field parts "A")
  let tasks ← (← field parts "T").toNat?
  let nb ← (← field parts "NB").toNat?
  let swl ← (commaList (← field parts "S")).mapM (parseKeyed · "[" "]")
  let swt ← (commaList (← field parts "Wt")).mapM (parseKeyed · ":" "")
  let outq ← plusList (← field parts "O")
  let st ← (← field parts "ST").toNat?
  pure { want, rev, peers, waiters, abort, tasks, newBlocks := nb, swl, swt, outq, stasks := st }

def lookup {α : Type} (l : List (Nat × α)) (k : Nat) : Option α := (l.find? (·.1 == k)).map (·.2)

structure MGhost where
  told : List Nat := []
  deliv : List Nat := []
  dh : List Nat := []
  haveOk : List Nat := []
  sentAny : Bool := false

structure MState where
  line : Nat := 0
  histStart : Nat := 0
  prev : Snap := {}
  ghosts : List (Nat × MGhost) := []
  events : List (Nat × Nat) := []        -- query -> number of events
  issued : Nat := 0
  clean : List Nat := []                 -- queries cancelled before their answer reached the node
  cancelled : List Nat := []             -- every query the user cancelled
  qkey : List (Nat × Nat) := []          -- query -> requested cid
  calls : List (Nat × Nat) := []         -- blockstore call -> cid
  avail : List (Nat × Nat) := []         -- (cid, data) legitimately available to the server half
  puts : List (Nat × List (Nat × Nat)) := []
  accepted : List (Nat × Nat) := []      -- (cid, data) accepted by the client gate
  refWl : List (Nat × List Nat) := []    -- per peer: the reference fold of its wantlist messages (C06 / C07)
  owed : List (Nat × Nat) := []          -- (peer, cid): new wants whose blockstore lookup has not started yet
  stored : List (Nat × List Nat) := []   -- cid stored by the node's own fetch since the last drain, peers waiting for it then
  now : Nat := 0                         -- virtual time (sum of the ticks)
  refreshAt : Nat := 30000               -- when the current 30 s refresh period ends
  dueFull : List (Nat × String) := []    -- peers that are due a full wantlist, and why (refresh expired / connection closed mid-send)
  conns : List (Nat × List Nat) := []    -- per peer: the connections the swarm has reported established and not yet closed
  newGets : List (Nat × Nat) := []       -- (query, cid) of the gets since the last poll
  missedSince : List Nat := []           -- CIDs whose blockstore lookup completed with a miss since the last poll
  outstanding : List (Nat × Nat) := []   -- (peer, connection): handed a wantlist whose outcome (Ready / Failed from that connection, or its close) is not known yet

def rm (l ks : List Nat) : List Nat := l.filter (· ∉ ks)
def add (l ks : List Nat) : List Nat := l ++ ks.filter (· ∉ l)

structure SendEv where
  p : Nat
  c : Nat
  full : Bool
  wh : List Nat
  wb : List Nat
  cn : List Nat
  other : Bool

def parseOutTok (t : String) : Option SendEv :=
  match t.splitOn ":" with
  | "send" :: p :: c :: f :: rest => do
    let g (key : String) : Option (List Nat) := do
      plusList (← (rest.find? (·.startsWith (key ++ "="))).map fun s => (s.drop (key.length + 1)).toString)
    pure { p := ← p.toNat?, c := ← c.toNat?, full := f == "F", wh := ← g "wh", wb := ← g "wb", cn := ← g "cn",
           other := rest.any (·.startsWith "other=") }
  | _ => none

def parseBlk (t : String) : Option (Nat × List (Nat × Nat)) :=
  match t.splitOn ":" with
  | ["blk", p, bs] => do
    let bs ← (if bs.isEmpty then some [] else (bs.splitOn "+").mapM fun e =>
      match e.splitOn "." with
      | [a, b] => do pure (← a.toNat?, ← b.toNat?)
      | _ => none)
    pure (← p.toNat?, bs)
  | _ => none

abbrev Viol := String × String   -- property, text

/-- Reference semantics of one wantlist message (Bitswap: a full list replaces, cancels are applied
before wants, at most 1024 CIDs are recorded): entries are `(cid?, cancel)`. -/
def refApply (cur : List Nat) (full : Bool) (es : List (Option Nat × Bool)) : List Nat :=
  if full then
    ((es.filterMap fun e => if e.2 then none else e.1).take 1024).eraseDups
  else
    let cancels := es.filterMap fun e => if e.2 then e.1 else none
    let adds := es.filterMap fun e => if e.2 then none else e.1
    adds.foldl (fun (acc : List Nat × Bool) k =>
      if acc.2 then acc
      else if acc.1.length ≥ 1024 then (acc.1, true)
      else if k ∈ acc.1 then acc else (acc.1 ++ [k], false)) (cur.filter (· ∉ cancels), false) |>.1

def parseWl (w : String) : Option (Bool × List (Option Nat × Bool)) :=
  if w == "N" then none else
  match w.splitOn "/" with
  | [f, es] =>
    some (f == "1", (if es.isEmpty then [] else es.splitOn ",").map fun t =>
      let c := t.endsWith "!"
      let b := if c then (t.dropEnd 1).toString else t
      (b.toNat?, c))
  | _ => none

def sameSet (a b : List Nat) : Bool := a.all (· ∈ b) && b.all (· ∈ a)

def quiescent (s : Snap) (ps : PeerSnap) : Bool :=
  ps.sending == "ready" && !ps.sendFull && !ps.force && ps.synced == s.rev

/-- State-level checks on the implementation's snapshot. -/
def checkState (st : MState) (s : Snap) : List Viol :=
  let v13 := s.swl.filterMap fun (p, ks) =>
    if ks.length > 1024 then some ("C13", s!"server records {ks.length} > 1024 wanted CIDs for peer {p}") else none
  let v13c := s.swl.filterMap fun (p, _) =>
    let n := (s.swt.map fun (_, ps) => (ps.filter (· == p)).length).foldl (· + ·) 0
    if n > 1024 then some ("C13", s!"peer {p} is registered {n} > 1024 times in the server's waiter index") else none
  let v13b := if s.abort.length > s.tasks then [("C13", s!"{s.abort.length} abort handles but only {s.tasks} running tasks")] else []
  -- the serving side's invariant (Spec/ServerSpec.Inv) on the implementation's own state
  let v06a := s.swt.flatMap fun (k, ps) =>
    (if ps.isEmpty then [("C06", s!"empty waiter list kept for cid {k}")] else []) ++
    (if ps.eraseDups.length != ps.length then [("C07", s!"peer registered twice as waiting for cid {k}: {ps}"),
        ("C13", s!"a peer is registered {ps.length - ps.eraseDups.length + 1} times as waiting for cid {k}: the records kept for one peer grow with every repetition of a want ({ps.take 12})")] else []) ++
    ps.filterMap fun p =>
      if k ∈ ((lookup s.swl p).getD []) then none
      else some ("C07", s!"peer {p} waits for cid {k} which is not in its recorded wantlist")
  let v06b := s.swl.flatMap fun (p, ks) => ks.filterMap fun k =>
    if p ∈ ((lookup s.swt k).getD []) then none
    else some ("C06", s!"peer {p} wants cid {k} but is not registered as waiting for it")
  -- wantlist = CIDs with waiting queries (C03)
  let v03 := (if s.want.all (fun k => (lookup s.waiters k).isSome) && s.waiters.all (fun kq => kq.1 ∈ s.want && !kq.2.isEmpty)
    then [] else [("C03", s!"wantlist {s.want} differs from the CIDs with waiting queries {s.waiters.map (·.1)}")])
  -- C04 Q1 / Q2 at quiescence, with the history variables
  let v04 := s.peers.flatMap fun (p, ps) =>
    match lookup st.ghosts p with
    | none => []
    | some g =>
      if quiescent s ps then
        (g.told.filterMap fun k => if k ∈ g.deliv || k ∈ s.want then none
          else some ("C04", s!"nothing to send to peer {p}, yet its view holds cid {k} which is neither wanted nor delivered by it")) ++
        (s.want.filterMap fun k => if k ∈ g.told || k ∈ g.dh || k ∈ g.deliv then none
          else some ("C04", s!"nothing to send to peer {p}, yet wanted cid {k} is not in its view (no DONT_HAVE, not delivered)"))
      else []
  -- the record of every connected peer is the reference fold of its messages minus what was served
  let vref := st.refWl.flatMap fun (p, ks) =>
    let rec_ := (lookup s.swl p).getD []
    (ks.filterMap fun k => if k ∈ rec_ then none
      else some ("C06", s!"the server's record of peer {p} lacks cid {k}, which the peer wants according to its wantlist messages")) ++
    (rec_.filterMap fun k => if k ∈ ks then none
      else some ("C07", s!"the server's record of peer {p} holds cid {k}, which the peer does not want according to its wantlist messages"))
  -- C15: the serving side keeps its record of a peer while any connection of the peer is established
  let v15 := st.conns.filterMap fun (p, cs) =>
    if cs.isEmpty || (lookup s.swl p).isSome then none
    else some ("C15", s!"the server half has no record of peer {p} although its connection(s) {cs} are established: its wants were discarded with another connection, and further wantlists from it are ignored")
  v13 ++ v13b ++ v13c ++ v06a ++ v06b ++ v03 ++ v04 ++ vref ++ v15

def bump (l : List (Nat × Nat)) (q : Nat) : List (Nat × Nat) :=
  if l.any (·.1 == q) then l.map fun e => if e.1 == q then (e.1, e.2 + 1) else e else l ++ [(q, 1)]

/-- C05: the connection a transmission to peer `p` is tracked on closes while the peer keeps another
one: the peer is due a full wantlist. -/
def markClosedMidSend (st : MState) (prev snap : Snap) (p c : Nat) : MState :=
  match lookup prev.peers p, lookup snap.peers p with
  | some a, some _ =>
    let tracked := (a.sending.startsWith "req:" || a.sending.startsWith "rcv:" || a.sending.startsWith "snd:")
      && a.sending.endsWith s!":{c}"
    if tracked && !(st.dueFull.any (·.1 == p)) then
      { st with dueFull := st.dueFull ++ [(p, s!"connection {c} closed while a transmission was tracked on it")] }
    else st
  | _, _ => st

/-- One (op, implementation output) pair. -/
def stepMon (st : MState) (op : String) (out : String) : MState × List Viol :=
  let st := { st with line := st.line + 1 }
  let toks := op.splitOn " "
  match toks with
  | ["n", "reset", _] => ({ line := st.line, histStart := st.line }, [])
  | "n" :: rest =>
    if out.startsWith "panic" || out.startsWith "bad-op" then (st, []) else
    if rest == ["assert-empty"] then
      (st, if out == "empty" then [] else [("C13", s!"every query is resolved or cancelled and every peer is gone, yet state is retained: {(out.drop 9).toString.take 200}")]) else
    let (head, stateTxt) := match out.splitOn " ## " with
      | [a, b] => (a, b)
      | _ => (out, "")
    match parseSnap stateTxt with
    | none => (st, [("HARNESS", s!"unparsable state snapshot: {stateTxt.take 80}")])
    | some snap =>
      let prev := st.prev
      let outToks := (head.splitOn " ").filter (!·.isEmpty)
      -- sessions: history of a peer is discarded when the peer entry disappears
      let ghosts := st.ghosts.filter fun (p, _) => (lookup snap.peers p).isSome
      let ghosts := ghosts ++ (snap.peers.filterMap fun (p, _) => if (lookup ghosts p).isSome then none else some (p, ({} : MGhost)))
      let st := { st with ghosts := ghosts }
      let (st, v) : MState × List Viol := match rest with
        | ["get", k, _] =>
          match outToks.find? (·.startsWith "q=") with
          | some q =>
            let q := ((q.drop 2).toString.toNat?).getD 0
            let v := if q != st.issued then [("C03", s!"get returned id {q}, expected the fresh id {st.issued}")] else []
            let fits := rest.getLast? == some "1"
            ({ st with issued := max st.issued (q + 1), qkey := (q, k.toNat?.getD 0) :: st.qkey,
                       newGets := if fits then st.newGets ++ [(q, k.toNat?.getD 0)] else st.newGets }, v)
          | none => (st, [("C03", "get returned no query id")])
        | ["cancel", q] =>
          let q := q.toNat?.getD 0
          let noEvent := (lookup st.events q).isNone
          let held := q ∈ prev.abort || prev.waiters.any (fun kq => q ∈ kq.2)
          let st := { st with cancelled := q :: st.cancelled }
          (if noEvent && held then { st with clean := q :: st.clean } else st, [])
        | ["complete", seq, r] =>
          let seq := seq.toNat?.getD 0
          match r.splitOn ":" with
          | ["hit", d] =>
            match lookup st.calls seq with
            | some k => ({ st with avail := (k, d.toNat?.getD 0) :: st.avail }, [])
            | none => (st, [])
          | ["miss"] =>
            match lookup st.calls seq with
            | some k => ({ st with missedSince := k :: st.missedSince }, [])
            | none => (st, [])
          | ["putok"] =>
            match lookup st.puts seq with
            | some bs => ({ st with avail := bs ++ st.avail,
                                    stored := st.stored ++ bs.map (fun kd => (kd.1, (lookup prev.swt kd.1).getD [])) }, [])
            | none => (st, [])
          | _ => (st, [])
        | ["newblocks", b] =>
          ({ st with avail := ((NodeIO.parsePairs b).getD []) ++ st.avail }, [])
        | "msg" :: p :: h :: d :: b :: w :: _ =>
          let p := p.toNat?.getD 0
          -- serving side: the reference fold of this peer's wantlist messages
          let (st, vref) : MState × List Viol :=
            match (NodeIO.kv w "w").bind parseWl, lookup st.refWl p with
            | some (full, es), some cur =>
              let new := refApply cur full es
              let added := new.filter (· ∉ cur)
              let st := { st with refWl := st.refWl.map (fun e => if e.1 == p then (p, new) else e),
                                  owed := st.owed.filter (fun pk => !(pk.1 == p && pk.2 ∉ new)) ++ added.map (p, ·) }
              let rec_ := (lookup snap.swl p).getD []
              (st, (new.filterMap fun k => if k ∈ rec_ then none
                     else some ("C06", s!"peer {p} expressed a want for cid {k} (wantlist messages applied in order) but the server's record lacks it")) ++
                   (rec_.filterMap fun k => if k ∈ new then none
                     else some ("C07", s!"peer {p} withdrew its want for cid {k} (cancel / full wantlist omitting it) but the server still records it")))
            | _, _ => (st, [])
          let hs := ((NodeIO.kv h "h").bind NodeIO.natList).getD []
          let ds := ((NodeIO.kv d "d").bind NodeIO.natList).getD []
          let bs := ((NodeIO.kv b "b").bind NodeIO.parsePairs).getD []
          match lookup prev.peers p with
          | none => (st, vref)
          | some ps =>
            let accepted := bs.filter fun kd => kd.1 ∈ prev.want
            let gs := st.ghosts.map fun (q, g) =>
              if q != p then (q, g) else
              let g := { g with haveOk := add g.haveOk hs, dh := rm g.dh hs }
              let g := { g with haveOk := rm g.haveOk ds, dh := add g.dh (ds.filter fun k => (lookup ps.req k).isSome) }
              let g := { g with deliv := add g.deliv (bs.map (·.1)), dh := rm g.dh (accepted.map (·.1)) }
              (q, g)
            -- C01 gate: the wantlist after the message is the old one minus the accepted CIDs
            let v := if snap.want.all (fun k => k ∈ prev.want) then [] else [("C01", "an incoming message added CIDs to the wantlist")]
            -- C16: a message carrying both a wantlist and blocks / presences has both parts applied
            let v16 := if vref.isEmpty || (hs.isEmpty && ds.isEmpty && bs.isEmpty) then []
              else [("C16", s!"message from peer {p} carried blocks / presences and a wantlist, but the wantlist part was not applied to the server's record")]
            ({ st with ghosts := gs, accepted := accepted ++ st.accepted }, v ++ vref ++ v16)
        | "connect" :: p :: c :: _ =>
          let p := p.toNat?.getD 0
          let c := c.toNat?.getD 0
          let st := if (lookup st.refWl p).isSome then st else { st with refWl := st.refWl ++ [(p, [])] }
          let st := { st with conns := if (lookup st.conns p).isSome then st.conns.map (fun e => if e.1 == p then (p, add e.2 [c]) else e)
                                       else st.conns ++ [(p, [c])] }
          match lookup prev.peers p, lookup snap.peers p with
          | some a, some b =>
            let same := a.sending == b.sending && a.sendFull == b.sendFull && a.req == b.req && a.force == b.force && a.synced == b.synced
            let conns := b.conns.all (fun x => x == c || x ∈ a.conns) && a.conns.all (· ∈ b.conns) && c ∈ b.conns
            (st, (if same && conns then [] else [("C15", s!"a further connection {c} of peer {p} changed its exchange state")]) ++
                 (if lookup prev.swl p == lookup snap.swl p then [] else [("C15", s!"a further connection {c} of peer {p} changed its recorded wantlist")]))
          | none, some b =>
            (st, if b.sendFull && b.sending == "ready" then [] else [("C05", s!"new session of peer {p} does not start with a full wantlist pending")])
          | _, _ => (st, [])
        | ["closed", p, _c, rem] =>
          let p := p.toNat?.getD 0
          let st := markClosedMidSend st prev snap p (_c.toNat?.getD 0)
          let st := { st with outstanding := st.outstanding.filter (· != (p, _c.toNat?.getD 0)) }
          let st := { st with conns := if rem == "0" then st.conns.filter (·.1 != p)
                                       else st.conns.map (fun e => if e.1 == p then (p, rm e.2 [_c.toNat?.getD 0]) else e) }
          let st := if rem == "0" then { st with refWl := st.refWl.filter (·.1 != p), owed := st.owed.filter (·.1 != p) } else st
          if rem == "0" then
            (st, (if (lookup snap.swl p).isSome || snap.swt.any (fun kp => p ∈ kp.2) then [("C13", s!"server-side state about peer {p} kept after its last connection closed")] else []) ++
                 (if (lookup snap.peers p).isSome then [("C13", s!"client-side state about peer {p} kept after its last connection closed")] else []))
          else
            match lookup prev.peers p, lookup snap.peers p with
            | some a, none =>
              (st, if a.conns.all (· == (_c.toNat?.getD 0)) then []
                   else [("C15", s!"peer {p} discarded when connection {_c} closed although its connections {a.conns} remained")])
            | _, _ => (st, [])
        | ["closing", p, c] =>
          let p := p.toNat?.getD 0
          let c := c.toNat?.getD 0
          let st := markClosedMidSend st prev snap p c
          let st := { st with outstanding := st.outstanding.filter (· != (p, c)) }
          match lookup prev.peers p, lookup snap.peers p with
          | some a, none =>
            (st, if a.conns.all (· == c) then []
                 else [("C15", s!"peer {p} discarded when connection {c} was closing although its connections {a.conns} remained")])
          | _, _ => (st, [])
        | ["tick", ms] => ({ st with now := st.now + ms.toNat?.getD 0 }, [])
        | ["sending", p, src, st'] =>
          -- C14: a `Ready` or `Failed` report from a connection is the outcome of the wantlist it was handed
          let p := p.toNat?.getD 0
          let src := src.toNat?.getD 0
          let known := st' == "ready" || st'.startsWith "failed"
          let st := if known then { st with outstanding := st.outstanding.filter (· != (p, src)) } else st
          if st' != "ready" then (st, []) else
          match lookup snap.peers p with
          | some ps =>
            if ps.sending == "ready" then
              ({ st with dueFull := st.dueFull.filter fun (q, why) => !(q == p && why.startsWith "connection") }, [])
            else (st, [])
          | none => (st, [])
        | "drain" :: _ =>
          -- outputs of the drain
          let sends := outToks.filterMap parseOutTok
          -- C05: the refresh period ended: every peer of that moment is due a full wantlist
          let expired := st.now ≥ st.refreshAt
          let due0 := if expired then
              st.dueFull ++ (prev.peers.filterMap fun (p, _) =>
                if st.dueFull.any (·.1 == p) then none else some (p, s!"the 30 s refresh period ended at {st.now} ms"))
            else st.dueFull
          let st := if expired then { st with refreshAt := st.now + 30000 } else st
          -- … it is sent in this drain, or stays pending, or the transmission that was tracked on the closed
          -- connection is still waiting for its failure report / acknowledgement timeout
          let vdue := due0.filterMap fun (p, why) =>
            match lookup snap.peers p with
            | none => none
            | some ps =>
              match sends.find? (·.p == p) with
              | some e => if e.full then none else some ("C05", s!"peer {p} is due a full wantlist ({why}) but was sent an update")
              | none =>
                if ps.sendFull || !(ps.sending == "ready") then none
                else some ("C05", s!"peer {p} is due a full wantlist ({why}); after a poll it is idle, nothing was sent and no full wantlist is pending")
          -- C15: closing one of several connections leaves the peer served through the others — what was on its way
          -- over the closed connection must not be forgotten
          let vdue15 := vdue.filterMap fun (_, text) =>
            if (text.splitOn "(connection ").length > 1 then
              some ("C15", text ++ ": what was handed to the closed connection is lost and not repeated over the remaining one(s)")
            else none
          let st := { st with dueFull := due0.filter fun (p, _) =>
            (lookup snap.peers p).isSome && !(sends.any fun e => e.p == p && e.full) &&
            !(vdue.any fun v => v.2.startsWith s!"peer {p} ") }
          let blks := outToks.filterMap parseBlk
          let evs := outToks.filterMap fun t => match t.splitOn ":" with
            | ["resp", q, d] => some (q.toNat?.getD 0, some (d.toNat?.getD 999999999))
            | ["err", q, _] => some (q.toNat?.getD 0, none)
            | _ => none
          let calls := outToks.filterMap fun t => match t.splitOn ":" with
            | ["get", s, k] => some (s.toNat?.getD 0, k.toNat?.getD 0)
            | _ => none
          let puts := outToks.filterMap fun t => match t.splitOn ":" with
            | ["put", s, bs] => some (s.toNat?.getD 0, ((bs.splitOn "+").filterMap fun e => match e.splitOn "." with
                | [a, b] => some (a.toNat?.getD 0, b.toNat?.getD 0) | _ => none))
            | _ => none
          -- C03
          let events := evs.foldl (fun l e => bump l e.1) st.events
          let v03 := evs.flatMap fun (q, _) =>
            (if ((lookup events q).getD 0) > 1 then [("C03", s!"more than one event for query {q}")] else []) ++
            (if q ≥ st.issued then [("C03", s!"event for query id {q} that was never issued")] else []) ++
            (if q ∈ st.clean then [("C03", s!"event for query {q} that was cancelled before its answer reached the node")] else [])
          -- C03: a get consults the blockstore (a block that is present locally is answered from it): by the end of
          -- the next poll a lookup for the CID has been started for every new query that is still unanswered
          let vget := (st.newGets.map (·.2)).eraseDups.filterMap fun k =>
            let waiting := st.newGets.filter fun (q, k') => k' == k && !(q ∈ st.cancelled) && !(evs.any (·.1 == q))
            let started := (calls.filter (·.2 == k)).length
            if waiting.length > started then
              some ("C03", s!"{waiting.length} new get(s) for cid {k} (queries {waiting.map (·.1)}) but only {started} blockstore lookup(s) for it were started by the next poll: a block present in the local blockstore would not be answered from it")
            else none
          -- C03: a CID enters the wantlist only because a local lookup for it missed: a lookup that fails yields an error
          -- event, one that hits a response — neither turns into a request to the network
          let vmiss := (snap.want.filter (· ∉ prev.want)).filterMap fun (k : Nat) =>
            if st.missedSince.contains k then none
            else some ("C03", s!"cid {k} entered the wantlist although no blockstore lookup for it missed since the last poll: a failed (or successful) local lookup was turned into a request to the network instead of an event")
          -- C01 / C03: a response carries bytes that the client gate accepted for the query's own CID, or
          -- that the node's blockstore returned for it
          let vresp := evs.flatMap fun (q, d) =>
            match d, lookup st.qkey q with
            | some d, some k =>
              if (k, d) ∈ st.accepted || (k, d) ∈ st.avail then [] else
                [("C01", s!"query {q} for cid {k} was answered with data {d}, which was neither accepted from the network nor read from the blockstore under that CID"),
                 ("C03", s!"query {q} for cid {k} was answered with data {d}, which is not the content of that CID")]
            | _, _ => []
          -- C04: after a poll every live query is tracked (lookup running, or waiting with its CID wanted)
          let vlive := (List.range st.issued).filterMap fun q =>
            if (lookup events q).isSome || q ∈ st.cancelled || q ∈ snap.abort || snap.waiters.any (fun kq => q ∈ kq.2) then none
            else some ("C04", s!"query {q} is live (not cancelled, no event yet) but after a poll the node tracks it nowhere: its CID is no longer wanted from any peer")
          -- C01: blocks written to the store were accepted from the network for that CID
          let v01 := puts.flatMap fun (_, bs) => bs.filterMap fun kd =>
            if kd ∈ st.accepted then none else some ("C01", s!"block ({kd.1},{kd.2}) written to the blockstore was not accepted from the network under that CID")
          -- C04 Q3 / C17 / C05 at every send, then update the history variables
          let vsend := sends.flatMap fun e =>
            match lookup st.ghosts e.p, lookup prev.peers e.p with
            | some g, some ps =>
              let listed := e.wh ++ e.wb
              let exp := snap.want.filter (· ∉ g.dh)
              (if e.other then [("C17", s!"wantlist entry to peer {e.p} with flags not as configured")] else []) ++
              (e.wb.filterMap fun k => if k ∈ g.haveOk then none
                else some ("C17", s!"want-block for cid {k} sent to peer {e.p} which has not answered HAVE for it (or answered DONT_HAVE since)")) ++
              (if e.full then
                (if listed.all (· ∈ exp) && exp.all (· ∈ listed) && e.cn.isEmpty then []
                 else [("C04", s!"full wantlist to peer {e.p} lists {listed} (cancels {e.cn}), expected exactly the wanted CIDs minus the DONT_HAVE ones {exp}")])
               else []) ++
              (if !g.sentAny && !e.full then [("C05", s!"first wantlist of the session of peer {e.p} is not full")] else []) ++
              (if (ps.sending.startsWith "fail" || ps.sending.startsWith "req") && !e.full then
                 [("C05", s!"wantlist to peer {e.p} after a transmission fault is not full")] else []) ++
              (if ps.sendFull && !e.full then [("C05", s!"peer {e.p} had a full wantlist pending but was sent an update")] else []) ++
              (if (ps.sending.startsWith "fail" || ps.sending.startsWith "req") && ps.sending.endsWith s!":{e.c}" then
                 [("C05", s!"wantlist after a fault on connection {e.c} of peer {e.p} was handed to that same connection")] else []) ++
              (match lookup snap.peers e.p with
               | some ps' => if e.c ∈ ps'.conns then [] else [("C15", s!"wantlist to peer {e.p} handed to connection {e.c} which is not one of its connections")]
               | none => [("C15", s!"wantlist handed to peer {e.p} which has no session")])
            | _, _ => [("C15", s!"wantlist handed to peer {e.p} which has no session")]
          let vdup := if (sends.map (·.p)).eraseDups.length != sends.length then [("C15", "two wantlists to one peer in one drain")] else []
          -- C14: a connection is given a new wantlist only after the outcome of the previous one is known
          let vout := sends.filterMap fun e =>
            if st.outstanding.contains (e.p, e.c) then
              some ("C14", s!"connection {e.c} of peer {e.p} is handed a new wantlist although the outcome of the previous one handed to it is not known (no Ready / Failed report from it, not closed): it was given up after the acknowledgement timeout and is in use again")
            else none
          let st := { st with outstanding := st.outstanding ++ (sends.filter fun (e : SendEv) => !st.outstanding.contains (e.p, e.c)).map fun (e : SendEv) => (e.p, e.c) }
          let gs := st.ghosts.map fun (p, g) =>
            match sends.find? (·.p == p) with
            | none => (p, g)
            | some e =>
              let newly := e.wh ++ e.wb
              (p, { g with told := if e.full then newly else add (rm g.told e.cn) newly,
                           deliv := rm g.deliv newly,
                           dh := if e.full then rm (g.dh.filter (· ∈ snap.want)) newly else rm (rm g.dh e.cn) newly,
                           sentAny := true })
          -- C07 / C06 on dispatched blocks
          let v07 := blks.flatMap fun (p, bs) =>
            let before := (lookup prev.swl p).getD []
            let after := (lookup snap.swl p).getD []
            let served := before.filter (· ∉ after)
            bs.flatMap fun (cls, d) =>
              (if served.any (· % 7 == cls) then [] else
                 [("C07", s!"block (prefix class {cls}, data {d}) sent to peer {p} which did not want such a CID (wanted before: {before.take 20})")]) ++
              (if (bs.filter (·.1 == cls)).length ≤ (served.filter (· % 7 == cls)).length then [] else
                 [("C07", s!"more copies of a block (prefix class {cls}) sent to peer {p} than wants served")]) ++
              (if (st.avail ++ (evs.filterMap fun _ => none)).any (fun kd => kd.1 % 7 == cls && kd.2 == d) then [] else
                 [("C07", s!"data {d} sent to peer {p} is not the blockstore's / accepted bytes of any CID of prefix class {cls}")])
          let v06 := prev.outq.flatMap fun k =>
            ((lookup prev.swt k).getD []).filterMap fun p =>
              if blks.any (fun pb => pb.1 == p && pb.2.any (·.1 == k % 7)) then none
              else some ("C06", s!"block for cid {k} was queued and peer {p} waited for it, but it was not sent")
          let refWl := st.refWl.map fun (p, ks) =>
            let before := (lookup prev.swl p).getD []
            let after := (lookup snap.swl p).getD []
            let classes := (blks.filter (·.1 == p)).flatMap (·.2.map (·.1))
            (p, ks.filter fun k => !(k ∈ before && k ∉ after && (k % 7) ∈ classes))
          let owed := st.owed.filter fun pk => !(calls.any (·.2 == pk.2)) && ((lookup refWl pk.1).getD []).contains pk.2
          let vowed := if snap.stasks == 0 then owed.map fun pk =>
              ("C06", s!"peer {pk.1}'s new want for cid {pk.2} is recorded but no blockstore lookup was ever started for it (no lookup task left)")
            else []
          -- C06: a block the node fetched for itself while peers waited for it is passed on by the next poll
          let vstored := st.stored.flatMap fun (k, ps) => ps.filterMap fun p =>
            if ((lookup snap.swt k).getD []).contains p && !(blks.any (fun pb => pb.1 == p && pb.2.any (·.1 == k % 7))) then
              some ("C06", s!"cid {k} was stored by the node's own fetch while peer {p} waited for it, yet after the next poll the peer still waits and nothing was sent")
            else none
          ({ st with events := events, calls := calls ++ st.calls, puts := puts ++ st.puts, ghosts := gs, refWl := refWl,
                     owed := if snap.stasks == 0 then [] else owed, stored := [], newGets := [], missedSince := [] },
           v03 ++ v01 ++ vsend ++ vdup ++ vout ++ v07 ++ v06 ++ vowed ++ vstored ++ vlive ++ vresp ++ vdue ++ vdue15 ++ vget ++ vmiss)
        | _ => (st, [])
      let st := { st with prev := snap }
      (st, v ++ checkState st snap)
  | _ => (st, [])

end Driver.Monitor
