import Beetswap.Model.Text
open Beetswap

def splitAt (bs : List Nat) (cuts : List Nat) : List (List Nat) :=
  let rec go (bs : List Nat) (pos : Nat) (cuts : List Nat) (acc : List (List Nat)) : List (List Nat) :=
    match cuts with
    | [] => (if bs.isEmpty then acc else bs :: acc).reverse
    | c :: cs => go (bs.drop (c - pos)) c cs (bs.take (c - pos) :: acc)
  go bs 0 cuts []

def showEnd : Frame.End → String
  | .eof => "eof" | .err => "err" | .overrun => "overrun"

def step (line : String) : String :=
  match (line.dropEndWhile (· == '\n')).toString.splitOn " " with
  | ["dec", h] =>
    match Text.unhex h with
    | none => "bad-op"
    | some bs =>
      match Frame.decode bs with
      | .ok m rest => s!"ok {bs.length - rest.length} {Text.showMessage m}"
      | .needMore => "none"
      | .err => "err"
      | .overrun => "overrun"
  | ["enc", m] =>
    match Text.parseMessage m with
    | none => "bad-op"
    | some m => Text.hex (Frame.encode m)
  | ["big", n] =>
    match n.toNat? with
    | none => "bad-op"
    | some n =>
      let m : Proto.Message := { payload := [{ pfx := [], data := List.replicate n 0xab }] }
      let bs := Frame.encode m
      match Frame.decode bs with
      | .ok d rest => if d == m then s!"ok {bs.length - rest.length}" else "mismatch"
      | .needMore => "none"
      | .err => "err"
      | .overrun => "overrun"
  | ["chunks", h, cuts] =>
    match Text.unhex h, Text.natList cuts with
    | some bs, some cuts =>
      let r := Frame.framedRead (splitAt bs cuts)
      match r.fin with
      | .overrun => "overrun"
      | e => s!"{showEnd e} kept={r.maxKept}" ++ String.join (r.msgs.map fun m => " " ++ Text.showMessage m)
    | _, _ => "bad-op"
  | _ => "bad-op"

partial def loop (h : IO.FS.Stream) (out : IO.FS.Stream) : IO Unit := do
  let line ← h.getLine
  if line.isEmpty then return ()
  out.putStrLn (step line)
  loop h out

def main : IO Unit := do
  loop (← IO.getStdin) (← IO.getStdout)
