import Beetswap.Model.Text
import Beetswap.Model.ServerHandler
import Driver.NodeIO
import Driver.CidIO
import Driver.Monitor
import Driver.HandlerVal
import Driver.ConnVal
import Driver.LinkVal
import Driver.SLinkVal
open Beetswap

def splitAt (bs : List Nat) (cuts : List Nat) : List (List Nat) :=
  let rec go (bs : List Nat) (pos : Nat) (cuts : List Nat) (acc : List (List Nat)) : List (List Nat) :=
    match cuts with
    | [] => (if bs.isEmpty then acc else bs :: acc).reverse
    | c :: cs => go (bs.drop (c - pos)) c cs (bs.take (c - pos) :: acc)
  go bs 0 cuts []

def showEnd : Frame.End → String
  | .eof => "eof" | .err => "err" | .overrun => "overrun"

structure DState where
  node : Node.State := {}

def stepPure (toks : List String) : String :=
  match toks with
  | ["dec", h] =>
    match Text.unhex h with
    | none => "bad-op"
    | some bs =>
      match Frame.decode bs with
      | .ok m rest => s!"ok {bs.length - rest.length} {Text.showMessage m}"
      | .needMore => "none"
      | .err => "err"
      | .overrun => "overrun"
  | ["enc", m] =>
    match Text.parseMessage m with
    | none => "bad-op"
    | some m => Text.hex (Frame.encode m)
  | ["big", n] =>
    match n.toNat? with
    | none => "bad-op"
    | some n =>
      let m : Proto.Message := { payload := [{ pfx := [], data := List.replicate n 0xab }] }
      let bs := Frame.encode m
      match Frame.decode bs with
      | .ok d rest => if d == m then s!"ok {bs.length - rest.length}" else "mismatch"
      | .needMore => "none"
      | .err => "err"
      | .overrun => "overrun"
  | ["pack", sizes] =>
    match Text.natList sizes with
    | none => "bad-op"
    | some ns =>
      let blocks : List Proto.Block := ns.map fun n => { pfx := [1, 0x55, 0x12, 0x20], data := List.replicate n 0xcd }
      let ms := ServerHandler.frames blocks
      "frames" ++ String.join (ms.map fun m =>
        s!" {m.payload.length}:{(Varint.enc (Proto.sizeMessage m)).length + Proto.sizeMessage m}")
  | ["chunks", h, cuts] =>
    match Text.unhex h, Text.natList cuts with
    | some bs, some cuts =>
      let r := Frame.framedRead (splitAt bs cuts)
      match r.fin with
      | .overrun => "overrun"
      | e => s!"{showEnd e} kept={r.maxKept}" ++ String.join (r.msgs.map fun m => " " ++ Text.showMessage m)
    | _, _ => "bad-op"
  | _ => "bad-op"


def step (st : DState) (line : String) : DState × String :=
  match (line.dropEndWhile (· == '\n')).toString.splitOn " " with
  | ["n", "reset", sdh] => ({ st with node := { client := { sdh := sdh.startsWith "1" } } }, "ok")   -- a trailing letter: how the builder was used
  | ["n", "assert-empty"] =>
    let c := st.node.client
    let sv := st.node.server
    let empty := c.peers.isEmpty && c.waiters.isEmpty && c.wantlist.cids.isEmpty && c.abort.isEmpty && c.tasks.isEmpty
      && c.newBlocks.isEmpty && c.queue.isEmpty && sv.wl.isEmpty && sv.waiting.isEmpty && sv.outq.isEmpty && sv.tasks.isEmpty
    (st, if empty then "empty" else s!"retained:{Driver.NodeIO.showState st.node}")
  | "n" :: toks =>
    match Driver.NodeIO.parseOp toks st.node.now with
    | none => (st, "bad-op")
    | some op =>
      let (node, outs, q) := Node.step st.node op
      let qs := match q with | some q => s!"q={q} " | none => ""
      ({ st with node := node }, s!"{qs}{Driver.NodeIO.showOuts outs} ## {Driver.NodeIO.showState node}")
  | toks =>
    match Driver.CidIO.step toks with
    | some o => (st, o)
    | none => (st, stepPure toks)

partial def loop (h : IO.FS.Stream) (out : IO.FS.Stream) (st : DState) : IO Unit := do
  let line ← h.getLine
  if line.isEmpty then return ()
  let (st, o) := step st line
  out.putStrLn o
  loop h out st

/-- `bsdriver monitor <ops file> <impl file>`: evaluate the Spec monitors on a recorded
implementation trace; one line `viol <property> <line> <text>` per violation. -/
def monitorMain (opsFile implFile : String) : IO Unit := do
  let ops := (← IO.FS.readFile opsFile).splitOn "\n"
  let imp := (← IO.FS.readFile implFile).splitOn "\n"
  let out ← IO.getStdout
  let mut st : Driver.Monitor.MState := {}
  let mut n := 0
  for (o, i) in ops.zip imp do
    let (st', vs) := Driver.Monitor.stepMon st o i
    st := st'
    for (p, t) in vs do
      out.putStrLn s!"viol {p} {n} {t}"
    n := n + 1
  out.putStrLn s!"monitored {n}"

/-- `bsdriver hvalidate <handler log>`: lines `r=<run> n=<node> c=<conn> p=<peer> <event…>`; the events of
each (run, node, connection) are validated against the handler automaton. -/
def hvalidateMain (file : String) : IO Unit := do
  let lines := ((← IO.FS.readFile file).splitOn "\n").filter (!·.isEmpty)
  let out ← IO.getStdout
  let mut groups : Std.HashMap String (Array String) := {}
  let mut order : List String := []
  for l in lines do
    match l.splitOn " " with
    | r :: n :: c :: _p :: rest =>
      let key := s!"{r} {n} {c}"
      if !groups.contains key then order := key :: order
      groups := groups.alter key fun a => some ((a.getD #[]).push (" ".intercalate rest))
    | _ => pure ()
  let mut bad := 0
  for key in order.reverse do
    match Driver.HandlerVal.validate (groups.getD key #[]).toList with
    | some (i, l) =>
      bad := bad + 1
      out.putStrLn s!"hviol {key} event {i}: `{l}` is not explained by the handler automaton"
    | none => pure ()
  out.putStrLn s!"hvalidated connections={order.length} lines={lines.length} rejected={bad}"

/-- `bsdriver cvalidate <handler log>`: the same log, replayed deterministically (probe lines)
through `Model/ConnHandler`. -/
def cvalidateMain (file : String) : IO Unit := do
  let lines := ((← IO.FS.readFile file).splitOn "\n").filter (!·.isEmpty)
  let out ← IO.getStdout
  let mut groups : Std.HashMap String (Array String) := {}
  let mut order : List String := []
  for l in lines do
    match l.splitOn " " with
    | r :: n :: c :: _p :: rest =>
      let key := s!"{r} {n} {c}"
      if !groups.contains key then order := key :: order
      groups := groups.alter key fun a => some ((a.getD #[]).push (" ".intercalate rest))
    | _ => pure ()
  let mut bad := 0
  let mut polls := 0
  for key in order.reverse do
    let ls := (groups.getD key #[]).toList
    polls := polls + (ls.filter (·.startsWith "x poll")).length
    match Driver.ConnVal.validate ls with
    | some (i, l, why) =>
      bad := bad + 1
      out.putStrLn s!"cviol {key} event {i}: `{l}`: {why}"
    | none => pure ()
  out.putStrLn s!"cvalidated connections={order.length} lines={lines.length} polls={polls} rejected={bad}"

/-- `bsdriver lvalidate <link log>`: lines `r=<run> n=<node> B|H …`: each node's run — behaviour operations and
handler records in the order they happened — replayed through `Model/ClientLink`. -/
def lvalidateMain (file : String) : IO Unit := do
  let lines := ((← IO.FS.readFile file).splitOn "\n").filter (!·.isEmpty)
  let out ← IO.getStdout
  let mut groups : Std.HashMap String (Array String) := {}
  let mut order : List String := []
  for l in lines do
    match l.splitOn " " with
    | r :: n :: rest =>
      let key := s!"{r} {n}"
      if !groups.contains key then order := key :: order
      groups := groups.alter key fun a => some ((a.getD #[]).push (" ".intercalate rest))
    | _ => pure ()
  let mut bad := 0
  let mut handovers := 0
  let mut reports := 0
  for key in order.reverse do
    let mut v : Driver.LinkVal.LV := {}
    let mut i := 0
    let mut failed := false
    for l in (groups.getD key #[]) do
      if !failed then
        let (v', why) := Driver.LinkVal.stepLine v l
        v := v'
        if let some w := why then
          failed := true
          bad := bad + 1
          out.putStrLn s!"lviol {key} line {i}: `{l}`: {w}"
      i := i + 1
    handovers := handovers + v.handovers
    reports := reports + v.reports
  out.putStrLn s!"lvalidated nodes={order.length} lines={lines.length} handovers={handovers} reports={reports} rejected={bad}"

/-- `bsdriver svalidate <link log>`: the same log replayed through the server-side composition
`Model/ServerLink` (routing of `QueueOutgoingMessages` events, `remaining_established`, the record rule). -/
def svalidateMain (file : String) : IO Unit := do
  let lines := ((← IO.FS.readFile file).splitOn "\n").filter (!·.isEmpty)
  let out ← IO.getStdout
  let mut groups : Std.HashMap String (Array String) := {}
  let mut order : List String := []
  for l in lines do
    match l.splitOn " " with
    | r :: n :: rest =>
      let key := s!"{r} {n}"
      if !groups.contains key then order := key :: order
      groups := groups.alter key fun a => some ((a.getD #[]).push (" ".intercalate rest))
    | _ => pure ()
  let mut bad := 0
  let mut dispatched := 0
  let mut delivered := 0
  let mut closed := 0
  let mut pending := 0
  for key in order.reverse do
    let mut v : Driver.SLinkVal.SV := {}
    let mut i := 0
    let mut failed := false
    for l in (groups.getD key #[]) do
      if !failed then
        let (v', why) := Driver.SLinkVal.stepLine v l
        v := v'
        if let some w := why then
          failed := true
          bad := bad + 1
          out.putStrLn s!"sviol {key} line {i}: `{l}`: {w}"
      i := i + 1
    dispatched := dispatched + v.dispatched
    delivered := delivered + v.delivered
    closed := closed + v.closedConns
    pending := pending + v.s.outbox.length
  out.putStrLn s!"svalidated nodes={order.length} lines={lines.length} dispatched={dispatched} delivered={delivered} undelivered={pending} connections_closed={closed} rejected={bad}"

def main (args : List String) : IO Unit := do
  match args with
  | ["monitor", ops, imp] => monitorMain ops imp
  | ["hvalidate", file] => hvalidateMain file
  | ["cvalidate", file] => cvalidateMain file
  | ["lvalidate", file] => lvalidateMain file
  | ["svalidate", file] => svalidateMain file
  | _ => loop (← IO.getStdin) (← IO.getStdout) {}
