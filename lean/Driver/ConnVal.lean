import Beetswap.Model.ConnHandler
/-!
Deterministic replay of recorded connection-handler traces (Tier 2 `WrapHandler` logs with the
probe lines of the `beetswap_verif` hooks) through `Model/ConnHandler`: the inputs of the handler
and what its sinks, streams and timer answered are read off the log, the model is run on them, and
what the model hands back to the swarm — and what it writes — is compared with what the real
handler did. The timer is tied to the recorded virtual clock: it fires exactly
`START_SENDING_TIMEOUT` after the wantlist was accepted.
-/
namespace Driver.ConnVal
open Beetswap Beetswap.Proto Beetswap.ConnHandler

def startSendingTimeoutMs : Nat := 5000

structure V where
  h : CH := {}
  nextSid : Nat := 0
  nextMsg : Nat := 0
  deadline : Option Nat := none      -- virtual time at which the start-sending timer fires
  reAccepted : Bool := false         -- the wantlist just handed over found the previous one outstanding
  lastOuts : List Out := []          -- what the model's last `poll` / `poll_close` produced

def field (toks : List String) (key : String) : Option String :=
  (toks.find? (·.startsWith key)).map fun t => (t.drop key.length).toString

def ioRes (s : String) : ClientHandler.IoRes :=
  if s == "ok" then .ok else if s == "err" then .err else .pending

def sIoRes (s : String) : ServerSink.IoRes :=
  if s == "ok" then .ok else if s == "err" then .err else .pending

def parseBlocks (s : String) : List Block :=
  (s.splitOn ",").filterMap fun t =>
    match t.splitOn ":" with
    | [p, d] => match p.toNat?, d.toNat? with
      | some p, some d => some { pfx := List.replicate p 0, data := List.replicate d 0 }
      | _, _ => none
    | _ => none

structure Probes where
  order : List Nat := []
  reads : List (Nat × Inbound.ReadAns) := []
  procs : List (Nat × Inbound.ProcAns) := []
  timer : Option Bool := none
  cReady : ClientHandler.IoRes := .pending
  cSend : Bool := true
  cSendSeen : Nat := 0
  cFlush : ClientHandler.IoRes := .pending
  cReadySeen : Bool := false
  cFlushSeen : Bool := false
  server : List ServerSink.Ans := []
  sends : List (Bool × Nat × Nat) := []     -- server start_send: ok, blocks, body size
  openCalls : List Nat := []                -- substreams whose current `poll_next` call has not returned yet

/-- One `poll_next` call of substream `v` is one entry of `order`: a probe of `v` opens a call unless one
is open; an answer after which `poll_next` returns (`Pending`, an item, the end) closes it. A substream
whose processing future woke itself is polled again in the same `SelectAll::poll_next`: a second entry. -/
def noteProbe (p : Probes) (v : Nat) (terminal : Bool) : Probes :=
  let p := if p.openCalls.contains v then p else { p with order := p.order ++ [v], openCalls := p.openCalls ++ [v] }
  if terminal then { p with openCalls := p.openCalls.filter (· != v) } else p

/-- returns the probes and the next free message tag -/
def parseProbes (s : String) (msg0 : Nat) : Probes × Nat := Id.run do
  let mut p : Probes := {}
  let mut m := msg0
  for t in s.splitOn ";" do
    match t.splitOn ":" with
    | ["sf", r] => p := { p with server := p.server ++ [{ flush := sIoRes r }] }
    | ["ss", n, sz, r] =>
      let ok := r == "ok"
      p := { p with sends := p.sends ++ [(ok, n.toNat?.getD 0, sz.toNat?.getD 0)] }
      match p.server.reverse with
      | a :: rest => p := { p with server := (({ a with sendOk := ok } : ServerSink.Ans) :: rest).reverse }
      | [] => pure ()
    | ["ir", v, r] =>
      let v := v.toNat?.getD 0
      let a : Inbound.ReadAns :=
        if r == "msg" then .msg m else if r == "err" then .err else if r == "eof" then .eof else .pending
      if r == "msg" then m := m + 1
      p := { noteProbe p v (r != "msg") with reads := p.reads ++ [(v, a)] }
    | ["ip", v, r] =>
      let v := v.toNat?.getD 0
      let a : Inbound.ProcAns :=
        if r == "fwd" then .fwd else if r == "empty" then .empty else if r == "fatal" then .fatal else .pending
      p := { noteProbe p v (r != "empty") with procs := p.procs ++ [(v, a)] }
    | ["ct", r] => p := { p with timer := some (r == "fired") }
    | ["cr", r] => p := { p with cReady := ioRes r, cReadySeen := true }
    | ["cs", r] => p := { p with cSend := r == "ok", cSendSeen := p.cSendSeen + 1 }
    | ["cf", r] => p := { p with cFlush := ioRes r, cFlushSeen := true }
    | _ => pure ()
  return (p, m)

def envOf (p : Probes) : Env :=
  { order := p.order
    inbound := fun v => { reads := (p.reads.filter (·.1 == v)).map (·.2), procs := (p.procs.filter (·.1 == v)).map (·.2) }
    client := { timerFired := p.timer.getD false, pollReady := p.cReady, startSendOk := p.cSend, flush := p.cFlush }
    server := p.server }

def showHS : ClientHandler.HS → String
  | .ready => "ready" | .requestReceived => "received" | .sending => "sending" | .failed => "failed"

/-- the result of `poll` / `poll_close` as the log shows it -/
def showRes (outs : List Out) : String :=
  match outs.reverse.find? (fun o => match o with | .ev _ => true | _ => false) with
  | some (.ev (.incoming _ _)) => "incoming"
  | some (.ev (.report (.state s))) => s!"report:{showHS s}"
  | some (.ev (.report .closingConn)) => "closing"
  | some (.ev (.openSubstream .client)) => "open:client"
  | some (.ev (.openSubstream .server)) => "open:server"
  | _ => "pending"

def serverSends (outs : List Out) : List (Bool × Nat × Nat) :=
  outs.filterMap fun o => match o with
    | .server (.wrote _ m) => some (true, m.payload.length, sizeMessage m)
    | .server (.dropped m) => some (false, m.payload.length, sizeMessage m)
    | _ => none

def clientWrites (outs : List Out) : Nat :=
  (outs.filter fun o => match o with | .client (.wrote _ _) => true | _ => false).length

/-- One log line. `none`: accepted; `some why`: the model does not explain the line. -/
def stepLine (v : V) (line : String) : V × Option String :=
  let v := { v with lastOuts := [] }
  let toks := line.splitOn " "
  match toks with
  | "in" :: "send-wantlist" :: n :: _ =>
    let w := (n.drop 1).toString.toNat?.getD 0
    ({ v with h := (step v.h (.sendWantlist w)).1,
              reAccepted := v.h.client.ss == .requestReceived && !v.h.client.halted }, none)
  | ["in", "outbound-stream", "client"] =>
    ({ v with h := (step v.h (.outbound .client v.nextSid)).1, nextSid := v.nextSid + 1 }, none)
  | ["in", "outbound-stream", "server"] =>
    ({ v with h := (step v.h (.outbound .server v.nextSid)).1, nextSid := v.nextSid + 1 }, none)
  | ["in", "dial-upgrade-error", "client"] => ({ v with h := (step v.h (.dialError .client)).1 }, none)
  | ["in", "dial-upgrade-error", "server"] => ({ v with h := (step v.h (.dialError .server)).1 }, none)
  | ["x", "queue", bs] => ({ v with h := (step v.h (.queueBlocks (parseBlocks bs))).1 }, none)
  | ["x", "queue"] => ({ v with h := (step v.h (.queueBlocks [])).1 }, none)
  | ["x", "inbound", vid] =>
    match (vid.drop 4).toString.toNat? with
    | some k => ({ v with h := (step v.h (.inbound k)).1 }, none)
    | none => (v, some "unreadable inbound line")
  | "x" :: "accepted" :: t :: _ =>
    -- the wantlist just handed over was accepted at virtual time t: the timer is armed
    match (t.drop 2).toString.toNat? with
    | some t =>
      if v.h.client.halted then (v, none) else
      -- `SendingState::RequestReceived` carries an `Instant`: handed over while the previous wantlist is
      -- outstanding (outside the environment's obligations, known finding F14) and the clock has
      -- moved, the state differs and is reported again
      let again := v.reAccepted && v.deadline != some (t + startSendingTimeoutMs)
      let h := if again then { v.h with client := { v.h.client with queue := v.h.client.queue ++ [.state .requestReceived] } } else v.h
      ({ v with h := h, deadline := some (t + startSendingTimeoutMs), reAccepted := false }, none)
    | none => (v, some "unreadable accepted line")
  | "x" :: "poll" :: rest =>
    let t := ((field rest "t=").bind (·.toNat?)).getD 0
    let (p, m') := parseProbes ((field rest "pr=").getD "") v.nextMsg
    let res := (field rest "res=").getD "?"
    -- the timer law: consulted ⇒ it fired iff the deadline has passed
    let timerBad : Option String :=
      match p.timer, v.deadline with
      | some true, some d => if t < d then some s!"start-sending timer fired at {t} ms, before its deadline {d} ms" else none
      | some false, some d => if t ≥ d then some s!"start-sending timer has not fired at {t} ms although its deadline {d} ms (5 s after the wantlist was accepted) has passed" else none
      | _, _ => none
    let (h', outs) := step v.h (.poll (envOf p))
    let v' := { v with h := h', nextMsg := m', lastOuts := outs }
    let got := showRes outs
    -- the model's substreams consume exactly the answers the real readers / processing futures gave in this poll
    let rest := Inbound.selectRest v.h.streams (envOf p).inbound p.order
    let unasked := p.order.eraseDups.filter fun sid => !((rest sid).reads.isEmpty && (rest sid).procs.isEmpty)
    -- the timer is consulted exactly when the model has it armed and the client half gets that far
    let reached := got != "incoming" && v.h.client.queue.isEmpty && !v.h.client.halted
    let consultBad : Option String :=
      if p.timer.isSome && !v.h.client.timer then some "the handler consulted the start-sending timer, which the model has not armed"
      else if reached && v.h.client.timer && p.timer.isNone then some "the model has the start-sending timer armed, the handler did not consult it"
      else none
    -- which answers of its sink the model's client half consults in this poll (non-interference: the result changes
    -- with the answer) must be the answers the real handler asked for (`cr` = poll_ready, `cs` = start_send, `cf` = poll_flush)
    let env0 := envOf p
    let runWith (c : ClientHandler.Env) : CH × List Out := step v.h (.poll { env0 with client := c })
    let differs (a b : ClientHandler.Env) : Bool :=
      runWith a != runWith b
    let c0 := env0.client
    let flushAsked := differs { c0 with flush := .ok } { c0 with flush := .err } || differs { c0 with flush := .ok } { c0 with flush := .pending }
    let readyAsked := differs { c0 with pollReady := .ok } { c0 with pollReady := .err } || differs { c0 with pollReady := .ok } { c0 with pollReady := .pending }
    let sendAsked := readyAsked && c0.pollReady == .ok && differs { c0 with startSendOk := true } { c0 with startSendOk := false }
    let sinkBad : Option String :=
      if got == "incoming" then none
      else if flushAsked != p.cFlushSeen then
        some (if flushAsked then "the model's client half waits for its sink to be flushed in this poll, the handler did not call poll_flush"
              else "the handler called poll_flush on the client half's sink where the model does not")
      else if readyAsked != p.cReadySeen then
        some (if readyAsked then "the model's client half asks its sink whether it is ready in this poll, the handler did not call poll_ready"
              else "the handler called poll_ready on the client half's sink where the model does not")
      else if sendAsked != (p.cSendSeen > 0) then
        some (if sendAsked then "the model's client half starts a frame in this poll, the handler did not call start_send"
              else "the handler called start_send on the client half's sink where the model does not")
      else none
    -- … and the same for the server half: every recorded answer of its sink (`sf` = poll_flush, with `ss` = start_send) is
    -- consulted by the model (changing it changes the result), and the model asks for no further one
    let srv := env0.server
    let runS (l : List ServerSink.Ans) : CH × List Out := step v.h (.poll { env0 with server := l })
    let baseS := runS srv
    let flipA (a : ServerSink.Ans) : ServerSink.Ans := if a.flush == .err then { a with flush := .ok } else { a with flush := .err }
    let unconsulted := (List.range srv.length).filter fun i => match srv[i]? with
      | some a => runS (srv.set i (flipA a)) == baseS
      | none => false
    let wantsMore := runS (srv ++ [{ flush := .err }]) != baseS
    let serverBad : Option String :=
      if got == "incoming" then none
      else if !unconsulted.isEmpty then
        some s!"the handler polled the server half's sink {srv.length} time(s) in this poll; the model does not consult answer(s) {unconsulted}"
      else if wantsMore then
        some s!"the model's server half asks its sink for a further answer in this poll (after {srv.length}), the handler did not call poll_flush again"
      else none
    if let some why := timerBad then (v', some why)
    else if let some why := consultBad then (v', some why)
    else if let some why := sinkBad then (v', some why)
    else if let some why := serverBad then (v', some why)
    else if !unasked.isEmpty then
      (v', some s!"inbound substream(s) {unasked} gave answers in this poll that the model's `poll_next` does not ask for (the real reader / processing future was polled where the model's is not)")
    else if got != res then
      (v', some s!"handler returned `{res}`, the model `{got}`")
    else if serverSends outs != p.sends then
      (v', some s!"server half wrote frames (ok, blocks, size) {p.sends}, the model {serverSends outs}")
    else if clientWrites outs != (if p.cSend then p.cSendSeen else 0) then
      (v', some s!"client half started {p.cSendSeen} frames, the model {clientWrites outs}")
    else (v', none)
  | "x" :: "close" :: rest =>
    let res := (field rest "res=").getD "?"
    let (h', outs) := step v.h .pollClose
    let got := match showRes outs with
      | "pending" => "none"
      | s => s
    ({ v with h := h', lastOuts := outs }, if got != res then some s!"poll_close returned `{res}`, the model `{got}`" else none)
  | ["halted"] =>
    (v, if keepAlive v.h then some "connection_keep_alive() is false, the model's client half has not halted" else none)
  | _ => (v, none)

/-- Validate the lines of one connection: index and reason of the first line the model does not
explain. -/
def validate (lines : List String) : Option (Nat × String × String) := Id.run do
  let mut v : V := {}
  let mut n := 0
  for l in lines do
    let (v', bad) := stepLine v l
    if let some why := bad then
      return some (n, l, why)
    v := v'
    n := n + 1
  return none

end Driver.ConnVal
