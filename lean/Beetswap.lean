-- Root of the `Beetswap` library: every model, specification and property module.
import Beetswap.Generated
import Beetswap.Model.KMap
import Beetswap.Model.Varint
import Beetswap.Model.Proto
import Beetswap.Model.Frame
import Beetswap.Model.Text
import Beetswap.Model.Cid
import Beetswap.Model.Incoming
import Beetswap.Model.Wantlist
import Beetswap.Model.Client
import Beetswap.Model.Server
import Beetswap.Model.Node
import Beetswap.Spec.Wire
import Beetswap.Spec.Limit
import Beetswap.Props.C09
import Beetswap.Props.C10
import Beetswap.Props.C11
