-- This module serves as the root of the `Beetswap` library.
-- Import modules here that should be built as part of the library.
import Beetswap.Basic
