"""Per-property configuration of bin/check."""

ALLOWED_AXIOMS = {"propext", "Classical.choice", "Quot.sound"}

CODEC_SCOPE = ("src/message.rs (Codec), src/proto/message.rs (generated reader/writer) and the observable semantics of "
               "quick-protobuf 0.8.1 BytesReader/Writer and unsigned-varint 0.8 (Model/Varint, Model/Proto, Model/Frame); "
               "asynchronous_codec::FramedRead's read/decode loop (Model/Frame.framedRead)")

CODEC_ASSUME = [
    "frames on which the model says `overrun` (a read crosses the end of a nested slice) are outside the codec model: behaviour of quick-protobuf there is unspecified",
    "rustc/LLVM, std, bytes::BytesMut behave as documented",
    "the correspondence check samples inputs; the theorems are about the Lean model",
]


def S(name, quick, thorough, profile="release"):
    return dict(name=name, args=dict(quick=quick, thorough=thorough), profile=profile)


PROPS = {
    "C10": dict(
        lean_modules=["Beetswap.Props.C10"],
        model_scope=CODEC_SCOPE,
        assumptions=CODEC_ASSUME,
        streams=[
            S("frame", ["--cases", 3000], ["--cases", 150000]),
            S("chunks", ["--cases", 250, "--cutlen", 200], ["--cases", 8000, "--cutlen", 400]),
        ],
    ),
    "C11": dict(
        lean_modules=["Beetswap.Props.C11"],
        model_scope=CODEC_SCOPE + "; Spec/Wire.lean is the Bitswap 1.2.0 schema over the generic proto3 wire format",
        assumptions=CODEC_ASSUME + ["harness/src/refpb.rs (independent reference encoder written from message.proto) is trusted for the failing-input search only"],
        streams=[
            S("frame", ["--cases", 3000], ["--cases", 100000]),
            S("noncanon", ["--cases", 3000], ["--cases", 200000]),
        ],
    ),
}
