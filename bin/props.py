"""Per-property configuration of bin/check."""

ALLOWED_AXIOMS = {"propext", "Classical.choice", "Quot.sound"}

CODEC_SCOPE = ("src/message.rs (Codec), src/proto/message.rs (generated reader/writer) and the observable semantics of "
               "quick-protobuf 0.8.1 BytesReader/Writer and unsigned-varint 0.8 (Model/Varint, Model/Proto, Model/Frame); "
               "asynchronous_codec::FramedRead's read/decode loop (Model/Frame.framedRead)")

CODEC_ASSUME = [
    "frames on which the model says `overrun` (a read crosses the end of a nested slice) are outside the codec model: behaviour of quick-protobuf there is unspecified",
    "rustc/LLVM, std, bytes::BytesMut behave as documented",
    "the correspondence check samples inputs; the theorems are about the Lean model",
]


def S(name, quick, thorough, profile="release", oracle=True):
    """oracle=False: the stream's required results speak about another property (e.g. round trip, C10);
    a deviation from them is then not reported as a failing input of this property, only — if the
    model no longer matches the code — as a broken correspondence."""
    return dict(name=name, args=dict(quick=quick, thorough=thorough), profile=profile, oracle=oracle)


CID_SCOPE = ("src/cid_prefix.rs, src/multihasher.rs (table order), src/utils.rs (convert_*), src/incoming_stream.rs::process_message, "
             "and the validity rule of cid::CidGeneric::new (Model/Cid, Model/Incoming); hash functions and CidGeneric::try_from are oracles")

CID_ASSUME = [
    "hash functions are parameters of the theorems (an arbitrary deterministic oracle H); the harness feeds the real hasher's answers to the model",
    "parsing of complete CIDs (cid crate) is an oracle",
    "rustc/LLVM, std behave as documented",
    "the correspondence check samples inputs; the theorems are about the Lean model",
]

NODE_SCOPE = ("src/server.rs (ServerBehaviour), src/client.rs (ClientBehaviour), src/wantlist.rs, src/lib.rs glue "
              "(Model/Server, Model/Client, Model/Wantlist, Model/Node); libp2p-swarm, yamux are not in this model")

LINK_SCOPE = ("the pipeline from ServerBehaviour to the wire (Model/ServerLink = Model/Server + one Model/ServerSink per connection + "
              "libp2p-swarm 0.45.1's NotifyHandler::Any routing and connection-close order, modelled from swarm/src/lib.rs notify_any and "
              "connection/pool/task.rs); tied to the code by replaying every node's recorded run of the real-swarm simulator (`bsdriver svalidate`)")

LINK_ASSUME = [
    "libp2p-swarm's side of Model/ServerLink is assumed (read in swarm 0.45.1, checked on every recorded run by `bsdriver svalidate`, not proved): a NotifyHandler::Any event is offered to the peer's connections in the pool, accepted by at most one whose channel is open, dropped when none is; an accepted event reaches on_behaviour_event of that connection's handler unless the connection begins to close first; ConnectionClosed carries remaining_established = the peer's other connections in the pool",
]

HANDLER_SCOPE = ("src/lib.rs ConnHandler, src/client.rs ClientConnectionHandler, src/server.rs ServerConnectionHandler, "
                 "src/incoming_stream.rs IncomingStream::poll_next (Model/ConnHandler = Model/ClientHandler + Model/ServerSink + Model/Inbound); "
                 "tied to the code by deterministic replay of handler traces recorded from real swarms (probe hook: every answer of the sinks, "
                 "the framed readers, the processing futures and the timer), `bsdriver cvalidate`")

NODE_ASSUME = [
    "FuturesUnordered yields each completed future once, in wake order; Abortable never yields Ok after abort()",
    "hash-set / hash-map iteration order is nondeterministic: the connection chosen for a wantlist and the lookup order of a full wantlist's additions are observed and fed to the model, which accepts any legal choice (theorems quantify over all choices)",
    "libp2p-swarm delivers handler events and connection events as the NetworkBehaviour contract says",
    "the correspondence check samples operation sequences (with full state comparison after every operation); the theorems are about the Lean model",
]

PROPS = {
    "C10": dict(
        lean_modules=["Beetswap.Props.C10"],
        model_scope=CODEC_SCOPE,
        assumptions=CODEC_ASSUME,
        streams=[
            S("frame", ["--cases", 3000], ["--cases", 150000]),
            S("chunks", ["--cases", 250, "--cutlen", 200], ["--cases", 8000, "--cutlen", 400]),
            S("simraw", ["--cases", 100], ["--cases", 5000]),
        ],
    ),
    "C08": dict(
        lean_modules=["Beetswap.Props.C08"],
        model_scope=CODEC_SCOPE + "; " + CID_SCOPE + "; " + NODE_SCOPE,
        assumptions=CODEC_ASSUME + ["two build configurations of the harness: `release` (no overflow checks) and `checked` (release + overflow-checks + debug-assertions); every codec case runs in a watchdog child process with an address-space limit"],
        overrun_failures_in_scope=True,
        streams=[
            S("frame", ["--cases", 2500], ["--cases", 400000], oracle=False),
            S("frame", ["--cases", 2500], ["--cases", 400000], profile="checked", oracle=False),
            S("shortframes", ["--maxlen", 3], ["--maxlen", 4], oracle=False),
            S("shortframes", ["--maxlen", 3], ["--maxlen", 4], profile="checked", oracle=False),
            S("prefix", ["--cases", 300, "--maxlen", 3], ["--cases", 50000, "--maxlen", 5], oracle=False),
            S("prefix", ["--cases", 300, "--maxlen", 3], ["--cases", 50000, "--maxlen", 5], profile="checked", oracle=False),
            # every kind of length prefix (values around every power of two up to 2^64 - 1, over-long, overflowing) with
            # overflow checks on: arithmetic on a length the peer chose
            S("limit", ["--cases", 400], ["--cases", 30000], profile="checked", oracle=False),
            S("procmsg", ["--cases", 200], ["--cases", 20000], profile="checked", oracle=False),
            S("node", ["--cases", 80], ["--cases", 5000, "--ops", 150], profile="checked"),
            S("nodebig", ["--cases", 8], ["--cases", 200], profile="checked"),
            S("simraw", ["--cases", 100], ["--cases", 5000]),
            S("simraw", ["--cases", 100], ["--cases", 5000], profile="checked"),
            # late acknowledgements with several connections, debug assertions on (send_wantlist's asserts: F14, repaired)
            S("simlate", ["--cases", 60, "--conns", 3], ["--cases", 3000, "--conns", 3, "--nodes", 4], profile="checked"),
        ],
    ),
    "C09": dict(
        lean_modules=["Beetswap.Props.C09"],
        model_scope=CODEC_SCOPE + "; " + HANDLER_SCOPE,
        assumptions=CODEC_ASSUME,
        validate_conn_traces=True,
        streams=[
            S("limit", ["--cases", 400], ["--cases", 30000]),
            S("chunks", ["--cases", 150, "--cutlen", 120], ["--cases", 5000, "--cutlen", 300], oracle=False),
            S("pack", ["--cases", 25], ["--cases", 1500]),
            S("simraw", ["--cases", 100], ["--cases", 5000]),
        ],
    ),
    "C01": dict(
        lean_modules=["Beetswap.Props.C01"],
        model_scope=CID_SCOPE + "; " + NODE_SCOPE,
        assumptions=CID_ASSUME + NODE_ASSUME,
        streams=[
            S("procmsg", ["--cases", 300], ["--cases", 30000]),
            S("node", ["--cases", 100], ["--cases", 5000, "--ops", 120]),
            # block frames from a raw peer through a real swarm (also with a suspending registered hasher): what the
            # behaviour is handed is keyed by the CID recomputed from the data
            S("simraw", ["--cases", 120], ["--cases", 6000]),
        ],
    ),
    "C02": dict(
        lean_modules=["Beetswap.Props.C02"],
        model_scope="composition of two node models with a fault-free transport (Model/Net); " + NODE_SCOPE,
        assumptions=NODE_ASSUME + ["theorems: two connected nodes, one connection, fault-free transport, healthy blockstores, any user behaviour and any scheduling; multi-hop chains, several connections, evictions and faults are covered by the simulator only",
                                   "late acknowledgements excluded (known finding F13)",
                                   "Tier 2 simulator as in C05; fairness of the real executor is assumed"],
        streams=[
            S("sim", ["--cases", 200, "--nodes", 4], ["--cases", 15000, "--nodes", 4, "--actions", 60]),
            S("simchain", ["--cases", 150, "--nodes", 4], ["--cases", 10000, "--nodes", 4, "--actions", 60]),
            S("simfault", ["--cases", 150, "--nodes", 4], ["--cases", 8000, "--nodes", 4, "--actions", 60]),
        ],
    ),
    "C03": dict(
        lean_modules=["Beetswap.Props.C03"],
        model_scope=NODE_SCOPE,
        assumptions=NODE_ASSUME,
        streams=[
            S("node", ["--cases", 150, "--keys", 3], ["--cases", 8000, "--keys", 3, "--ops", 150]),
        ],
    ),
    "C13": dict(
        lean_modules=["Beetswap.Props.C13"],
        model_scope=NODE_SCOPE + "; " + LINK_SCOPE,
        assumptions=NODE_ASSUME + LINK_ASSUME,
        streams=[
            S("node", ["--cases", 100], ["--cases", 5000, "--ops", 200]),
            S("nodebig", ["--cases", 15], ["--cases", 400]),
            # real swarms with several connections closing from either side: when the server half is told that a
            # peer is gone (recorded runs replayed through Model/ServerLink)
            S("simfault", ["--cases", 100, "--conns", 3], ["--cases", 5000, "--conns", 3, "--nodes", 4]),
        ],
        validate_slink_traces=True,
    ),
    "C04": dict(
        lean_modules=["Beetswap.Props.C04"],
        model_scope=NODE_SCOPE,
        assumptions=NODE_ASSUME,
        streams=[
            S("node", ["--cases", 150, "--keys", 3], ["--cases", 8000, "--keys", 3, "--ops", 150]),
            S("node", ["--cases", 60, "--keys", 2, "--peers", 2, "--ops", 200], ["--cases", 3000, "--keys", 2, "--peers", 2, "--ops", 300]),
        ],
    ),
    "C05": dict(
        lean_modules=["Beetswap.Props.C05"],
        validate_handler_traces=True,
        model_scope=NODE_SCOPE + "; the connection handler (ClientConnectionHandler) is exercised in the simulator, not modelled in a theorem" + "; " + HANDLER_SCOPE,
        assumptions=NODE_ASSUME + ["acknowledgements from connection handlers are not late (a handler that is alive reports RequestReceived within 1 s): under late acknowledgements a live connection (and with its last connection the peer) is given up, known finding F13",
                                   "Tier 2 simulator: libp2p-swarm / yamux / multistream-select over the memory transport under a harness-owned executor and virtual clock"],
        validate_conn_traces=True,
        validate_link_traces=True,
        streams=[
            S("node", ["--cases", 100], ["--cases", 5000, "--ops", 150]),
            S("simfault", ["--cases", 150], ["--cases", 8000, "--nodes", 4, "--actions", 50]),
            S("simlate", ["--cases", 60], ["--cases", 3000]),
        ],
    ),
    "C14": dict(
        lean_modules=["Beetswap.Props.C14"],
        model_scope=HANDLER_SCOPE + "; " + NODE_SCOPE,
        assumptions=NODE_ASSUME + ["yamux delivers the bytes of a flushed frame in order on its stream (assumed)",
                                   "libp2p-swarm's event channels as in Model/ClientLink: a SendWantlist reaches the handler of the connection it was addressed to or is dropped when that connection is closing; a handler's events reach the behaviour in order with the id of their connection; ConnectionClosed follows poll_close (checked on every recorded run by the channel monitor, assumed in the theorem)",
                                   "Tier 2 simulator: libp2p-swarm / yamux / multistream-select over the memory transport under a harness-owned executor and virtual clock"],
        validate_handler_traces=True,
        validate_conn_traces=True,
        validate_link_traces=True,
        streams=[
            # the behaviour's side of the hand-over on arbitrary report sequences (late, stale-source and out-of-order
            # reports included): monitor "a connection is handed a new wantlist only after the outcome of the previous one"
            S("node", ["--cases", 120, "--peers", 2], ["--cases", 6000, "--peers", 2, "--ops", 200]),
            S("sim", ["--cases", 120], ["--cases", 8000, "--nodes", 4, "--actions", 50]),
            S("simfault", ["--cases", 150, "--conns", 3], ["--cases", 8000, "--conns", 3, "--nodes", 4, "--actions", 50]),
            S("simlate", ["--cases", 80], ["--cases", 4000, "--conns", 3]),
            S("simproto", ["--cases", 60], ["--cases", 3000, "--nodes", 4]),
            # the node's own wantlists received by a raw peer: whole frames only; one run in six with a wantlist frame
            # larger than a yamux window (back-pressure on the client half's sink)
            S("simraw", ["--cases", 120], ["--cases", 6000]),
        ],
    ),
    "C15": dict(
        validate_slink_traces=True,
        lean_modules=["Beetswap.Props.C15"],
        model_scope=NODE_SCOPE + "; " + HANDLER_SCOPE + "; " + LINK_SCOPE,
        assumptions=NODE_ASSUME + LINK_ASSUME + ["Tier 2 simulator as in C05"],
        validate_conn_traces=True,
        validate_link_traces=True,
        streams=[
            S("node", ["--cases", 100, "--peers", 2], ["--cases", 5000, "--peers", 2, "--ops", 150]),
            S("sim", ["--cases", 120, "--conns", 3], ["--cases", 6000, "--conns", 3, "--nodes", 4]),
            S("simfault", ["--cases", 80, "--conns", 3], ["--cases", 4000, "--conns", 3]),
            # several connections with starved connection tasks: reports of given-up connections (F14, repaired)
            S("simlate", ["--cases", 80, "--conns", 3], ["--cases", 4000, "--conns", 3, "--nodes", 4]),
        ],
    ),
    "C17": dict(
        lean_modules=["Beetswap.Props.C17"],
        model_scope=NODE_SCOPE,
        assumptions=NODE_ASSUME,
        streams=[
            S("node", ["--cases", 150, "--keys", 3], ["--cases", 8000, "--keys", 3, "--ops", 150]),
            # what a peer "announced" is decided per message by process_message: of two contradicting
            # presences for one CID in one message the later one counts
            S("procmsg", ["--cases", 200], ["--cases", 20000]),
        ],
    ),
    "C06": dict(
        validate_slink_traces=True,
        lean_modules=["Beetswap.Props.C06"],
        model_scope=NODE_SCOPE + "; " + HANDLER_SCOPE + "; " + LINK_SCOPE,
        assumptions=NODE_ASSUME + LINK_ASSUME,
        validate_conn_traces=True,
        streams=[
            S("node", ["--cases", 120], ["--cases", 6000, "--ops", 120]),
            S("nodebig", ["--cases", 12], ["--cases", 300]),
            S("sim", ["--cases", 100, "--conns", 2], ["--cases", 5000, "--conns", 3, "--nodes", 4]),
            # a raw peer that reads slowly (blocks larger than a yamux window: back-pressure on the
            # server half's sink) or drops the node's streams
            S("simraw", ["--cases", 150], ["--cases", 10000]),
            # real nodes exchanging 400 kB blocks: back-pressure on the server half's sink between beetswap nodes
            S("simbig", ["--cases", 80], ["--cases", 3000, "--nodes", 4]),
        ],
    ),
    "C07": dict(
        validate_slink_traces=True,
        lean_modules=["Beetswap.Props.C07"],
        model_scope=NODE_SCOPE + "; " + LINK_SCOPE,
        assumptions=NODE_ASSUME + LINK_ASSUME,
        streams=[
            S("node", ["--cases", 120, "--peers", 4], ["--cases", 6000, "--peers", 4, "--ops", 120]),
            S("sim", ["--cases", 100, "--conns", 2], ["--cases", 5000, "--conns", 3, "--nodes", 4]),
        ],
    ),
    "C12": dict(
        lean_modules=["Beetswap.Props.C12"],
        model_scope=CID_SCOPE,
        assumptions=CID_ASSUME,
        streams=[
            S("prefix", ["--cases", 300, "--maxlen", 3], ["--cases", 50000, "--maxlen", 5]),
            S("tocid", ["--cases", 300], ["--cases", 50000]),
        ],
    ),
    "C16": dict(
        lean_modules=["Beetswap.Props.C16"],
        model_scope=CID_SCOPE + "; " + HANDLER_SCOPE,
        assumptions=CID_ASSUME + ["futures' SelectAll polls the woken substreams one after the other, drops a substream whose poll_next returns None and returns the first item (Model/Inbound.selectPoll; the order is read off the recorded probe lines)",
                                  "the connection-handler model (Model/ConnHandler: client half, server half, inbound substreams) is tied to the code by deterministic replay of handler traces recorded from real swarms, with the answers of sinks, streams and timer recorded by the probe hook"],
        validate_conn_traces=True,
        streams=[
            S("procmsg", ["--cases", 300], ["--cases", 30000]),
            # the glue of lib.rs: a message with a wantlist and blocks / presences has both halves applied
            S("node", ["--cases", 80], ["--cases", 4000, "--ops", 120]),
            # a raw peer writes good and bad frames on several streams of one connection of a real swarm
            S("simraw", ["--cases", 150], ["--cases", 10000]),
        ],
    ),
    "C18": dict(
        lean_modules=["Beetswap.Props.C18"],
        model_scope=CID_SCOPE,
        assumptions=CID_ASSUME,
        streams=[
            S("hash", ["--cases", 800], ["--cases", 100000, "--exhaustive"]),
            S("procmsg", ["--cases", 150], ["--cases", 10000]),
            # a real swarm whose node hashes sha2-256 blocks with a registered multihasher whose future suspends; a raw
            # peer sends block frames back to back: every block must reach the behaviour under its recomputed CID
            S("simraw", ["--cases", 120], ["--cases", 6000]),
        ],
        validate_conn_traces=True,
    ),
    "C19": dict(
        lean_modules=["Beetswap.Props.C19"],
        model_scope=CID_SCOPE,
        assumptions=CID_ASSUME + ["const-generic sizes: theorems are size-generic, the correspondence samples the source capacities {0,1,16,20,31,32,33,48,63,64,128} x the target capacities {0,1,16,20,31,32,33,48,63,64,128,255,256,300}"],
        streams=[
            S("conv", ["--cases", 1000], ["--cases", 500000]),
            S("getsize", ["--cases", 500], ["--cases", 100000]),
        ],
    ),
    "C20": dict(
        lean_modules=["Beetswap.Props.C20"],
        model_scope="src/builder.rs::protocol_prefix/build, src/utils.rs::stream_protocol, StreamProtocol::try_from_owned's leading-slash rule (Model/Builder)",
        assumptions=["multistream-select negotiates by exact protocol-name match (not modelled; hypothesis of the isolation claim)",
                     "the correspondence check samples prefix strings (exhaustively up to a length over a boundary alphabet)"],
        streams=[
            S("proto", ["--cases", 300, "--maxlen", 4], ["--cases", 20000, "--maxlen", 6]),
            S("simproto", ["--cases", 60], ["--cases", 3000, "--nodes", 4]),
        ],
    ),
    "C11": dict(
        lean_modules=["Beetswap.Props.C11"],
        model_scope=CODEC_SCOPE + "; Spec/Wire.lean is the Bitswap 1.2.0 schema over the generic proto3 wire format",
        assumptions=CODEC_ASSUME + ["harness/src/refpb.rs (independent reference encoder written from message.proto) is trusted for the failing-input search only"],
        streams=[
            S("frame", ["--cases", 3000], ["--cases", 100000]),
            S("noncanon", ["--cases", 3000], ["--cases", 200000]),
        ],
    ),
}
