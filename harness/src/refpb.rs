//! Independent reference encoder for the Bitswap 1.2.0 schema, written from `message.proto`
//! and the protobuf encoding rules. Shares no code with quick-protobuf.
//!
//! Wire types: 0 varint, 1 fixed64, 2 length-delimited, 5 fixed32. tag = (field << 3) | type.
use crate::rng::Rng;
use beetswap::verif::{Message, WantType, BlockPresenceType};

pub fn varint(mut v: u64, out: &mut Vec<u8>) {
    loop {
        let b = (v & 0x7f) as u8;
        v >>= 7;
        if v == 0 {
            out.push(b);
            return;
        }
        out.push(b | 0x80);
    }
}

#[derive(Clone, Debug)]
pub enum Val {
    Varint(u64),
    Fixed64([u8; 8]),
    Fixed32([u8; 4]),
    Len(Vec<u8>),
}

#[derive(Clone, Debug)]
pub struct Field {
    pub num: u32,
    pub val: Val,
}

pub fn serialize(fields: &[Field]) -> Vec<u8> {
    let mut out = Vec::new();
    for f in fields {
        let wt = match f.val {
            Val::Varint(_) => 0,
            Val::Fixed64(_) => 1,
            Val::Len(_) => 2,
            Val::Fixed32(_) => 5,
        };
        varint(((f.num as u64) << 3) | wt, &mut out);
        match &f.val {
            Val::Varint(v) => varint(*v, &mut out),
            Val::Fixed64(b) => out.extend_from_slice(b),
            Val::Fixed32(b) => out.extend_from_slice(b),
            Val::Len(b) => {
                varint(b.len() as u64, &mut out);
                out.extend_from_slice(b);
            }
        }
    }
    out
}

/// How far from canonical the produced encoding is.
#[derive(Clone, Copy, Default)]
pub struct Style {
    pub explicit_defaults: bool,
    pub shuffle: bool,
    pub unknown_fields: bool,
    pub dup_scalars: bool,
}

fn int32(v: i32) -> Val {
    // int32 is sign-extended to 64 bits on the wire
    Val::Varint(v as i64 as u64)
}

fn unknown_field(rng: &mut Rng, known: &[(u32, u8)]) -> Field {
    loop {
        let num = *rng.pick(&[1u32, 2, 3, 4, 5, 6, 7, 15, 16, 100, 2047, 2048, (1 << 29) - 1]);
        let val = match rng.below(4) {
            0 => Val::Varint(*rng.pick(&[0u64, 1, 127, 128, 300, u32::MAX as u64, u64::MAX, 1 << 63])),
            1 => Val::Fixed64(rng.next().to_le_bytes()),
            2 => Val::Fixed32((rng.next() as u32).to_le_bytes()),
            _ => {
                let n = *rng.pick(&[0usize, 1, 3, 20]);
                Val::Len(rng.bytes(n))
            }
        };
        let wt = match val {
            Val::Varint(_) => 0,
            Val::Fixed64(_) => 1,
            Val::Len(_) => 2,
            Val::Fixed32(_) => 5,
        };
        if !known.contains(&(num, wt)) {
            return Field { num, val };
        }
    }
}

/// Build the field list of one message level. `singular` fields may be shuffled freely,
/// `repeated` groups keep their relative order.
fn arrange(rng: &mut Rng, st: Style, mut fields: Vec<Field>, known: &[(u32, u8)]) -> Vec<Field> {
    if st.unknown_fields {
        for _ in 0..rng.below(4) {
            let f = unknown_field(rng, known);
            let pos = rng.below(fields.len() + 1);
            fields.insert(pos, f);
        }
    }
    if st.shuffle && fields.len() > 1 {
        // random permutation that keeps the relative order of fields with the same number
        let mut order: Vec<usize> = (0..fields.len()).collect();
        rng.shuffle(&mut order);
        // stable repair: for each field number, the positions it occupies get its fields in
        // original order
        let mut by_num: std::collections::BTreeMap<u32, Vec<usize>> = Default::default();
        for (pos, &i) in order.iter().enumerate() {
            by_num.entry(fields[i].num).or_default().push(pos);
        }
        let mut out: Vec<Option<Field>> = vec![None; fields.len()];
        let mut cursor: std::collections::BTreeMap<u32, usize> = Default::default();
        for f in fields.iter() {
            let c = cursor.entry(f.num).or_insert(0);
            let pos = by_num[&f.num][*c];
            *c += 1;
            out[pos] = Some(f.clone());
        }
        fields = out.into_iter().map(|f| f.unwrap()).collect();
    }
    fields
}

fn scalar(rng: &mut Rng, st: Style, out: &mut Vec<Field>, num: u32, is_default: bool, val: Val, other: Val) {
    if is_default && !st.explicit_defaults {
        return;
    }
    if st.dup_scalars && rng.chance(1, 3) {
        // an earlier occurrence with another value: the last one wins
        out.push(Field { num, val: other });
    }
    out.push(Field { num, val });
}

pub const ENTRY_KNOWN: &[(u32, u8)] = &[(1, 2), (2, 0), (3, 0), (4, 0), (5, 0)];
pub const WANTLIST_KNOWN: &[(u32, u8)] = &[(1, 2), (2, 0)];
pub const BLOCK_KNOWN: &[(u32, u8)] = &[(1, 2), (2, 2)];
pub const PRESENCE_KNOWN: &[(u32, u8)] = &[(1, 2), (2, 0)];
pub const MESSAGE_KNOWN: &[(u32, u8)] = &[(1, 2), (3, 2), (4, 2), (5, 0)];

/// Encode `m` (body only, no length prefix). With `Style::default()` this is the canonical
/// proto3 encoding (fields in number order, defaults elided).
/// `enum_override`: when set, enum fields whose logical value is the default are written with
/// that (unknown) number instead.
pub fn encode_body(rng: &mut Rng, st: Style, m: &Message, enum_override: Option<i32>) -> Vec<u8> {
    let mut top = Vec::new();
    if let Some(w) = &m.wantlist {
        let mut wf = Vec::new();
        for e in &w.entries {
            let mut ef = Vec::new();
            scalar(rng, st, &mut ef, 1, e.block.is_empty(), Val::Len(e.block.clone()), Val::Len(vec![9, 9]));
            scalar(rng, st, &mut ef, 2, e.priority == 0, int32(e.priority), int32(77));
            scalar(rng, st, &mut ef, 3, !e.cancel, Val::Varint(e.cancel as u64), Val::Varint(!e.cancel as u64));
            match (e.wantType, enum_override) {
                (WantType::Block, Some(x)) => ef.push(Field { num: 4, val: int32(x) }),
                _ => scalar(rng, st, &mut ef, 4, e.wantType == WantType::Block, Val::Varint(e.wantType as u64), Val::Varint(1 - e.wantType as u64)),
            }
            scalar(rng, st, &mut ef, 5, !e.sendDontHave, Val::Varint(e.sendDontHave as u64), Val::Varint(!e.sendDontHave as u64));
            let ef = arrange(rng, st, ef, ENTRY_KNOWN);
            wf.push(Field { num: 1, val: Val::Len(serialize(&ef)) });
        }
        scalar(rng, st, &mut wf, 2, !w.full, Val::Varint(w.full as u64), Val::Varint(!w.full as u64));
        let wf = arrange(rng, st, wf, WANTLIST_KNOWN);
        top.push(Field { num: 1, val: Val::Len(serialize(&wf)) });
    }
    for b in &m.payload {
        let mut bf = Vec::new();
        scalar(rng, st, &mut bf, 1, b.prefix.is_empty(), Val::Len(b.prefix.clone()), Val::Len(vec![1]));
        scalar(rng, st, &mut bf, 2, b.data.is_empty(), Val::Len(b.data.clone()), Val::Len(vec![2, 2]));
        let bf = arrange(rng, st, bf, BLOCK_KNOWN);
        top.push(Field { num: 3, val: Val::Len(serialize(&bf)) });
    }
    for p in &m.blockPresences {
        let mut pf = Vec::new();
        scalar(rng, st, &mut pf, 1, p.cid.is_empty(), Val::Len(p.cid.clone()), Val::Len(vec![3]));
        match (p.type_pb, enum_override) {
            (BlockPresenceType::Have, Some(x)) => pf.push(Field { num: 2, val: int32(x) }),
            _ => scalar(rng, st, &mut pf, 2, p.type_pb == BlockPresenceType::Have, Val::Varint(p.type_pb as u64), Val::Varint(1 - p.type_pb as u64)),
        }
        let pf = arrange(rng, st, pf, PRESENCE_KNOWN);
        top.push(Field { num: 4, val: Val::Len(serialize(&pf)) });
    }
    scalar(rng, st, &mut top, 5, m.pendingBytes == 0, int32(m.pendingBytes), int32(-3));
    let top = arrange(rng, st, top, MESSAGE_KNOWN);
    serialize(&top)
}

pub fn frame(body: &[u8]) -> Vec<u8> {
    let mut out = Vec::new();
    varint(body.len() as u64, &mut out);
    out.extend_from_slice(body);
    out
}
