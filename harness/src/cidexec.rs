//! Execution of CID-layer op lines (prefix, to_cid, convert, hasher table, process_message,
//! builder) against the real code.
use std::future::Future;
use std::panic::{catch_unwind, AssertUnwindSafe};
use std::pin::Pin;
use std::sync::{Arc, Mutex};
use std::task::{Context, Poll};

use beetswap::multihasher::{Multihasher, MultihasherError};
use beetswap::verif as v;
use cid::CidGeneric;
use futures::task::noop_waker;
use multihash::Multihash;

use crate::exec::panic_msg;
use crate::text::{hex, parse_message, unhex};

/// Poll a future that never really suspends (hashers here are synchronous).
pub fn block_on<T>(fut: impl Future<Output = T>) -> T {
    let mut fut: Pin<Box<dyn Future<Output = T>>> = Box::pin(fut);
    let waker = noop_waker();
    let mut cx = Context::from_waker(&waker);
    for _ in 0..1000 {
        if let Poll::Ready(v) = fut.as_mut().poll(&mut cx) {
            return v;
        }
    }
    panic!("future did not complete");
}

pub fn show_cid<const S: usize>(c: &CidGeneric<S>) -> String {
    format!("{}.{}.{}.{}", u64::from(c.version()), c.codec(), c.hash().code(), hex(c.hash().digest()))
}

fn show_prefix(p: &v::VPrefix) -> String {
    // CidPrefix { version: V1, codec: 85, multihash_code: 18, multihash_size: 32 }
    let d = p.debug();
    let field = |name: &str| -> String {
        let i = d.find(name).map(|i| i + name.len()).unwrap_or(0);
        d[i..].chars().take_while(|c| c.is_ascii_alphanumeric()).collect()
    };
    let ver = if field("version: ") == "V0" { 0 } else { 1 };
    format!("some {} {} {} {}", ver, field("codec: "), field("multihash_code: "), field("multihash_size: "))
}

pub fn exec_pfx(h: &str) -> String {
    let Some(bs) = unhex(h) else { return "bad-op".into() };
    match catch_unwind(|| v::VPrefix::from_bytes(&bs)) {
        Ok(Some(p)) => show_prefix(&p),
        Ok(None) => "none".into(),
        Err(e) => format!("panic:{}", panic_msg(e)),
    }
}

/// `pfxof v codec code size`: prefix bytes of a CID with these fields.
pub fn exec_pfxof(ver: &str, codec: &str, code: &str, size: &str) -> String {
    let (Ok(ver), Ok(codec), Ok(code), Ok(size)) = (ver.parse::<u64>(), codec.parse::<u64>(), code.parse::<u64>(), size.parse::<usize>()) else {
        return "bad-op".into();
    };
    let r = catch_unwind(|| {
        let mh = Multihash::<64>::wrap(code, &vec![7u8; size]).ok()?;
        let cid = if ver == 0 { CidGeneric::<64>::new_v0(mh).ok()? } else { CidGeneric::<64>::new_v1(codec, mh) };
        Some(hex(&v::VPrefix::from_cid(&cid).to_bytes()))
    });
    match r {
        Ok(Some(h)) => h,
        Ok(None) => "invalid-cid".into(),
        Err(e) => format!("panic:{}", panic_msg(e)),
    }
}

pub fn show_hash_err(e: &MultihasherError) -> &'static str {
    match e {
        MultihasherError::UnknownMultihashCode => "unknown",
        MultihasherError::InvalidMultihashSize => "size",
        MultihasherError::Custom(_) => "custom",
        MultihasherError::CustomFatal(_) => "fatal",
    }
}

/// A scripted hasher: for each listed code an answer kind; other codes are unknown.
#[derive(Clone)]
pub struct Scripted {
    pub idx: usize,
    pub answers: Vec<(u64, char)>,
    pub calls: Arc<Mutex<Vec<usize>>>,
}

impl<const S: usize> Multihasher<S> for Scripted {
    async fn hash(&self, code: u64, input: &[u8]) -> Result<Multihash<S>, MultihasherError> {
        self.calls.lock().unwrap().push(self.idx);
        let kind = self.answers.iter().find(|(c, _)| *c == code).map(|x| x.1).unwrap_or('u');
        // 'p': a picky hasher — the same code is hashed or refused (non-fatally) depending on the data
        let kind = if kind == 'p' { if input.first() == Some(&0xee) { 'c' } else { 'o' } } else { kind };
        // 'q': the same, but the refusal is "unknown code": an older hasher (or the built-in table) is asked
        let kind = if kind == 'q' { if input.first() == Some(&0xee) { 'u' } else { 'o' } } else { kind };
        match kind {
            'o' => {
                // a deterministic fake digest: hasher index, then a checksum of the input
                let mut d = vec![self.idx as u8];
                let sum: u32 = input.iter().map(|b| *b as u32).sum();
                d.extend_from_slice(&sum.to_le_bytes());
                d.extend_from_slice(&(input.len() as u32).to_le_bytes());
                Multihash::<S>::wrap(code, &d).map_err(|_| MultihasherError::InvalidMultihashSize)
            }
            'c' => Err(MultihasherError::custom("scripted")),
            'f' => Err(MultihasherError::custom_fatal("scripted")),
            's' => Err(MultihasherError::InvalidMultihashSize),
            _ => Err(MultihasherError::UnknownMultihashCode),
        }
    }
}

/// `T=` spec: hashers separated by ';' (registration order), each a list `code:kind,…`.
pub fn parse_table(spec: &str, calls: &Arc<Mutex<Vec<usize>>>) -> Vec<Scripted> {
    if spec.is_empty() {
        return vec![];
    }
    spec.split(';')
        .enumerate()
        .map(|(i, h)| Scripted {
            idx: i + 1,
            calls: calls.clone(),
            answers: h.split(',').filter(|s| !s.is_empty()).filter_map(|kv| {
                let (c, k) = kv.split_once(':')?;
                Some((c.parse().ok()?, k.chars().next()?))
            }).collect(),
        })
        .collect()
}

fn table_for<const S: usize>(spec: &str, calls: &Arc<Mutex<Vec<usize>>>) -> v::VHasherTable<S> {
    let mut t = v::VHasherTable::<S>::new();
    for h in parse_table(spec, calls) {
        t.register(h);
    }
    t
}

fn show_hash<const S: usize>(r: &Result<Multihash<S>, MultihasherError>) -> String {
    match r {
        Ok(mh) => format!("ok:{}:{}", mh.code(), hex(mh.digest())),
        Err(e) => show_hash_err(e).to_string(),
    }
}

/// `hash S T=<spec> code datahex`: the table's answer and which scripted hashers were invoked.
fn hash_s<const S: usize>(spec: &str, code: u64, data: &[u8]) -> String {
    let calls = Arc::new(Mutex::new(vec![]));
    let t = table_for::<S>(spec, &calls);
    let r = block_on(t.hash(code, data));
    let c = calls.lock().unwrap().iter().map(|i| i.to_string()).collect::<Vec<_>>().join(",");
    format!("{} calls={}", show_hash(&r), c)
}

fn tocid_s<const S: usize>(spec: &str, pfx: &[u8], data: &[u8]) -> String {
    let calls = Arc::new(Mutex::new(vec![]));
    let t = table_for::<S>(spec, &calls);
    let Some(p) = v::VPrefix::from_bytes(pfx) else { return "none".into() };
    match block_on(p.to_cid(&t, data)) {
        Ok(c) => format!("ok {}", show_cid(&c)),
        Err(e) => show_hash_err(&e).to_string(),
    }
}

/// The hash oracle the model consumes for one block: what the real table answers for the
/// prefix's hash code and the data (`-` when the prefix does not parse).
fn oracle_s<const S: usize>(spec: &str, pfx: &[u8], data: &[u8]) -> String {
    let calls = Arc::new(Mutex::new(vec![]));
    let t = table_for::<S>(spec, &calls);
    match v::VPrefix::from_bytes(pfx) {
        None => "-".into(),
        Some(p) => show_hash(&block_on(t.hash(p.multihash_code(), data))),
    }
}

fn parse_cid_oracle<const S: usize>(bytes: &[u8]) -> String {
    match CidGeneric::<S>::try_from(bytes) {
        Ok(c) => show_cid(&c),
        Err(_) => "-".into(),
    }
}

fn procmsg_s<const S: usize>(spec: &str, msg: v::Message) -> String {
    let calls = Arc::new(Mutex::new(vec![]));
    let t = table_for::<S>(spec, &calls);
    match block_on(v::process_message(&t, msg)) {
        None => "fatal".into(),
        Some(im) => {
            let mut ps: Vec<String> = im.presences().iter().map(|(c, t)| format!("{}:{}", show_cid(c), *t as i32)).collect();
            ps.sort();
            let mut bs: Vec<String> = im.blocks().iter().map(|(c, d)| format!("{}:{}", show_cid(c), hex(d))).collect();
            bs.sort();
            let w = match im.wantlist() {
                None => "N".to_string(),
                Some(w) => format!("{}/{}", w.full as u8, w.entries.iter().map(crate::text::show_entry).collect::<Vec<_>>().join(";")),
            };
            format!("ok c={} P={} B={} W={}", im.has_client() as u8, ps.join(","), bs.join(","), w)
        }
    }
}

macro_rules! by_size {
    ($s:expr, $f:ident, $($arg:expr),*) => {
        match $s {
            16 => $f::<16>($($arg),*),
            20 => $f::<20>($($arg),*),
            32 => $f::<32>($($arg),*),
            48 => $f::<48>($($arg),*),
            64 => $f::<64>($($arg),*),
            _ => "bad-size".to_string(),
        }
    };
}

pub fn hash_oracle(s: usize, spec: &str, pfx: &[u8], data: &[u8]) -> String {
    by_size!(s, oracle_s, spec, pfx, data)
}

pub fn cid_oracle(s: usize, bytes: &[u8]) -> String {
    by_size!(s, parse_cid_oracle, bytes)
}

fn conv_st<const S: usize, const T: usize>(ver: u64, codec: u64, code: u64, digest: &[u8]) -> String {
    let Ok(mh) = Multihash::<S>::wrap(code, digest) else { return "invalid-cid".into() };
    let cid = if ver == 0 {
        match CidGeneric::<S>::new_v0(mh) {
            Ok(c) => c,
            Err(_) => return "invalid-cid".into(),
        }
    } else {
        CidGeneric::<S>::new_v1(codec, mh)
    };
    let c2 = beetswap::utils::convert_cid::<S, T>(&cid);
    let m2 = beetswap::utils::convert_multihash::<S, T>(cid.hash());
    let back = c2.as_ref().and_then(|c| beetswap::utils::convert_cid::<T, S>(c));
    format!(
        "{} mh={} back={}",
        c2.map(|c| format!("some:{}", show_cid(&c))).unwrap_or("none".into()),
        m2.map(|m| format!("some:{}:{}", m.code(), hex(m.digest()))).unwrap_or("none".into()),
        back.map(|c| (c == cid) as u8).map(|b| b.to_string()).unwrap_or("-".into())
    )
}

fn conv_t<const S: usize>(t: usize, ver: u64, codec: u64, code: u64, digest: &[u8]) -> String {
    match t {
        0 => conv_st::<S, 0>(ver, codec, code, digest),
        1 => conv_st::<S, 1>(ver, codec, code, digest),
        16 => conv_st::<S, 16>(ver, codec, code, digest),
        20 => conv_st::<S, 20>(ver, codec, code, digest),
        31 => conv_st::<S, 31>(ver, codec, code, digest),
        32 => conv_st::<S, 32>(ver, codec, code, digest),
        33 => conv_st::<S, 33>(ver, codec, code, digest),
        48 => conv_st::<S, 48>(ver, codec, code, digest),
        63 => conv_st::<S, 63>(ver, codec, code, digest),
        64 => conv_st::<S, 64>(ver, codec, code, digest),
        128 => conv_st::<S, 128>(ver, codec, code, digest),
        // target capacities around and above 255 (`Multihash::size()` is a `u8`, a capacity is a `usize`)
        255 => conv_st::<S, 255>(ver, codec, code, digest),
        256 => conv_st::<S, 256>(ver, codec, code, digest),
        300 => conv_st::<S, 300>(ver, codec, code, digest),
        _ => "bad-size".into(),
    }
}

/// target capacities tried besides `CONV_SIZES`
pub const CONV_BIG_TARGETS: [usize; 3] = [255, 256, 300];

pub const CONV_SIZES: [usize; 11] = [0, 1, 16, 20, 31, 32, 33, 48, 63, 64, 128];

pub fn exec_proto(h: &str) -> String {
    let r = catch_unwind(|| {
        let store = Arc::new(crate::store::ScriptedStore::new());
        let b = beetswap::Behaviour::<64, _>::builder(store);
        let b = if h == "N" {
            b
        } else {
            let Some(bs) = unhex(h) else { return "bad-op".to_string() };
            let Ok(s) = String::from_utf8(bs) else { return "bad-op".to_string() };
            match b.protocol_prefix(&s) {
                Ok(b) => b,
                Err(beetswap::Error::InvalidProtocolPrefix(_)) => return "rejected".to_string(),
                Err(_) => return "other-error".to_string(),
            }
        };
        let mut node = b.build();
        // the protocol of the behaviour and of a connection handler it creates
        use libp2p_core::UpgradeInfo;
        use libp2p_swarm::{ConnectionHandler, NetworkBehaviour};
        let p1 = v::VNode::protocol(&node);
        let addr: libp2p_core::Multiaddr = "/memory/1".parse().unwrap();
        let h = node
            .handle_established_inbound_connection(libp2p_swarm::ConnectionId::new_unchecked(1), crate::keys::peer_of(1), &addr, &addr)
            .expect("handler");
        let p2 = h.listen_protocol().upgrade().protocol_info().map(|p| p.to_string()).collect::<Vec<_>>().join("|");
        if p1 != p2 {
            return format!("listen-mismatch {} {}", hex(p1.as_bytes()), hex(p2.as_bytes()));
        }
        format!("built {}", hex(p1.as_bytes()))
    });
    match r {
        Ok(s) => s,
        Err(e) => format!("panic:{}", panic_msg(e)),
    }
}

/// `getsize S_node S_src v codec code digest`: a fresh `Behaviour<S_node, _>` is asked for a
/// `CidGeneric<S_src>`; report whether the query is answered with an invalid-size error or turns
/// into a blockstore lookup.
fn getsize_node<const SN: usize, const SS: usize>(ver: u64, codec: u64, code: u64, digest: &[u8]) -> String {
    use std::task::Poll;
    let Ok(mh) = Multihash::<SS>::wrap(code, digest) else { return "invalid-cid".into() };
    let cid = if ver == 0 {
        match CidGeneric::<SS>::new_v0(mh) {
            Ok(c) => c,
            Err(_) => return "invalid-cid".into(),
        }
    } else {
        CidGeneric::<SS>::new_v1(codec, mh)
    };
    let store = crate::store::ScriptedStore::new();
    let mut node = beetswap::Behaviour::<SN, _>::new(Arc::new(store.clone()));
    let q = format!("{:?}", node.get(&cid));
    let waker = noop_waker();
    let mut cx = Context::from_waker(&waker);
    let mut events = vec![];
    for _ in 0..20 {
        use libp2p_swarm::NetworkBehaviour;
        match node.poll(&mut cx) {
            Poll::Ready(libp2p_swarm::ToSwarm::GenerateEvent(beetswap::Event::GetQueryError { query_id, error })) => {
                events.push(format!("err:{}:{}", (format!("{query_id:?}") == q) as u8, matches!(error, beetswap::Error::InvalidMultihashSize) as u8))
            }
            Poll::Ready(_) => events.push("other".into()),
            Poll::Pending => break,
        }
    }
    let started = store.take_started();
    match (events.as_slice(), started.as_slice()) {
        ([], [(_, crate::store::CallKind::Get(c))]) => {
            // the lookup must be for the same CID (version, codec, code, digest)
            match CidGeneric::<SN>::try_from(&c[..]) {
                Ok(c2) if u64::from(c2.version()) == ver.min(1) && c2.codec() == cid.codec() && c2.hash().code() == code && c2.hash().digest() == digest => "lookup".into(),
                _ => "lookup-of-another-cid".into(),
            }
        }
        ([e], []) if e == "err:1:1" => "err".into(),
        (ev, st) => format!("odd events={} lookups={}", ev.join(","), st.len()),
    }
}

fn getsize(sn: usize, ss: usize, ver: u64, codec: u64, code: u64, digest: &[u8]) -> String {
    match (sn, ss) {
        (32, 32) => getsize_node::<32, 32>(ver, codec, code, digest),
        (32, 64) => getsize_node::<32, 64>(ver, codec, code, digest),
        (32, 128) => getsize_node::<32, 128>(ver, codec, code, digest),
        (64, 32) => getsize_node::<64, 32>(ver, codec, code, digest),
        (64, 64) => getsize_node::<64, 64>(ver, codec, code, digest),
        (64, 128) => getsize_node::<64, 128>(ver, codec, code, digest),
        (40, 64) => getsize_node::<40, 64>(ver, codec, code, digest),
        (40, 128) => getsize_node::<40, 128>(ver, codec, code, digest),
        _ => "bad-size".into(),
    }
}

pub fn exec_cid(toks: &[&str]) -> Option<String> {
    let kv = |t: &str, k: &str| -> Option<String> { t.strip_prefix(k).map(|s| s.to_string()) };
    let r = catch_unwind(AssertUnwindSafe(|| -> Option<String> {
        Some(match toks {
            ["pfx", h] => exec_pfx(h),
            ["pfxof", a, b, c, d] => exec_pfxof(a, b, c, d),
            ["hash", s, t, code, data, ..] => {
                let s: usize = s.parse().ok()?;
                let spec = kv(t, "T=")?;
                let code: u64 = code.parse().ok()?;
                let data = unhex(data)?;
                by_size!(s, hash_s, &spec, code, &data)
            }
            ["tocid", s, t, pfx, data, ..] => {
                let s: usize = s.parse().ok()?;
                let spec = kv(t, "T=")?;
                let pfx = unhex(pfx)?;
                let data = unhex(data)?;
                by_size!(s, tocid_s, &spec, &pfx, &data)
            }
            ["conv", s, t, ver, codec, code, digest] => {
                let s: usize = s.parse().ok()?;
                let t: usize = t.parse().ok()?;
                let (ver, codec, code) = (ver.parse().ok()?, codec.parse().ok()?, code.parse().ok()?);
                let digest = unhex(digest)?;
                match s {
                    0 => conv_t::<0>(t, ver, codec, code, &digest),
                    1 => conv_t::<1>(t, ver, codec, code, &digest),
                    16 => conv_t::<16>(t, ver, codec, code, &digest),
                    20 => conv_t::<20>(t, ver, codec, code, &digest),
                    31 => conv_t::<31>(t, ver, codec, code, &digest),
                    32 => conv_t::<32>(t, ver, codec, code, &digest),
                    33 => conv_t::<33>(t, ver, codec, code, &digest),
                    48 => conv_t::<48>(t, ver, codec, code, &digest),
                    63 => conv_t::<63>(t, ver, codec, code, &digest),
                    64 => conv_t::<64>(t, ver, codec, code, &digest),
                    128 => conv_t::<128>(t, ver, codec, code, &digest),
                    _ => "bad-size".to_string(),
                }
            }
            ["procmsg", s, t, msg, ..] => {
                let s: usize = s.parse().ok()?;
                let spec = kv(t, "T=")?;
                let msg = parse_message(msg)?;
                by_size!(s, procmsg_s, &spec, msg)
            }
            ["proto", h] => exec_proto(h),
            ["getsize", sn, ss, ver, codec, code, digest] => {
                let digest = unhex(digest)?;
                getsize(sn.parse().ok()?, ss.parse().ok()?, ver.parse().ok()?, codec.parse().ok()?, code.parse().ok()?, &digest)
            }
            _ => return None,
        })
    }));
    match r {
        Ok(x) => x,
        Err(e) => Some(format!("panic:{}", panic_msg(e))),
    }
}
