//! A blockstore whose calls complete only when the harness says so.
use std::collections::BTreeMap;
use std::future::Future;
use std::pin::Pin;
use std::sync::{Arc, Mutex};
use std::task::{Context, Poll, Waker};

use blockstore::{Blockstore, Error, Result};
use cid::CidGeneric;

#[derive(Clone, Debug)]
pub enum CallKind {
    Get(Vec<u8>),
    Put(Vec<(Vec<u8>, Vec<u8>)>),
}

#[derive(Clone, Debug)]
pub enum StoreResult {
    Hit(Vec<u8>),
    Miss,
    Error,
    PutOk,
    PutErr,
}

struct Call {
    kind: CallKind,
    result: Option<StoreResult>,
    waker: Option<Waker>,
}

#[derive(Default)]
struct Inner {
    next_seq: u64,
    calls: BTreeMap<u64, Call>,
    started: Vec<(u64, CallKind)>,
    /// when set, every call is answered at once from this function-like table
    auto: Option<BTreeMap<Vec<u8>, Vec<u8>>>,
    puts: Vec<Vec<(Vec<u8>, Vec<u8>)>>,
}

#[derive(Clone, Default)]
pub struct ScriptedStore {
    inner: Arc<Mutex<Inner>>,
}

impl ScriptedStore {
    pub fn new() -> Self {
        Self::default()
    }

    /// Calls started since the last time this was asked, in start order.
    pub fn take_started(&self) -> Vec<(u64, CallKind)> {
        std::mem::take(&mut self.inner.lock().unwrap().started)
    }

    /// Complete a pending call. Returns false if nobody waits for `seq`.
    pub fn complete(&self, seq: u64, r: StoreResult) -> bool {
        let waker = {
            let mut g = self.inner.lock().unwrap();
            match g.calls.get_mut(&seq) {
                Some(c) if c.result.is_none() => {
                    c.result = Some(r);
                    c.waker.take()
                }
                _ => return false,
            }
        };
        if let Some(w) = waker {
            w.wake();
        }
        true
    }

    pub fn kind_of(&self, seq: u64) -> Option<CallKind> {
        self.inner.lock().unwrap().calls.get(&seq).map(|c| c.kind.clone())
    }

    pub fn pending(&self) -> Vec<u64> {
        let g = self.inner.lock().unwrap();
        g.calls.iter().filter(|(_, c)| c.result.is_none()).map(|(s, _)| *s).collect()
    }

    /// Switch to immediate mode: gets are answered from `content`, puts succeed and are added.
    pub fn set_auto(&self, content: BTreeMap<Vec<u8>, Vec<u8>>) {
        self.inner.lock().unwrap().auto = Some(content);
    }

    pub fn auto_insert(&self, cid: Vec<u8>, data: Vec<u8>) {
        if let Some(a) = self.inner.lock().unwrap().auto.as_mut() {
            a.insert(cid, data);
        }
    }

    pub fn auto_remove(&self, cid: &[u8]) {
        if let Some(a) = self.inner.lock().unwrap().auto.as_mut() {
            a.remove(cid);
        }
    }

    pub fn auto_has(&self, cid: &[u8]) -> bool {
        self.inner.lock().unwrap().auto.as_ref().map_or(false, |a| a.contains_key(cid))
    }

    pub fn take_puts(&self) -> Vec<Vec<(Vec<u8>, Vec<u8>)>> {
        std::mem::take(&mut self.inner.lock().unwrap().puts)
    }
}

struct CallFut {
    store: ScriptedStore,
    kind: Option<CallKind>,
    seq: Option<u64>,
}

impl Future for CallFut {
    type Output = (StoreResult, u64);

    fn poll(mut self: Pin<&mut Self>, cx: &mut Context<'_>) -> Poll<(StoreResult, u64)> {
        let store = self.store.clone();
        let mut g = store.inner.lock().unwrap();
        match self.seq {
            None => {
                let kind = self.kind.take().expect("polled after completion");
                if let Some(auto) = g.auto.as_mut() {
                    return Poll::Ready((match kind {
                        CallKind::Get(c) => match auto.get(&c) {
                            Some(d) => StoreResult::Hit(d.clone()),
                            None => StoreResult::Miss,
                        },
                        CallKind::Put(bs) => {
                            for (c, d) in &bs {
                                auto.insert(c.clone(), d.clone());
                            }
                            g.puts.push(bs);
                            StoreResult::PutOk
                        }
                    }, 0));
                }
                let seq = g.next_seq;
                g.next_seq += 1;
                if let CallKind::Put(bs) = &kind {
                    g.puts.push(bs.clone());
                }
                g.started.push((seq, kind.clone()));
                g.calls.insert(seq, Call { kind, result: None, waker: Some(cx.waker().clone()) });
                drop(g);
                self.seq = Some(seq);
                Poll::Pending
            }
            Some(seq) => {
                let c = g.calls.get_mut(&seq).expect("call record");
                match c.result.take() {
                    Some(r) => {
                        g.calls.remove(&seq);
                        drop(g);
                        self.seq = None;
                        Poll::Ready((r, seq))
                    }
                    None => {
                        c.waker = Some(cx.waker().clone());
                        Poll::Pending
                    }
                }
            }
        }
    }
}

impl Drop for CallFut {
    fn drop(&mut self) {
        if let Some(seq) = self.seq {
            self.store.inner.lock().unwrap().calls.remove(&seq);
        }
    }
}

/// The error a failing call reports: every variant of `blockstore::Error` that can be built here, chosen by the
/// number of the call (so that a history replays identically) — what the node does with a failed call
/// must not depend on the kind of failure.
fn scripted_error(tag: u8) -> Error {
    match tag % 4 {
        0 => Error::StoredDataError("scripted".into()),
        1 => Error::CidTooLarge,
        2 => Error::ValueTooLarge,
        _ => Error::FatalDatabaseError("scripted".into()),
    }
}

impl Blockstore for ScriptedStore {
    fn get<const S: usize>(&self, cid: &CidGeneric<S>) -> impl Future<Output = Result<Option<Vec<u8>>>> + Send {
        let fut = CallFut { store: self.clone(), kind: Some(CallKind::Get(cid.to_bytes())), seq: None };
        async move {
            match fut.await {
                (StoreResult::Hit(d), _) => Ok(Some(d)),
                (StoreResult::Miss, _) => Ok(None),
                (_, seq) => Err(scripted_error(seq as u8)),
            }
        }
    }

    fn put_keyed<const S: usize>(&self, cid: &CidGeneric<S>, data: &[u8]) -> impl Future<Output = Result<()>> + Send {
        let fut = CallFut {
            store: self.clone(),
            kind: Some(CallKind::Put(vec![(cid.to_bytes(), data.to_vec())])),
            seq: None,
        };
        async move {
            match fut.await {
                (StoreResult::PutOk, _) => Ok(()),
                (_, seq) => Err(scripted_error(seq as u8)),
            }
        }
    }

    fn remove<const S: usize>(&self, _cid: &CidGeneric<S>) -> impl Future<Output = Result<()>> + Send {
        async { Ok(()) }
    }

    fn put_many_keyed<const S: usize, D, I>(&self, blocks: I) -> impl Future<Output = Result<()>> + Send
    where
        D: AsRef<[u8]> + Sync,
        I: IntoIterator<Item = (CidGeneric<S>, D)> + Send,
        <I as IntoIterator>::IntoIter: Send,
    {
        let bs: Vec<(Vec<u8>, Vec<u8>)> = blocks.into_iter().map(|(c, d)| (c.to_bytes(), d.as_ref().to_vec())).collect();
        let fut = CallFut { store: self.clone(), kind: Some(CallKind::Put(bs)), seq: None };
        async move {
            match fut.await {
                (StoreResult::PutOk, _) => Ok(()),
                (_, seq) => Err(scripted_error(seq as u8)),
            }
        }
    }

    fn close(self) -> impl Future<Output = Result<()>> + Send {
        async { Ok(()) }
    }
}
