//! Canonical text forms shared with the Lean driver (see lean/Beetswap/Model/Text.lean).
use beetswap::verif::{Block, BlockPresence, BlockPresenceType, Entry, Message, ProtoWantlist, WantType};

pub fn hex(b: &[u8]) -> String {
    let mut s = String::with_capacity(b.len() * 2);
    for x in b {
        s.push_str(&format!("{:02x}", x));
    }
    s
}

pub fn unhex(s: &str) -> Option<Vec<u8>> {
    if s.len() % 2 != 0 {
        return None;
    }
    (0..s.len() / 2)
        .map(|i| u8::from_str_radix(&s[2 * i..2 * i + 2], 16).ok())
        .collect()
}

fn b01(b: bool) -> &'static str {
    if b {
        "1"
    } else {
        "0"
    }
}

pub fn show_entry(e: &Entry) -> String {
    format!(
        "{}.{}.{}.{}.{}",
        hex(&e.block),
        e.priority,
        b01(e.cancel),
        e.wantType as i32,
        b01(e.sendDontHave)
    )
}

pub fn show_message(m: &Message) -> String {
    let w = match &m.wantlist {
        None => "w=N/".to_string(),
        Some(w) => format!(
            "w={}/{}",
            b01(w.full),
            w.entries.iter().map(show_entry).collect::<Vec<_>>().join(";")
        ),
    };
    let b = m
        .payload
        .iter()
        .map(|b| format!("{}.{}", hex(&b.prefix), hex(&b.data)))
        .collect::<Vec<_>>()
        .join(";");
    let p = m
        .blockPresences
        .iter()
        .map(|p| format!("{}.{}", hex(&p.cid), p.type_pb as i32))
        .collect::<Vec<_>>()
        .join(";");
    format!("{}|b={}|p={}|pb={}", w, b, p, m.pendingBytes)
}

fn split_list(s: &str) -> Vec<&str> {
    if s.is_empty() {
        vec![]
    } else {
        s.split(';').collect()
    }
}

pub fn parse_message(s: &str) -> Option<Message> {
    let parts: Vec<&str> = s.split('|').collect();
    if parts.len() != 4 {
        return None;
    }
    let wantlist = if parts[0].starts_with("w=N/") {
        None
    } else {
        let w = &parts[0][2..];
        let (f, es) = w.split_once('/')?;
        let mut entries = Vec::new();
        for e in split_list(es) {
            let f: Vec<&str> = e.split('.').collect();
            if f.len() != 5 {
                return None;
            }
            entries.push(Entry {
                block: unhex(f[0])?,
                priority: f[1].parse().ok()?,
                cancel: f[2] == "1",
                wantType: if f[3] == "1" { WantType::Have } else { WantType::Block },
                sendDontHave: f[4] == "1",
            });
        }
        Some(ProtoWantlist {
            entries,
            full: f == "1",
        })
    };
    let mut payload = Vec::new();
    for b in split_list(&parts[1][2..]) {
        let (a, d) = b.split_once('.')?;
        payload.push(Block {
            prefix: unhex(a)?,
            data: unhex(d)?,
        });
    }
    let mut pres = Vec::new();
    for p in split_list(&parts[2][2..]) {
        let (a, t) = p.split_once('.')?;
        pres.push(BlockPresence {
            cid: unhex(a)?,
            type_pb: if t == "1" {
                BlockPresenceType::DontHave
            } else {
                BlockPresenceType::Have
            },
        });
    }
    Some(Message {
        wantlist,
        payload,
        blockPresences: pres,
        pendingBytes: parts[3][3..].parse().ok()?,
    })
}
