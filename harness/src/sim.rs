//! Tier 2: real `libp2p_swarm::Swarm<beetswap::Behaviour>`s over the memory transport, under a
//! harness-owned single-threaded executor with PRNG-chosen schedule, virtual clock for
//! beetswap's timers, scripted blockstores and injected faults.
//!
//! Every node's behaviour is wrapped by `Wrap` (forwards everything, records every input and
//! output of the behaviour in the node-stream text form, so that the recorded per-node trace can
//! be replayed through the Lean node model and the Spec monitors exactly like a Tier 1 stream),
//! every connection handler by `WrapHandler` (records the handler's inputs and outputs).
use std::collections::{BTreeMap, BTreeSet};
use std::future::Future;
use std::pin::Pin;
use std::sync::atomic::{AtomicBool, Ordering};
use std::sync::{Arc, Mutex};
use std::task::{Context, Poll, Wake, Waker};
use std::time::Duration;

use beetswap::verif::{self as v, BlockPresenceType, SendingState, VHandlerEvent};
use beetswap::{Behaviour, ConnHandler, Event, StreamRequester, ToBehaviourEvent, ToHandlerEvent};
use futures::StreamExt;
use libp2p_core::transport::{MemoryTransport, PortUse, Transport};
use libp2p_core::upgrade::{ReadyUpgrade, Version};
use libp2p_core::{Endpoint, Multiaddr};
use libp2p_identity::{Keypair, PeerId};
use libp2p_swarm::dial_opts::{DialOpts, PeerCondition};
use libp2p_swarm::handler::ConnectionEvent;
use libp2p_swarm::{
    ConnectionDenied, ConnectionHandler, ConnectionHandlerEvent, ConnectionId, FromSwarm, NetworkBehaviour,
    StreamProtocol, SubstreamProtocol, Swarm, SwarmEvent, THandlerInEvent, THandlerOutEvent, ToSwarm,
};

use crate::keys::{cid_of_key, id_of_data, Tables, S};
use crate::node::{conn_num, Fmt};
use crate::store::{CallKind, ScriptedStore, StoreResult};
use crate::streams::node::choices;

pub type Inner = Behaviour<S, ScriptedStore>;

/// What one node recorded: op lines and implementation output lines (node-stream format), and
/// handler-level records.
#[derive(Default)]
pub struct Rec {
    pub ops: Vec<String>,
    pub imp: Vec<String>,
    pub handler: Vec<String>,
    /// behaviour ops (`B …`, with the client's peer table after the op) and handler records (`H …`)
    /// of this node in the order they happened: the input of `bsdriver lvalidate`
    pub link: Vec<String>,
}

#[derive(Clone)]
pub struct Recorder {
    pub rec: Arc<Mutex<Rec>>,
    pub node: usize,
}

impl Recorder {
    fn handler(&self, s: String) {
        let mut r = self.rec.lock().unwrap();
        r.link.push(format!("H {s}"));
        r.handler.push(s);
    }
}

pub struct Wrap {
    pub inner: Inner,
    pub store: ScriptedStore,
    pub fmt: Fmt,
    pub recorder: Recorder,
    outs: Vec<String>,
    in_burst: bool,
}

impl Wrap {
    pub fn new(inner: Inner, store: ScriptedStore, fmt: Fmt, recorder: Recorder) -> Self {
        Wrap { inner, store, fmt, recorder, outs: vec![], in_burst: false }
    }

    /// Record an input op (after it was applied) with the resulting state.
    pub fn record_op(&mut self, op: String, pre: &str) {
        let line = format!("{} ## {}", pre, self.fmt.state(&self.inner));
        let mut r = self.recorder.rec.lock().unwrap();
        r.link.push(format!("B {op} ## {} ##  ##  ## {}", peers_field(&line), srv_field(&line)));
        r.ops.push(format!("n {op}"));
        r.imp.push(line);
    }

    /// A burst of `poll` calls ended with `Pending`: that is one `drain` of the node model.
    fn end_burst(&mut self) {
        let mut outs = std::mem::take(&mut self.outs);
        outs.extend(self.fmt.show_started(self.store.take_started()));
        outs.sort();
        let head = outs.join(" ");
        let line = format!("{} ## {}", head, self.fmt.state(&self.inner));
        let mut r = self.recorder.rec.lock().unwrap();
        // consecutive empty drains in the same state carry no information
        if head.is_empty() && r.ops.last().map_or(false, |o| o.starts_with("n drain")) && r.imp.last() == Some(&line) {
            return;
        }
        r.link.push(format!("B drain {} ## {} ## {} ## {} ## {}", choices(&line), peers_field(&line), sends_of(&line), blks_of(&line), srv_field(&line)));
        r.ops.push(format!("n drain {}", choices(&line)));
        r.imp.push(line);
    }

    fn input_guard(&mut self) {
        // an input must never arrive in the middle of a burst (see module docs of bin/check)
        if !self.outs.is_empty() {
            self.recorder.rec.lock().unwrap().ops.push("n ERROR input-inside-burst".into());
            self.recorder.rec.lock().unwrap().imp.push("harness-error".into());
        }
    }

    pub fn user_get(&mut self, k: u64, fits: bool) -> beetswap::QueryId {
        self.input_guard();
        let q = if fits {
            self.inner.get(&cid_of_key(k))
        } else {
            let big = cid::CidGeneric::<128>::new_v1(0x55, multihash::Multihash::<128>::wrap(0x99, &[7u8; 80]).unwrap());
            self.inner.get(&big)
        };
        let qs = format!("{q:?}");
        let qn = qs.trim_start_matches("QueryId(").trim_end_matches(')').to_string();
        self.record_op(format!("get {k} {}", fits as u8), &format!("q={qn} "));
        q
    }

    pub fn user_cancel(&mut self, q: u64) {
        self.input_guard();
        let qid: beetswap::QueryId = unsafe { std::mem::transmute::<u64, beetswap::QueryId>(q) };
        self.inner.cancel(qid);
        self.record_op(format!("cancel {q}"), "");
    }

    pub fn note_tick(&mut self, ms: u64) {
        self.record_op(format!("tick {ms}"), "");
    }

    pub fn note_complete(&mut self, seq: u64, res: &str) {
        self.record_op(format!("complete {seq} {res}"), "");
    }
}

fn show_sending(s: &SendingState) -> String {
    match s {
        SendingState::Ready => "ready".into(),
        SendingState::Requested(_, c) => format!("requested:{}", conn_num(c)),
        SendingState::RequestReceived(_, c) => format!("received:{}", conn_num(c)),
        SendingState::Sending(_, c) => format!("sending:{}", conn_num(c)),
        SendingState::Failed(c) => format!("failed:{}", conn_num(c)),
    }
}

impl NetworkBehaviour for Wrap {
    type ConnectionHandler = WrapHandler;
    type ToSwarm = Event;

    fn handle_established_inbound_connection(
        &mut self,
        connection_id: ConnectionId,
        peer: PeerId,
        local_addr: &Multiaddr,
        remote_addr: &Multiaddr,
    ) -> Result<Self::ConnectionHandler, ConnectionDenied> {
        self.input_guard();
        let h = self.inner.handle_established_inbound_connection(connection_id, peer, local_addr, remote_addr)?;
        self.record_op(format!("connect {} {}", self.fmt.tables.peer(&peer), conn_num(&connection_id)), "");
        Ok(WrapHandler { inner: h, recorder: self.recorder.clone(), conn: conn_num(&connection_id), peer: self.fmt.tables.peer(&peer), fmt: self.fmt.clone(), seq: 0, halted_logged: AtomicBool::new(false) })
    }

    fn handle_established_outbound_connection(
        &mut self,
        connection_id: ConnectionId,
        peer: PeerId,
        addr: &Multiaddr,
        role_override: Endpoint,
        port_use: PortUse,
    ) -> Result<Self::ConnectionHandler, ConnectionDenied> {
        self.input_guard();
        let h = self.inner.handle_established_outbound_connection(connection_id, peer, addr, role_override, port_use)?;
        self.record_op(format!("connect {} {}", self.fmt.tables.peer(&peer), conn_num(&connection_id)), "");
        Ok(WrapHandler { inner: h, recorder: self.recorder.clone(), conn: conn_num(&connection_id), peer: self.fmt.tables.peer(&peer), fmt: self.fmt.clone(), seq: 0, halted_logged: AtomicBool::new(false) })
    }

    fn on_swarm_event(&mut self, event: FromSwarm) {
        let op = match &event {
            FromSwarm::ConnectionClosed(cc) => Some(format!(
                "closed {} {} {}",
                self.fmt.tables.peer(&cc.peer_id),
                conn_num(&cc.connection_id),
                cc.remaining_established
            )),
            _ => None,
        };
        if op.is_some() {
            self.input_guard();
        }
        self.inner.on_swarm_event(event);
        if let Some(op) = op {
            self.record_op(op, "");
        }
    }

    fn on_connection_handler_event(&mut self, peer_id: PeerId, connection_id: ConnectionId, event: THandlerOutEvent<Self>) {
        self.input_guard();
        let t = self.fmt.tables.clone();
        let key = |c: &cid::CidGeneric<S>| t.key(&c.to_bytes());
        let op = match v::describe_handler_event(&event) {
            VHandlerEvent::IncomingMessage { peer, has_client: _, presences, blocks, wantlist } => {
                let mut h: Vec<String> = presences.iter().filter(|(_, t)| *t == BlockPresenceType::Have).map(|(c, _)| key(c)).collect();
                let mut d: Vec<String> = presences.iter().filter(|(_, t)| *t == BlockPresenceType::DontHave).map(|(c, _)| key(c)).collect();
                let mut b: Vec<String> = blocks
                    .iter()
                    .map(|(c, data)| format!("{}:{}", key(c), id_of_data(data).map(|x| x.to_string()).unwrap_or("?".into())))
                    .collect();
                h.sort();
                d.sort();
                b.sort();
                let w = match wantlist {
                    None => "N".to_string(),
                    Some(w) => format!(
                        "{}/{}",
                        w.full as u8,
                        w.entries
                            .iter()
                            .map(|e| {
                                let k = match cid::CidGeneric::<S>::try_from(&e.block[..]) {
                                    Ok(c) => key(&c),
                                    Err(_) => "x".to_string(),
                                };
                                if e.cancel { format!("{k}!") } else { k }
                            })
                            .collect::<Vec<_>>()
                            .join(",")
                    ),
                };
                format!("msg {} h={} d={} b={} w={}", t.peer(&peer), h.join(","), d.join(","), b.join(","), w)
            }
            VHandlerEvent::NewBlocksAvailable(bs) => format!(
                "newblocks {}",
                bs.iter().map(|(c, d)| format!("{}:{}", key(c), id_of_data(d).unwrap_or(0))).collect::<Vec<_>>().join(",")
            ),
            VHandlerEvent::SendingStateChanged(p, s) => format!("sending {} {} {}", t.peer(&p), conn_num(&connection_id), show_sending(&s)),
            VHandlerEvent::ClientClosingConnection(p, c) => format!("closing {} {}", t.peer(&p), conn_num(&c)),
        };
        self.inner.on_connection_handler_event(peer_id, connection_id, event);
        self.record_op(op, "");
    }

    fn poll(&mut self, cx: &mut Context<'_>) -> Poll<ToSwarm<Self::ToSwarm, THandlerInEvent<Self>>> {
        match self.inner.poll(cx) {
            Poll::Ready(ev) => {
                self.in_burst = true;
                self.outs.push(self.fmt.show_event(&ev));
                Poll::Ready(ev)
            }
            Poll::Pending => {
                self.in_burst = false;
                self.end_burst();
                Poll::Pending
            }
        }
    }
}

/// the `P=` field (client peer table) of an implementation output line
fn peers_field(line: &str) -> String {
    line.split(" ## ").nth(1).unwrap_or("").split('|').find(|f| f.starts_with("P=")).unwrap_or("P=").to_string()
}

/// the server half's recorded peers (`S=…`) of a state snapshot
fn srv_field(line: &str) -> String {
    line.split(" ## ").nth(1).unwrap_or("").split('|').find(|f| f.starts_with("S=")).unwrap_or("S=").to_string()
}

/// the `blk:…` tokens (blocks dispatched to peers) of a drain's output line
fn blks_of(line: &str) -> String {
    let v: Vec<&str> = line.split(" ## ").next().unwrap_or("").split(' ').filter(|t| t.starts_with("blk:")).collect();
    v.join(" ")
}

/// the `send:…` tokens (wantlists handed to connections) of a drain's output line
fn sends_of(line: &str) -> String {
    let v: Vec<&str> = line.split(" ## ").next().unwrap_or("").split(' ').filter(|t| t.starts_with("send:")).collect();
    v.join(" ")
}

/// Forwards everything to beetswap's `ConnHandler`, recording its inputs and outputs.
pub struct WrapHandler {
    inner: ConnHandler<S>,
    recorder: Recorder,
    conn: u64,
    peer: String,
    fmt: Fmt,
    seq: u64,
    halted_logged: AtomicBool,
}

impl WrapHandler {
    fn log(&self, s: String) {
        self.recorder.handler(format!("c={} p={} {}", self.conn, self.peer, s));
    }
}

impl ConnectionHandler for WrapHandler {
    type FromBehaviour = ToHandlerEvent;
    type ToBehaviour = ToBehaviourEvent<S>;
    type InboundProtocol = ReadyUpgrade<StreamProtocol>;
    type OutboundProtocol = ReadyUpgrade<StreamProtocol>;
    type InboundOpenInfo = ();
    type OutboundOpenInfo = StreamRequester;

    fn listen_protocol(&self) -> SubstreamProtocol<Self::InboundProtocol, Self::InboundOpenInfo> {
        self.inner.listen_protocol()
    }

    fn connection_keep_alive(&self) -> bool {
        let k = self.inner.connection_keep_alive();
        if !k && !self.halted_logged.swap(true, Ordering::SeqCst) {
            self.log("halted".into());
        }
        k
    }

    fn poll(&mut self, cx: &mut Context<'_>) -> Poll<ConnectionHandlerEvent<Self::OutboundProtocol, Self::OutboundOpenInfo, Self::ToBehaviour>> {
        let r = self.inner.poll(cx);
        let probes = v::probe::take();
        let res = match &r {
            Poll::Pending => "pending".to_string(),
            Poll::Ready(ConnectionHandlerEvent::OutboundSubstreamRequest { protocol }) => match protocol.info() {
                StreamRequester::Client => "open:client".into(),
                StreamRequester::Server => "open:server".into(),
            },
            Poll::Ready(ConnectionHandlerEvent::NotifyBehaviour(e)) => match v::describe_handler_event(e) {
                VHandlerEvent::SendingStateChanged(_, s) => format!("report:{}", show_sending(&s).split(':').next().unwrap_or("")),
                VHandlerEvent::ClientClosingConnection(..) => "closing".into(),
                VHandlerEvent::IncomingMessage { .. } => "incoming".into(),
                VHandlerEvent::NewBlocksAvailable(_) => "other".into(),
            },
            Poll::Ready(_) => "other".into(),
        };
        if !(probes.is_empty() && res == "pending") {
            self.log(format!("x poll t={} pr={} res={}", v::clock::now().as_millis(), probes.join(";"), res));
        }
        if let Poll::Ready(ev) = &r {
            match ev {
                ConnectionHandlerEvent::OutboundSubstreamRequest { protocol } => {
                    let who = match protocol.info() {
                        StreamRequester::Client => "client",
                        StreamRequester::Server => "server",
                    };
                    self.log(format!("out open-substream {who} {}", protocol.upgrade().protocol_info_string()));
                }
                ConnectionHandlerEvent::NotifyBehaviour(e) => match v::describe_handler_event(e) {
                    VHandlerEvent::SendingStateChanged(_, s) => self.log(format!("out report {}", show_sending(&s))),
                    VHandlerEvent::ClientClosingConnection(..) => self.log("out closing".into()),
                    VHandlerEvent::IncomingMessage { wantlist, blocks, presences, .. } => self.log(format!(
                        "out incoming wantlist={} blocks={} presences={}",
                        wantlist.map(|w| format!("{}:{}", w.full as u8, w.entries.len())).unwrap_or("-".into()),
                        blocks.len(),
                        presences.len()
                    )),
                    VHandlerEvent::NewBlocksAvailable(_) => self.log("out newblocks".into()),
                },
                _ => self.log("out other".into()),
            }
        }
        if !self.inner.connection_keep_alive() && !self.halted_logged.swap(true, Ordering::SeqCst) {
            self.log("halted".into());
        }
        r
    }

    fn poll_close(&mut self, cx: &mut Context<'_>) -> Poll<Option<Self::ToBehaviour>> {
        let r = self.inner.poll_close(cx);
        let probes = v::probe::take();
        let res = match &r {
            Poll::Ready(Some(e)) => match v::describe_handler_event(e) {
                VHandlerEvent::SendingStateChanged(_, s) => format!("report:{}", show_sending(&s).split(':').next().unwrap_or("")),
                VHandlerEvent::ClientClosingConnection(..) => "closing".into(),
                _ => "other".to_string(),
            },
            Poll::Ready(None) => "none".into(),
            Poll::Pending => "pending".into(),
        };
        self.log(format!("x close t={} pr={} res={}", v::clock::now().as_millis(), probes.join(";"), res));
        if let Poll::Ready(Some(e)) = &r {
            match v::describe_handler_event(e) {
                VHandlerEvent::SendingStateChanged(_, s) => self.log(format!("close report {}", show_sending(&s))),
                VHandlerEvent::ClientClosingConnection(..) => self.log("close closing".into()),
                _ => self.log("close other".into()),
            }
        }
        r
    }

    fn on_behaviour_event(&mut self, event: Self::FromBehaviour) {
        match &event {
            ToHandlerEvent::SendWantlist(w) => {
                self.seq += 1;
                let mut toks = vec![];
                for e in &w.entries {
                    toks.push(format!("{}{}", self.fmt.tables.key(&e.block), if e.cancel { "!" } else { "" }));
                }
                self.log(format!("in send-wantlist #{} full={} entries={}", self.seq, w.full as u8, toks.join(",")));
            }
            ToHandlerEvent::QueueOutgoingMessages(bs) => {
                self.log(format!("in queue-blocks {} ids={}", bs.len(), self.fmt.show_blocks(bs, true)));
                self.log(format!("x queue {}", bs.iter().map(|(p, d)| format!("{}:{}", p.len(), d.len())).collect::<Vec<_>>().join(",")));
            }
        }
        let wantlist = matches!(event, ToHandlerEvent::SendWantlist(_));
        self.inner.on_behaviour_event(event);
        if wantlist {
            self.log(format!("x accepted t={}", v::clock::now().as_millis()));
        }
        let _ = v::probe::take();
    }

    fn on_connection_event(&mut self, event: ConnectionEvent<'_, Self::InboundProtocol, Self::OutboundProtocol, Self::InboundOpenInfo, Self::OutboundOpenInfo>) {
        match &event {
            ConnectionEvent::FullyNegotiatedInbound(_) => self.log("in inbound-stream".into()),
            ConnectionEvent::FullyNegotiatedOutbound(o) => self.log(format!(
                "in outbound-stream {}",
                match o.info {
                    StreamRequester::Client => "client",
                    StreamRequester::Server => "server",
                }
            )),
            ConnectionEvent::DialUpgradeError(e) => self.log(format!(
                "in dial-upgrade-error {}",
                match e.info {
                    StreamRequester::Client => "client",
                    StreamRequester::Server => "server",
                }
            )),
            _ => {}
        }
        self.inner.on_connection_event(event);
        for p in v::probe::take() {
            if let Some(vid) = p.strip_prefix("in:") {
                self.log(format!("x inbound vid={vid}"));
            }
        }
    }
}

trait ProtoInfo {
    fn protocol_info_string(&self) -> String;
}

impl ProtoInfo for ReadyUpgrade<StreamProtocol> {
    fn protocol_info_string(&self) -> String {
        use libp2p_core::UpgradeInfo;
        self.protocol_info().map(|p| p.to_string()).collect::<Vec<_>>().join("|")
    }
}

// ---------------------------------------------------------------------------------- executor

pub struct Flag(pub AtomicBool);

impl Wake for Flag {
    fn wake(self: Arc<Self>) {
        self.0.store(true, Ordering::SeqCst);
    }
    fn wake_by_ref(self: &Arc<Self>) {
        self.0.store(true, Ordering::SeqCst);
    }
}

type BoxFut = Pin<Box<dyn Future<Output = ()> + Send>>;

pub struct Task {
    pub fut: BoxFut,
    pub flag: Arc<Flag>,
    pub waker: Waker,
    pub id: u64,
    /// not polled before this virtual time (ms): models a starved connection task
    pub frozen_until: u64,
}

pub struct Node {
    pub idx: usize,
    pub peer: PeerId,
    pub addr: Multiaddr,
    pub swarm: Swarm<Wrap>,
    pub flag: Arc<Flag>,
    pub waker: Waker,
    pub spawned: Arc<Mutex<Vec<BoxFut>>>,
    pub tasks: Vec<Task>,
    pub rec: Arc<Mutex<Rec>>,
    pub store: ScriptedStore,
    /// the node's true blockstore content: key -> data id
    pub content: BTreeMap<u64, u64>,
    pub prefix: Option<String>,
    /// swarm-level view of established connections: conn -> peer index
    pub conns: BTreeMap<u64, usize>,
    pub events: Vec<String>,
}

pub struct Sim {
    pub nodes: Vec<Node>,
    pub tables: Arc<Tables>,
    pub now_ms: u64,
    pub next_task: u64,
    pub trace: Vec<String>,
    pub steps: u64,
    /// steps without progress of the virtual clock after which `quiesce` lets a second pass
    pub autotick_steps: u64,
}

pub fn keypair_of(i: usize) -> Keypair {
    let mut bytes = [0u8; 32];
    bytes[0] = 42;
    bytes[1] = i as u8 + 1;
    Keypair::ed25519_from_bytes(bytes).expect("ed25519 key")
}

pub fn make_tables(n: usize, max_key: u64) -> Arc<Tables> {
    let mut t = Tables::new(max_key, 0);
    for i in 0..n {
        t.peer_to_idx.insert(keypair_of(i).public().to_peer_id(), i as u64);
    }
    Arc::new(t)
}

impl Sim {
    pub fn new(n: usize, prefixes: &[Option<String>], sdh: bool, max_key: u64) -> Sim {
        v::clock::reset();
        v::probe::enable();
        let _ = v::probe::take();
        let tables = make_tables(n, max_key);
        let mut nodes = vec![];
        for i in 0..n {
            let kp = keypair_of(i);
            let peer = kp.public().to_peer_id();
            let store = ScriptedStore::new();
            // the two builder options in either order (no option may undo another)
            let b = Behaviour::<S, _>::builder(Arc::new(store.clone()));
            let b = match (&prefixes[i], i % 2) {
                (Some(p), 0) => b.client_set_send_dont_have(sdh).protocol_prefix(p).expect("prefix accepted"),
                (Some(p), _) => b.protocol_prefix(p).expect("prefix accepted").client_set_send_dont_have(sdh),
                (None, _) => b.client_set_send_dont_have(sdh),
            };
            let inner = b.build();
            let rec = Arc::new(Mutex::new(Rec::default()));
            let fmt = Fmt { tables: tables.clone(), sdh };
            let wrap = Wrap::new(inner, store.clone(), fmt, Recorder { rec: rec.clone(), node: i });
            let transport = MemoryTransport::default()
                .upgrade(Version::V1)
                .authenticate(libp2p_plaintext::Config::new(&kp))
                .multiplex(libp2p_yamux::Config::default())
                .boxed();
            let spawned: Arc<Mutex<Vec<BoxFut>>> = Arc::new(Mutex::new(vec![]));
            let sp = spawned.clone();
            let cfg = libp2p_swarm::Config::with_executor(move |f: BoxFut| sp.lock().unwrap().push(f))
                .with_idle_connection_timeout(Duration::from_secs(3600));
            let mut swarm = Swarm::new(transport, wrap, peer, cfg);
            static PORT: std::sync::atomic::AtomicU64 = std::sync::atomic::AtomicU64::new(10_000);
            let addr: Multiaddr = format!("/memory/{}", PORT.fetch_add(1, Ordering::SeqCst)).parse().unwrap();
            swarm.listen_on(addr.clone()).expect("listen");
            let flag = Arc::new(Flag(AtomicBool::new(true)));
            let waker = Waker::from(flag.clone());
            rec.lock().unwrap().link.push(format!("B reset {}", sdh as u8));
            rec.lock().unwrap().ops.push(format!("n reset {}", sdh as u8));
            rec.lock().unwrap().imp.push("ok".into());
            nodes.push(Node { idx: i, peer, addr, swarm, flag, waker, spawned, tasks: vec![], rec, store, content: BTreeMap::new(), prefix: prefixes[i].clone(), conns: BTreeMap::new(), events: vec![] });
        }
        Sim { nodes, tables, now_ms: 0, next_task: 0, trace: vec![], steps: 0, autotick_steps: 4000 }
    }

    fn collect_spawned(&mut self, i: usize) {
        let new: Vec<BoxFut> = std::mem::take(&mut *self.nodes[i].spawned.lock().unwrap());
        for fut in new {
            let flag = Arc::new(Flag(AtomicBool::new(true)));
            let waker = Waker::from(flag.clone());
            let id = self.next_task;
            self.next_task += 1;
            self.nodes[i].tasks.push(Task { fut, flag, waker, id, frozen_until: 0 });
        }
    }

    /// Poll swarm `i` until it is `Pending`.
    pub fn poll_swarm(&mut self, i: usize) {
        let tables = self.tables.clone();
        let node = &mut self.nodes[i];
        node.flag.0.store(false, Ordering::SeqCst);
        let waker = node.waker.clone();
        let mut cx = Context::from_waker(&waker);
        let mut guard = 0;
        loop {
            match node.swarm.poll_next_unpin(&mut cx) {
                Poll::Ready(Some(ev)) => {
                    match ev {
                        SwarmEvent::Behaviour(Event::GetQueryResponse { query_id, data }) => {
                            node.events.push(format!("resp {} {}", qnum(&query_id), id_of_data(&data).map(|x| x.to_string()).unwrap_or("?".into())));
                        }
                        SwarmEvent::Behaviour(Event::GetQueryError { query_id, .. }) => {
                            node.events.push(format!("err {}", qnum(&query_id)));
                        }
                        SwarmEvent::ConnectionEstablished { peer_id, connection_id, .. } => {
                            let p = tables.peer_to_idx.get(&peer_id).copied().unwrap_or(99) as usize;
                            node.conns.insert(conn_num(&connection_id), p);
                        }
                        SwarmEvent::ConnectionClosed { connection_id, .. } => {
                            node.conns.remove(&conn_num(&connection_id));
                        }
                        _ => {}
                    }
                    guard += 1;
                    if guard > 100_000 {
                        node.events.push("livelock".into());
                        break;
                    }
                }
                Poll::Ready(None) => break,
                Poll::Pending => break,
            }
        }
        self.collect_spawned(i);
    }

    pub fn poll_task(&mut self, i: usize, t: usize) {
        let task = &mut self.nodes[i].tasks[t];
        task.flag.0.store(false, Ordering::SeqCst);
        let waker = task.waker.clone();
        let mut cx = Context::from_waker(&waker);
        if task.fut.as_mut().poll(&mut cx).is_ready() {
            self.nodes[i].tasks.remove(t);
        }
        self.collect_spawned(i);
    }

    /// Entities that can run now: (node, None) = the swarm, (node, Some(t)) = a connection task,
    /// plus pending blockstore calls (node, seq).
    pub fn runnable(&self) -> Vec<(usize, Option<usize>)> {
        let mut v = vec![];
        for (i, n) in self.nodes.iter().enumerate() {
            if n.flag.0.load(Ordering::SeqCst) {
                v.push((i, None));
            }
            for (t, task) in n.tasks.iter().enumerate() {
                if task.flag.0.load(Ordering::SeqCst) && task.frozen_until <= self.now_ms {
                    v.push((i, Some(t)));
                }
            }
        }
        v
    }

    pub fn pending_calls(&self) -> Vec<(usize, u64)> {
        let mut v = vec![];
        for (i, n) in self.nodes.iter().enumerate() {
            for seq in n.store.pending() {
                v.push((i, seq));
            }
        }
        v
    }

    /// Complete a pending blockstore call of node `i` from the node's true content (healthy store).
    pub fn complete_call(&mut self, i: usize, seq: u64) {
        let kind = self.nodes[i].store.kind_of(seq);
        let tables = self.tables.clone();
        let res = match kind {
            Some(CallKind::Get(c)) => {
                let k = tables.cid_to_key.get(&c).copied();
                match k.and_then(|k| self.nodes[i].content.get(&k).copied()) {
                    Some(d) => ("hit".to_string() + &format!(":{d}"), StoreResult::Hit(crate::keys::data_of_id(d))),
                    None => ("miss".to_string(), StoreResult::Miss),
                }
            }
            Some(CallKind::Put(bs)) => {
                for (c, d) in &bs {
                    if let (Some(k), Some(d)) = (tables.cid_to_key.get(c), id_of_data(d)) {
                        self.nodes[i].content.insert(*k, d);
                    }
                }
                ("putok".to_string(), StoreResult::PutOk)
            }
            None => return,
        };
        self.nodes[i].store.complete(seq, res.1);
        self.nodes[i].swarm.behaviour_mut().note_complete(seq, &res.0);
        self.trace.push(format!("complete node={i} seq={seq} {}", res.0));
    }

    pub fn advance(&mut self, ms: u64) {
        self.now_ms += ms;
        v::clock::advance(Duration::from_millis(ms));
        for i in 0..self.nodes.len() {
            self.nodes[i].swarm.behaviour_mut().note_tick(ms);
            // beetswap timers are polled by the behaviour / handlers: make everything look again
            self.nodes[i].flag.0.store(true, Ordering::SeqCst);
        }
        self.trace.push(format!("tick {ms}"));
    }

    pub fn dial(&mut self, a: usize, b: usize) {
        let peer = self.nodes[b].peer;
        let addr = self.nodes[b].addr.clone();
        let opts = DialOpts::peer_id(peer).addresses(vec![addr]).condition(PeerCondition::Always).build();
        let _ = self.nodes[a].swarm.dial(opts);
        self.nodes[a].flag.0.store(true, Ordering::SeqCst);
        self.trace.push(format!("dial {a}->{b}"));
    }

    pub fn close(&mut self, a: usize, conn: u64) {
        let closed = self.nodes[a].swarm.close_connection(ConnectionId::new_unchecked(conn as usize));
        self.nodes[a].flag.0.store(true, Ordering::SeqCst);
        self.trace.push(format!("close node={a} conn={conn} ok={closed}"));
    }
}

pub fn qnum(q: &beetswap::QueryId) -> String {
    format!("{q:?}").trim_start_matches("QueryId(").trim_end_matches(')').to_string()
}

pub fn _unused(_: BTreeSet<u8>) {}
