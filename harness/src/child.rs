//! Watchdog child process: executes op lines in a separate process with an address-space
//! limit; a hang or abort costs one line, not the run.
use std::io::{BufRead, BufReader, Write};
use std::process::{Child, ChildStdin, Command, Stdio};
use std::sync::mpsc::{channel, Receiver};
use std::time::Duration;

pub struct ChildExec {
    child: Option<(Child, ChildStdin, Receiver<String>)>,
    pub hangs: usize,
    pub aborts: usize,
    pub timeout: Duration,
}

impl ChildExec {
    pub fn new() -> Self {
        ChildExec { child: None, hangs: 0, aborts: 0, timeout: Duration::from_secs(4) }
    }

    fn spawn(&mut self) {
        let exe = std::env::current_exe().expect("current exe");
        let mut child = Command::new("sh")
            .arg("-c")
            .arg(format!("ulimit -v 6000000; exec '{}' worker", exe.display()))
            .stdin(Stdio::piped())
            .stdout(Stdio::piped())
            .stderr(Stdio::null())
            .spawn()
            .expect("spawn worker");
        let stdin = child.stdin.take().unwrap();
        let stdout = child.stdout.take().unwrap();
        let (tx, rx) = channel();
        std::thread::spawn(move || {
            let r = BufReader::new(stdout);
            for line in r.lines() {
                match line {
                    Ok(l) => {
                        if tx.send(l).is_err() {
                            break;
                        }
                    }
                    Err(_) => break,
                }
            }
        });
        self.child = Some((child, stdin, rx));
    }

    fn kill(&mut self) {
        if let Some((mut c, _, _)) = self.child.take() {
            let _ = c.kill();
            let _ = c.wait();
        }
    }

    pub fn exec(&mut self, line: &str) -> String {
        if self.child.is_none() {
            self.spawn();
        }
        let (_, stdin, rx) = self.child.as_mut().unwrap();
        if writeln!(stdin, "{}", line).is_err() || stdin.flush().is_err() {
            self.kill();
            self.aborts += 1;
            return "abort".into();
        }
        match rx.recv_timeout(self.timeout) {
            Ok(l) => l,
            Err(std::sync::mpsc::RecvTimeoutError::Timeout) => {
                self.kill();
                self.hangs += 1;
                "hang".into()
            }
            Err(std::sync::mpsc::RecvTimeoutError::Disconnected) => {
                self.kill();
                self.aborts += 1;
                "abort".into()
            }
        }
    }
}

impl Drop for ChildExec {
    fn drop(&mut self) {
        self.kill();
    }
}

/// Worker main loop.
pub fn worker_main() {
    std::panic::set_hook(Box::new(|_| {}));
    let stdin = std::io::stdin();
    let stdout = std::io::stdout();
    for line in stdin.lock().lines() {
        let Ok(line) = line else { break };
        let out = crate::exec::exec_pure(&line);
        let mut o = stdout.lock();
        let _ = writeln!(o, "{}", out);
        let _ = o.flush();
    }
}
