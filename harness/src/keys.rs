//! The harness owns the tables between small integers and real CIDs / peers / data.
use std::collections::HashMap;

use cid::CidGeneric;
use libp2p_identity::PeerId;
use multihash::Multihash;
use multihash_codetable::{Code, MultihashDigest};

pub const S: usize = 64;
pub type Cid64 = CidGeneric<S>;

pub const NCLASS: u64 = 7;

/// CID of key `k`; the prefix class (version, codec, hash function) is `k % 7`.
pub fn cid_of_key(k: u64) -> Cid64 {
    let data = preimage_of_key(k);
    let d = &data[..];
    match k % NCLASS {
        0 => Cid64::new_v1(0x55, Code::Sha2_256.digest(d)),
        1 => Cid64::new_v1(0x70, Code::Sha2_256.digest(d)),
        2 => Cid64::new_v0(Code::Sha2_256.digest(d)).unwrap(),
        3 => Cid64::new_v1(0x55, Code::Sha2_512.digest(d)),
        4 => Cid64::new_v1(0x0129, Code::Sha3_256.digest(d)),
        5 => Cid64::new_v1(0x55, Code::Blake3_256.digest(d)),
        _ => Cid64::new_v1(0x71, Code::Sha2_256.digest(d)),
    }
}

/// The bytes whose hash is the digest of `cid_of_key(k)`.
pub fn preimage_of_key(k: u64) -> Vec<u8> {
    let mut d = format!("k{k}").into_bytes();
    if is_big(k) {
        // larger than a yamux receive window: exercises back-pressure on the sender's sink
        d.push(b'#');
        d.resize(BIG_LEN, b'x');
    }
    d
}

pub const BIG_LEN: usize = 400_000;

/// Keys 90..=99 have big contents.
pub fn is_big(k: u64) -> bool {
    (90..100).contains(&k)
}

/// Data id `k * 100` is the honest content of key `k` (the bytes that hash to its CID);
/// every other id is arbitrary data.
pub fn data_of_id(d: u64) -> Vec<u8> {
    if d % 100 == 0 {
        preimage_of_key(d / 100)
    } else {
        format!("data-{d}").into_bytes()
    }
}

pub fn id_of_data(b: &[u8]) -> Option<u64> {
    let head = &b[..b.len().min(24)];
    let s = std::str::from_utf8(head).ok()?;
    if let Some(k) = s.strip_prefix('k') {
        return k.split('#').next()?.parse::<u64>().ok().map(|k| k * 100);
    }
    let s = std::str::from_utf8(b).ok()?;
    s.strip_prefix("data-")?.parse().ok()
}

pub fn peer_of(p: u64) -> PeerId {
    let mut bytes = [0u8; 36];
    bytes[..4].copy_from_slice(&[0x08, 0x01, 0x12, 0x20]);
    bytes[4..12].copy_from_slice(&p.to_le_bytes());
    PeerId::from_multihash(Multihash::<64>::wrap(0x00, &bytes).unwrap()).expect("identity peer id")
}

#[derive(Default)]
pub struct Tables {
    pub cid_to_key: HashMap<Vec<u8>, u64>,
    pub peer_to_idx: HashMap<PeerId, u64>,
    pub prefix_to_class: HashMap<Vec<u8>, u64>,
}

impl Tables {
    pub fn new(max_key: u64, max_peer: u64) -> Tables {
        let mut t = Tables::default();
        for k in 0..max_key {
            let c = cid_of_key(k);
            t.cid_to_key.insert(c.to_bytes(), k);
            t.prefix_to_class.insert(beetswap::verif::VPrefix::from_cid(&c).to_bytes(), k % NCLASS);
        }
        for p in 0..max_peer {
            t.peer_to_idx.insert(peer_of(p), p);
        }
        t
    }

    pub fn key(&self, cid_bytes: &[u8]) -> String {
        match self.cid_to_key.get(cid_bytes) {
            Some(k) => k.to_string(),
            None => format!("?{}", crate::text::hex(cid_bytes)),
        }
    }

    pub fn peer(&self, p: &PeerId) -> String {
        match self.peer_to_idx.get(p) {
            Some(k) => k.to_string(),
            None => format!("?{p}"),
        }
    }
}
