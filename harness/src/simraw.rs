//! Tier 2, inbound side: a real beetswap swarm and a *raw* peer (libp2p-stream) that opens
//! streams on the Bitswap protocol and writes arbitrary bytes: good frames, and frames that cannot
//! be decoded / carry an invalid CID / an unparsable block prefix, at every position, chunked at
//! random byte boundaries. Checks C16 (a bad frame costs only its own stream; what was applied
//! earlier stays applied; later streams are processed normally), C09 (an oversize / malformed
//! prefix fails the stream), C06 end to end (the raw peer receives the blocks it asked for).
use std::collections::BTreeMap;
use std::sync::atomic::{AtomicBool, Ordering};
use std::sync::{Arc, Mutex};
use std::task::{Context, Poll, Waker};
use std::time::Duration;

use beetswap::verif::{self as v, BlockPresence, BlockPresenceType, Entry, Message, ProtoWantlist, WantType};
use beetswap::multihasher::{Multihasher, MultihasherError};
use beetswap::Behaviour;
use bytes::BytesMut;
use futures::{AsyncReadExt, AsyncWriteExt, StreamExt};
use libp2p_core::transport::{MemoryTransport, Transport};
use libp2p_core::upgrade::Version;
use libp2p_core::Multiaddr;
use libp2p_swarm::dial_opts::{DialOpts, PeerCondition};
use libp2p_swarm::{StreamProtocol, Swarm};

use crate::keys::{cid_of_key, id_of_data, preimage_of_key, S};
use multihash_codetable::{Code, MultihashDigest};
use crate::node::Fmt;
use crate::rng::Rng;
use crate::sim::{keypair_of, make_tables, Flag, Rec, Recorder, Wrap};
use crate::sink::Sink;
use crate::store::{CallKind, ScriptedStore, StoreResult};
use crate::text::hex;

type BoxFut = std::pin::Pin<Box<dyn std::future::Future<Output = ()> + Send>>;

struct Task {
    fut: BoxFut,
    flag: Arc<Flag>,
    waker: Waker,
}

/// Returns `Pending` (self-woken) `n` times: lets the scheduler run other tasks in between, so
/// that the chunk boundaries chosen by the writer survive down to the reader.
struct YieldN(u32);

impl std::future::Future for YieldN {
    type Output = ();
    fn poll(mut self: std::pin::Pin<&mut Self>, cx: &mut Context<'_>) -> Poll<()> {
        if self.0 == 0 {
            Poll::Ready(())
        } else {
            self.0 -= 1;
            cx.waker().wake_by_ref();
            Poll::Pending
        }
    }
}

/// A registered multihasher for sha2-256 whose future does not complete at its first poll: it
/// yields `polls` times before it answers (the built-in table never suspends, so without it
/// `IncomingStream`'s "message still being processed" state is never reached).
struct SlowSha {
    polls: u32,
}

impl Multihasher<S> for SlowSha {
    async fn hash(&self, code: u64, input: &[u8]) -> Result<multihash::Multihash<S>, MultihasherError> {
        if code != 0x12 {
            return Err(MultihasherError::UnknownMultihashCode);
        }
        YieldN(self.polls).await;
        let d = Code::Sha2_256.digest(input);
        multihash::Multihash::<S>::wrap(0x12, d.digest()).map_err(|_| MultihasherError::InvalidMultihashSize)
    }
}

fn new_task(fut: BoxFut) -> Task {
    let flag = Arc::new(Flag(AtomicBool::new(true)));
    let waker = Waker::from(flag.clone());
    Task { fut, flag, waker }
}

#[derive(Clone, Debug)]
enum Item {
    Good(u64),           // a wantlist update wanting key k
    Bad(&'static str),   // a frame of the given bad kind
    Empty(u8),           // a valid frame with nothing to forward: the stream must go on
    Blocks(Vec<u64>),    // a frame carrying the blocks of these keys (each hashed by the node when it arrives)
}

fn encode(m: &Message) -> Vec<u8> {
    let mut b = BytesMut::new();
    v::codec_encode(m, &mut b).expect("encode");
    b.to_vec()
}

fn block_frame(ks: &[u64]) -> Vec<u8> {
    encode(&Message {
        payload: ks.iter().map(|k| v::Block { prefix: v::VPrefix::from_cid(&cid_of_key(*k)).to_bytes(), data: preimage_of_key(*k) }).collect(),
        ..Default::default()
    })
}

fn want_frame(k: u64) -> Vec<u8> {
    encode(&Message {
        wantlist: Some(ProtoWantlist {
            entries: vec![Entry { block: cid_of_key(k).to_bytes(), priority: 1, cancel: false, wantType: WantType::Have, sendDontHave: true }],
            full: false,
        }),
        ..Default::default()
    })
}

/// Valid frames that leave nothing to forward: the empty message, a message whose only block
/// uses a multihash code no hasher knows (skipped, not fatal), a message with unknown fields only.
fn empty_frame(kind: u8) -> Vec<u8> {
    match kind {
        0 => encode(&Message::default()),
        1 => encode(&Message {
            // CIDv1, raw, multihash code 0x7777, digest length 4
            payload: vec![v::Block { prefix: vec![0x01, 0x55, 0xf7, 0xee, 0x01, 0x04], data: vec![9, 9, 9] }],
            ..Default::default()
        }),
        _ => vec![0x03, 0x38, 0x96, 0x01], // field 7, varint 150: unknown to the schema
    }
}

fn bad_frame(kind: &str, rng: &mut Rng) -> Vec<u8> {
    match kind {
        "oversize" => {
            let mut f = vec![0x81, 0x80, 0x80, 0x02];
            f.extend(rng.bytes(20));
            f
        }
        "nonminimal" => vec![0x80, 0x00, 0x01, 0x02],
        "overlong" => vec![0xff; 12],
        "garbage" => vec![0x03, 0x0f, 0x01, 0x02], // wire type 7
        "truncated-field" => vec![0x02, 0x0a, 0x05],
        "bad-presence-cid" => encode(&Message {
            blockPresences: vec![BlockPresence { cid: vec![0xff, 0xff], type_pb: BlockPresenceType::Have }],
            ..Default::default()
        }),
        "bad-block-prefix" => encode(&Message { payload: vec![v::Block { prefix: vec![0x01, 0x55], data: vec![1, 2, 3] }], ..Default::default() }),
        // nested lengths that cross the end of their parent (findings F5 / F6)
        "nested-overrun" => crate::text::unhex("0e0a020a031081001d010203040506").unwrap(),
        "nested-overrun-huge" => crate::text::unhex("110a020a0218011af1ffffffffffffffff01").unwrap(),
        "nested-overrun-wrap" => crate::text::unhex("121a030a022d8f1af1ffffffffffffffff0100").unwrap(),
        "nested-overrun-wide" => {
            // the same class with the tags written as wide varints (quick-protobuf keeps the low 32 bits)
            let w = crate::text::unhex(*rng.pick(&["0e0a020a031081001d010203040506", "110a020a0218011af1ffffffffffffffff01", "121a030a022d8f1af1ffffffffffffffff0100"])).unwrap();
            crate::refpb::frame(&crate::streams::codec::widen_tags(rng, &w[1..], 0, true))
        }
        "v0-bad-prefix" => encode(&Message { payload: vec![v::Block { prefix: vec![0x00, 0x55, 0x12, 0x20], data: vec![1, 2, 3] }], ..Default::default() }),
        _ => vec![0x01, 0xff],
    }
}

const BAD_KINDS: [&str; 12] = ["nested-overrun-wide", "oversize", "nonminimal", "overlong", "garbage", "truncated-field", "bad-presence-cid", "bad-block-prefix", "v0-bad-prefix", "nested-overrun", "nested-overrun-huge", "nested-overrun-wrap"];

pub struct RawResult {
    pub violations: Vec<(String, String)>,
    pub trace: Vec<String>,
    pub ops: Vec<String>,
    pub imp: Vec<String>,
    pub handler: Vec<String>,
    /// behaviour operations and handler records of the node in the order they happened (`bsdriver lvalidate` / `svalidate`)
    pub link: Vec<String>,
    pub reader_mode: u8,
    /// the node asked for thousands of CIDs (a wantlist frame larger than a yamux window): its own trace is not
    /// replayed through the model (quadratic in size), the raw peer's view is what is checked
    pub wide: bool,
}

pub fn run_one(seed: u64) -> RawResult {
    let mut rng = Rng::new(seed);
    v::clock::reset();
    v::probe::enable();
    let _ = v::probe::take();
    // one run in six: the node asks for thousands of CIDs nobody has, so that its full wantlist is a frame larger
    // than a yamux receive window (256 KiB) and the client half's sink is not flushed at the first poll
    let wide: u64 = if rng.chance(1, 6) { *rng.pick(&[7000u64, 9000]) } else { 0 };
    let tables = make_tables(2, if wide > 0 { 1000 + wide } else { 92 });
    // node 0: beetswap; node 1: raw peer
    let kp0 = keypair_of(0);
    let kp1 = keypair_of(1);
    let peer0 = kp0.public().to_peer_id();
    let store = ScriptedStore::new();
    // half of the nodes hash sha2-256 blocks with a registered hasher that suspends
    let slow_polls = *rng.pick(&[0u32, 0, 1, 3, 40]);
    let builder = Behaviour::<S, _>::builder(Arc::new(store.clone()));
    let inner = if slow_polls > 0 { builder.register_multihasher(SlowSha { polls: slow_polls }).build() } else { builder.build() };
    let rec = Arc::new(Mutex::new(Rec::default()));
    rec.lock().unwrap().ops.push("n reset 1".into());
    rec.lock().unwrap().link.push("B reset 1".into());
    rec.lock().unwrap().imp.push("ok".into());
    let wrap = Wrap::new(inner, store.clone(), Fmt { tables: tables.clone(), sdh: true }, Recorder { rec: rec.clone(), node: 0 });
    let mk_transport = |kp: &libp2p_identity::Keypair| {
        MemoryTransport::default()
            .upgrade(Version::V1)
            .authenticate(libp2p_plaintext::Config::new(kp))
            .multiplex(libp2p_yamux::Config::default())
            .boxed()
    };
    let spawned0: Arc<Mutex<Vec<BoxFut>>> = Arc::new(Mutex::new(vec![]));
    let spawned1: Arc<Mutex<Vec<BoxFut>>> = Arc::new(Mutex::new(vec![]));
    let (s0, s1) = (spawned0.clone(), spawned1.clone());
    let cfg0 = libp2p_swarm::Config::with_executor(move |f: BoxFut| s0.lock().unwrap().push(f)).with_idle_connection_timeout(Duration::from_secs(3600));
    let cfg1 = libp2p_swarm::Config::with_executor(move |f: BoxFut| s1.lock().unwrap().push(f)).with_idle_connection_timeout(Duration::from_secs(3600));
    let mut swarm0 = Swarm::new(mk_transport(&kp0), wrap, peer0, cfg0);
    let raw = libp2p_stream::Behaviour::new();
    let mut control = raw.new_control();
    let mut swarm1 = Swarm::new(mk_transport(&kp1), raw, kp1.public().to_peer_id(), cfg1);
    static PORT: std::sync::atomic::AtomicU64 = std::sync::atomic::AtomicU64::new(500_000);
    let addr0: Multiaddr = format!("/memory/{}", PORT.fetch_add(1, Ordering::SeqCst)).parse().unwrap();
    swarm0.listen_on(addr0.clone()).expect("listen");
    let addr1: Multiaddr = format!("/memory/{}", PORT.fetch_add(1, Ordering::SeqCst)).parse().unwrap();
    swarm1.listen_on(addr1).expect("listen");
    // content of the beetswap node
    let mut content: BTreeMap<u64, ()> = BTreeMap::new();
    for k in [0u64, 1, 2, 3, 4, 5, 90, 91] {
        if rng.chance(2, 3) {
            content.insert(k, ());
        }
    }
    // how the raw peer treats the streams the node opens towards it: 0 reads promptly, 1 reads
    // slowly (back-pressure on the node's sink), 2 drops the stream after a few bytes
    let reader_mode = *rng.pick(&[0u8, 0, 1, 1, 2]);
    let reader_delay = *rng.pick(&[20u32, 200, 1000]);
    let reader_cut = *rng.pick(&[0usize, 10, 5000, 300_000]);
    // the raw peer's script: several streams, each a list of items
    let protocol = StreamProtocol::new("/ipfs/bitswap/1.2.0");
    let nstreams = 2 + rng.below(4);
    let mut script: Vec<Vec<Item>> = vec![];
    for _ in 0..nstreams {
        let n = 1 + rng.below(3);
        let mut items = vec![];
        for _ in 0..n {
            if rng.chance(1, 3) {
                items.push(Item::Bad(*rng.pick(&BAD_KINDS)));
            } else if rng.chance(1, 4) {
                items.push(Item::Empty(rng.below(3) as u8));
            } else if rng.chance(1, 3) {
                // blocks in small keys of the sha2-256 classes (0, 1, 2, 6 mod 7) and others
                let n = 1 + rng.below(2);
                items.push(Item::Blocks((0..n).map(|_| *rng.pick(&[0u64, 1, 2, 6, 7, 8, 3, 4])).collect()));
            } else {
                items.push(Item::Good(*rng.pick(&[0u64, 1, 2, 3, 4, 5, 90, 91, 90])));
            }
        }
        script.push(items);
    }
    let mut trace = vec![format!("seed={seed} content={:?} reader_mode={reader_mode} delay={reader_delay} cut={reader_cut} slow_hasher_polls={slow_polls} script={script:?}", content.keys().collect::<Vec<_>>())];
    // expected: wantlists of good frames that precede every bad frame of their stream
    let mut expected: Vec<u64> = vec![];
    for items in &script {
        for it in items {
            match it {
                Item::Good(k) => expected.push(*k),
                Item::Empty(_) => {}
                Item::Blocks(_) => {}
                Item::Bad(_) => break,
            }
        }
    }
    // … and the block frames that precede every bad frame of their stream
    let mut expected_blocks: Vec<u64> = vec![];
    for items in &script {
        for it in items {
            match it {
                Item::Blocks(ks) => {
                    // the blocks of one message are collected in a map keyed by the recomputed CID
                    let mut d = ks.clone();
                    d.sort();
                    d.dedup();
                    expected_blocks.extend(d);
                }
                Item::Bad(_) => break,
                _ => {}
            }
        }
    }
    // bytes per stream, chunked at random boundaries
    let mut streams_bytes: Vec<Vec<Vec<u8>>> = vec![];
    for items in &script {
        let mut all = vec![];
        for it in items {
            match it {
                Item::Good(k) => all.extend(want_frame(*k)),
                Item::Bad(kind) => all.extend(bad_frame(kind, &mut rng)),
                Item::Empty(kind) => all.extend(empty_frame(*kind)),
                Item::Blocks(ks) => all.extend(block_frame(ks)),
            }
        }
        let mut chunks = vec![];
        let mut pos = 0;
        while pos < all.len() {
            let n = 1 + rng.below(all.len() - pos);
            chunks.push(all[pos..pos + n].to_vec());
            pos += n;
        }
        streams_bytes.push(chunks);
    }
    // the raw peer accepts inbound Bitswap streams and records the frames it receives
    let received: Arc<Mutex<Vec<Message>>> = Arc::new(Mutex::new(vec![]));
    // streams of the node that ended (not: were dropped by the raw peer) inside a frame, with the bytes left over
    let truncated: Arc<Mutex<Vec<usize>>> = Arc::new(Mutex::new(vec![]));
    let trunc2 = truncated.clone();
    let mut incoming = control.accept(protocol.clone()).expect("accept");
    let recv2 = received.clone();
    let reader: BoxFut = Box::pin(async move {
        while let Some((_peer, mut stream)) = incoming.next().await {
            let mut buf = BytesMut::new();
            let mut tmp = vec![0u8; 65536];
            let mut total = 0usize;
            loop {
                if reader_mode == 1 {
                    YieldN(reader_delay).await;
                }
                if reader_mode == 2 && total >= reader_cut {
                    // drop the stream without reading further
                    break;
                }
                match stream.read(&mut tmp).await {
                    Ok(0) => {
                        if !buf.is_empty() {
                            trunc2.lock().unwrap().push(buf.len());
                        }
                        break;
                    }
                    Err(_) => break,
                    Ok(n) => {
                        total += n;
                        buf.extend_from_slice(&tmp[..n]);
                        while let Ok(Some(m)) = v::codec_decode(&mut buf) {
                            recv2.lock().unwrap().push(m);
                        }
                    }
                }
            }
        }
    });
    let done = Arc::new(AtomicBool::new(false));
    let done2 = done.clone();
    let mut ctl = control.clone();
    let proto2 = protocol.clone();
    let writer: BoxFut = Box::pin(async move {
        for chunks in streams_bytes {
            let Ok(mut s) = ctl.open_stream(peer0, proto2.clone()).await else { continue };
            for c in chunks {
                if s.write_all(&c).await.is_err() {
                    break;
                }
                let _ = s.flush().await;
                YieldN(40).await;
            }
            let _ = s.close().await;
        }
        done2.store(true, Ordering::SeqCst);
    });
    // wide mode: the node wants thousands of CIDs before the connection exists (every local lookup misses), so that
    // the first wantlist of the session lists them all
    if wide > 0 {
        for k in 1000..1000 + wide {
            swarm0.behaviour_mut().inner.get(&cid_of_key(k));
        }
        let flag = Arc::new(Flag(AtomicBool::new(true)));
        let w = Waker::from(flag.clone());
        let mut cx = Context::from_waker(&w);
        for _ in 0..10 {
            while let Poll::Ready(Some(_)) = swarm0.poll_next_unpin(&mut cx) {}
            let pend = store.pending();
            if pend.is_empty() {
                break;
            }
            for seq in pend {
                store.complete(seq, StoreResult::Miss);
            }
        }
    }
    // dial
    let opts = DialOpts::peer_id(peer0).addresses(vec![addr0]).condition(PeerCondition::Always).build();
    let _ = swarm1.dial(opts);
    // scheduler
    let flag0 = Arc::new(Flag(AtomicBool::new(true)));
    let flag1 = Arc::new(Flag(AtomicBool::new(true)));
    let (w0, w1) = (Waker::from(flag0.clone()), Waker::from(flag1.clone()));
    let mut tasks: Vec<Task> = vec![new_task(reader)];
    let mut writer_task = Some(writer);
    let mut violations: Vec<(String, String)> = vec![];
    let mut steps = 0u64;
    let mut idle_rounds = 0;
    loop {
        steps += 1;
        if steps > 3_000_000 {
            violations.push(("C08".into(), "the node and the raw peer did not become idle (possible busy loop)".into()));
            break;
        }
        // new tasks spawned by the swarms
        for sp in [&spawned0, &spawned1] {
            for f in std::mem::take(&mut *sp.lock().unwrap()) {
                tasks.push(new_task(f));
            }
        }
        // start writing once the connection exists
        if writer_task.is_some() && swarm1.connected_peers().count() > 0 {
            tasks.push(new_task(writer_task.take().unwrap()));
        }
        // complete pending blockstore calls of the node from its content
        let pend = store.pending();
        let mut runnable: Vec<usize> = vec![];
        if flag0.0.load(Ordering::SeqCst) {
            runnable.push(0);
        }
        if flag1.0.load(Ordering::SeqCst) {
            runnable.push(1);
        }
        for (i, t) in tasks.iter().enumerate() {
            if t.flag.0.load(Ordering::SeqCst) {
                runnable.push(2 + i);
            }
        }
        let total = runnable.len() + pend.len();
        if total == 0 {
            idle_rounds += 1;
            if done.load(Ordering::SeqCst) || idle_rounds > 3 {
                break;
            }
            // let virtual time pass (nothing should be waiting on it here)
            v::clock::advance(Duration::from_millis(10));
            flag0.0.store(true, Ordering::SeqCst);
            continue;
        }
        idle_rounds = 0;
        let pick = rng.below(total);
        if pick >= runnable.len() {
            let seq = pend[pick - runnable.len()];
            let res = match store.kind_of(seq) {
                Some(CallKind::Get(c)) => match tables.cid_to_key.get(&c) {
                    Some(k) if content.contains_key(k) => StoreResult::Hit(preimage_of_key(*k)),
                    _ => StoreResult::Miss,
                },
                Some(CallKind::Put(_)) => StoreResult::PutOk,
                None => continue,
            };
            let txt = match &res {
                StoreResult::Hit(d) => format!("hit:{}", id_of_data(d).unwrap_or(0)),
                StoreResult::Miss => "miss".into(),
                _ => "putok".into(),
            };
            store.complete(seq, res);
            swarm0.behaviour_mut().note_complete(seq, &txt);
            continue;
        }
        match runnable[pick] {
            0 => {
                flag0.0.store(false, Ordering::SeqCst);
                let mut cx = Context::from_waker(&w0);
                while let Poll::Ready(Some(_)) = swarm0.poll_next_unpin(&mut cx) {}
            }
            1 => {
                flag1.0.store(false, Ordering::SeqCst);
                let mut cx = Context::from_waker(&w1);
                while let Poll::Ready(Some(_)) = swarm1.poll_next_unpin(&mut cx) {}
            }
            i => {
                let t = &mut tasks[i - 2];
                t.flag.0.store(false, Ordering::SeqCst);
                let waker = t.waker.clone();
                let mut cx = Context::from_waker(&waker);
                if t.fut.as_mut().poll(&mut cx).is_ready() {
                    tasks.remove(i - 2);
                }
            }
        }
    }
    // what the node applied: wantlists received from the raw peer
    let r = rec.lock().unwrap();
    let mut got: Vec<u64> = vec![];
    for o in r.ops.iter() {
        let f: Vec<&str> = o.split(' ').collect();
        if f.len() == 7 && f[1] == "msg" && f[6] != "w=N" {
            for e in f[6][2..].split('/').nth(1).unwrap_or("").split(',') {
                if let Ok(k) = e.parse::<u64>() {
                    got.push(k);
                }
            }
        }
    }
    // blocks the node's behaviour was handed (recomputed CID, data) by its inbound streams
    let mut got_blocks: Vec<u64> = vec![];
    for o in r.ops.iter() {
        let f: Vec<&str> = o.split(' ').collect();
        if f.len() == 7 && f[1] == "msg" && f[5].len() > 2 {
            for e in f[5][2..].split(',') {
                if let Some((k, d)) = e.split_once(':') {
                    match (k.parse::<u64>(), d.parse::<u64>()) {
                        (Ok(k), Ok(d)) if d == k * 100 => got_blocks.push(k),
                        _ => violations.push(("C01".into(), format!("the behaviour was handed block `{e}`: the CID is not the one recomputed from the data"))),
                    }
                }
            }
        }
    }
    {
        let (mut a, mut b) = (expected_blocks.clone(), got_blocks.clone());
        a.sort();
        b.sort();
        trace.push(format!("expected blocks {expected_blocks:?}, behaviour was handed {got_blocks:?}"));
        for k in &a {
            let (na, nb) = (a.iter().filter(|x| *x == k).count(), b.iter().filter(|x| *x == k).count());
            if nb < na {
                let txt = format!("a valid frame with the block of cid {k} (on a stream of its own or before any bad frame) did not reach the behaviour: expected {na}, handed over {nb}");
                violations.push(("C16".into(), txt.clone()));
                if slow_polls > 0 {
                    violations.push(("C18".into(), format!("{txt} — the block is hashed by a registered multihasher whose future suspends")));
                }
                break;
            }
        }
        for k in &b {
            let (na, nb) = (a.iter().filter(|x| *x == k).count(), b.iter().filter(|x| *x == k).count());
            if nb > na {
                violations.push(("C16".into(), format!("a block frame that follows a bad frame on the same stream was applied (cid {k}: expected {na}, handed over {nb})")));
                break;
            }
        }
    }
    let mut a = expected.clone();
    let mut b = got.clone();
    a.sort();
    b.sort();
    trace.push(format!("expected wants {expected:?}, node applied {got:?}"));
    for k in &a {
        let (na, nb) = (a.iter().filter(|x| *x == k).count(), b.iter().filter(|x| *x == k).count());
        if nb < na {
            violations.push(("C16".into(), format!("a valid wantlist frame for cid {k} (on a stream of its own or before any bad frame) was not applied: expected {na}, applied {nb}")));
            break;
        }
    }
    for k in &b {
        let (na, nb) = (a.iter().filter(|x| *x == k).count(), b.iter().filter(|x| *x == k).count());
        if nb > na {
            violations.push(("C16".into(), format!("a frame that follows a bad frame on the same stream was applied (cid {k}: expected {na}, applied {nb})")));
            break;
        }
    }
    // C06 end to end: every wanted key the node holds reached the raw peer, with a prefix from
    // which the CID can be recomputed
    let recv = received.lock().unwrap();
    let mut blocks: BTreeMap<u64, usize> = BTreeMap::new();
    for m in recv.iter() {
        if hex(&encode(m)).len() / 2 > 4 * 1024 * 1024 + 4 {
            violations.push(("C09".into(), "the raw peer received a frame above the limit".into()));
        }
        for bl in &m.payload {
            match id_of_data(&bl.data).map(|d| d / 100) {
                Some(k) if v::VPrefix::from_cid(&cid_of_key(k)).to_bytes() == bl.prefix => *blocks.entry(k).or_insert(0) += 1,
                _ => violations.push(("C06".into(), format!("block sent with prefix {} does not recompute to the CID of its data", hex(&bl.prefix)))),
            }
        }
    }
    for k in expected.iter() {
        // (a raw peer that drops the node's streams loses blocks legitimately)
        if reader_mode != 2 && content.contains_key(k) && !blocks.contains_key(k) {
            violations.push(("C06".into(), format!("the raw peer wanted cid {k}, the node holds it, but no block arrived")));
            break;
        }
    }
    for (k, n) in blocks.iter() {
        let asked = expected.iter().filter(|x| *x == k).count();
        if *n > asked {
            violations.push(("C07".into(), format!("{n} copies of cid {k} sent for {asked} expressed wants")));
        }
    }
    trace.push(format!("blocks received by the raw peer: {blocks:?}"));
    // C14: every wantlist the node sends arrives as whole frames; a stream of the node never ends inside a frame
    for n in truncated.lock().unwrap().iter() {
        violations.push(("C14".into(), format!("a stream the node opened towards the raw peer ended inside a frame ({n} bytes of an incomplete frame were received): a truncated message, reported as sent")));
    }
    if wide > 0 && reader_mode != 2 {
        let mut wanted: std::collections::BTreeSet<Vec<u8>> = Default::default();
        for m in recv.iter() {
            if let Some(w) = &m.wantlist {
                for e in &w.entries {
                    if !e.cancel {
                        wanted.insert(e.block.clone());
                    }
                }
            }
        }
        let missing = (1000..1000 + wide).filter(|k| !wanted.contains(&cid_of_key(*k).to_bytes())).count();
        trace.push(format!("wide wantlist: {wide} CIDs wanted by the node, {} distinct CIDs in the wantlists the raw peer received", wanted.len()));
        if missing > 0 {
            violations.push(("C14".into(), format!("the node wants {wide} CIDs and is idle, but {missing} of them never reached the raw peer in a complete wantlist frame")));
        }
    }
    RawResult { violations, trace, ops: if wide > 0 { vec![] } else { r.ops.clone() }, imp: if wide > 0 { vec![] } else { r.imp.clone() }, handler: r.handler.clone(), link: if wide > 0 { vec![] } else { r.link.clone() }, reader_mode, wide: wide > 0 }
}

pub fn raw_stream(seed: u64, runs: usize, out: &str, name: &str) -> Sink {
    let mut sink = Sink::default();
    let mut net = vec![];
    let mut hlog: Vec<String> = vec![];
    let mut llog: Vec<String> = vec![];
    for r in 0..runs {
        let run_seed = seed.wrapping_mul(7_000_003).wrapping_add(r as u64);
        let res = match std::panic::catch_unwind(|| run_one(run_seed)) {
            Ok(res) => res,
            Err(e) => RawResult { violations: vec![("C08".into(), format!("panic with a raw peer: {}", crate::exec::panic_msg(e)))], trace: vec![format!("seed={run_seed}")], ops: vec![], imp: vec![], handler: vec![], link: vec![], reader_mode: 9, wide: false },
        };
        sink.count("simraw.runs");
        sink.count(&format!("simraw.reader-mode-{}", res.reader_mode));
        if res.wide {
            sink.count("simraw.wide-wantlist");
        }
        for h in &res.handler {
            hlog.push(format!("r={r} n=0 {h}"));
        }
        for l in &res.link {
            llog.push(format!("r={r} n=0 {l}"));
        }
        let first_line = sink.ops.len();
        for (o, i) in res.ops.iter().zip(res.imp.iter()) {
            sink.push(o.clone(), i.clone(), "-".into());
        }
        for (p, text) in &res.violations {
            net.push(format!(
                "{{\"property\": \"{}\", \"run\": {}, \"seed\": {}, \"late_ack\": false, \"first_line\": {}, \"text\": {:?}, \"trace\": [{}]}}",
                p, r, run_seed, first_line, text,
                res.trace.iter().map(|t| format!("{t:?}")).collect::<Vec<_>>().join(", ")
            ));
        }
    }
    std::fs::create_dir_all(out).ok();
    std::fs::write(format!("{out}/{name}.net.json"), format!("[{}]", net.join(",\n"))).expect("write net file");
    std::fs::write(format!("{out}/{name}.handler"), hlog.join("\n") + "\n").expect("write handler log");
    std::fs::write(format!("{out}/{name}.link"), llog.join("\n") + "\n").expect("write link log");
    sink.add("sim.handler-records", hlog.len() as u64);
    sink
}
