mod child;
mod cidexec;
mod exec;
mod keys;
mod node;
mod store;
mod refpb;
mod rng;
mod sim;
mod simraw;
mod simrun;
mod sink;
mod streams {
    pub mod cidl;
    pub mod codec;
    pub mod node;
}
mod text;

use child::ChildExec;

fn arg<T: std::str::FromStr>(args: &[String], name: &str, default: T) -> T {
    args.iter()
        .position(|a| a == name)
        .and_then(|i| args.get(i + 1))
        .and_then(|v| v.parse().ok())
        .unwrap_or(default)
}

fn main() {
    let args: Vec<String> = std::env::args().collect();
    if args.len() < 2 {
        eprintln!("usage: bsverif <stream|worker> [--seed N] [--cases K] [--out DIR]");
        std::process::exit(2);
    }
    if args[1] == "worker" {
        child::worker_main();
        return;
    }
    if args[1] == "replay" {
        // execute the op lines of a file against the real code, one output line per op
        let text = std::fs::read_to_string(&args[2]).expect("read ops file");
        let tables = std::sync::Arc::new(keys::Tables::new(4000, 8));
        let mut node: Option<node::NodeExec> = None;
        let mut ex = ChildExec::new();
        for line in text.lines() {
            if let Some(rest) = line.strip_prefix("n ") {
                if let Some(sdh) = rest.strip_prefix("reset ") {
                    node = Some(node::NodeExec::with_variant(sdh.starts_with('1'), sdh.as_bytes().get(1).copied().unwrap_or(b' '), tables.clone()));
                    println!("ok");
                } else {
                    let n = node.get_or_insert_with(|| node::NodeExec::new(true, tables.clone()));
                    let op = if rest.starts_with("drain") { "drain" } else { rest };
                    println!("{}", n.exec(op));
                }
            } else {
                println!("{}", ex.exec(line));
            }
        }
        return;
    }
    let seed: u64 = arg(&args, "--seed", 1);
    let cases: usize = arg(&args, "--cases", 1000);
    let out: String = arg(&args, "--out", "out".to_string());
    let maxlen: usize = arg(&args, "--maxlen", 3);
    let stream = args[1].as_str();
    let mut ex = ChildExec::new();
    let sink = match stream {
        "frame" => streams::codec::frame_stream(seed, cases, &mut ex),
        "limit" => streams::codec::limit_stream(seed, cases, &mut ex),
        "chunks" => streams::codec::chunks_stream(seed, cases, arg(&args, "--cutlen", 200), &mut ex),
        "pack" => streams::codec::pack_stream(seed, cases, &mut ex),
        "noncanon" => streams::codec::noncanon_stream(seed, cases, &mut ex),
        "shortframes" => streams::codec::shortframes_stream(maxlen, &mut ex),
        "prefix" => streams::cidl::prefix_stream(seed, cases, maxlen, &mut ex),
        "tocid" => streams::cidl::tocid_stream(seed, cases, &mut ex),
        "conv" => streams::cidl::conv_stream(seed, cases, &mut ex),
        "getsize" => streams::cidl::getsize_stream(seed, cases, &mut ex),
        "hash" => streams::cidl::hash_stream(seed, cases, args.iter().any(|a| a == "--exhaustive"), &mut ex),
        "procmsg" => streams::cidl::procmsg_stream(seed, cases, &mut ex),
        "proto" => streams::cidl::proto_stream(seed, cases, maxlen, &mut ex),
        "sim" | "simfault" | "simlate" | "simproto" | "simchain" | "simbig" => {
            let cfg = simrun::SimCfg {
                max_nodes: arg(&args, "--nodes", 3),
                keys: arg(&args, "--keys", 3),
                actions: arg(&args, "--actions", 30),
                faults: stream != "sim" && stream != "simproto" && stream != "simchain" && stream != "simbig",
                big: stream == "simbig",
                chain: stream == "simchain",
                late_ack: stream == "simlate",
                prefixes: stream == "simproto",
                max_conns_per_pair: arg(&args, "--conns", 2),
            };
            let rs: u64 = arg(&args, "--runseed", 0);
            simrun::sim_stream(seed, if rs != 0 { 1 } else { cases }, cfg, &out, stream, if rs != 0 { Some(rs) } else { None })
        }
        "simraw" => simraw::raw_stream(seed, cases, &out, stream),
        "node" => streams::node::node_stream(seed, cases, streams::node::Cfg { keys: arg(&args, "--keys", 5), peers: arg(&args, "--peers", 3), ops: arg(&args, "--ops", 80), big_wantlists: false }),
        "nodebig" => streams::node::node_stream(seed, cases, streams::node::Cfg { keys: 3100, peers: 2, ops: arg(&args, "--ops", 30), big_wantlists: true }),
        _ => {
            eprintln!("unknown stream {stream}");
            std::process::exit(2);
        }
    };
    sink.write(&out, stream).expect("write stream files");
    println!("{} lines={}", stream, sink.ops.len());
}
