//! Deterministic PRNG (splitmix64 seeded xoshiro256**). Every random choice of a run derives
//! from one seed so that a disagreement replays exactly.
#[derive(Clone)]
pub struct Rng {
    s: [u64; 4],
}

fn splitmix(x: &mut u64) -> u64 {
    *x = x.wrapping_add(0x9E3779B97F4A7C15);
    let mut z = *x;
    z = (z ^ (z >> 30)).wrapping_mul(0xBF58476D1CE4E5B9);
    z = (z ^ (z >> 27)).wrapping_mul(0x94D049BB133111EB);
    z ^ (z >> 31)
}

impl Rng {
    pub fn new(seed: u64) -> Rng {
        let mut x = seed;
        Rng {
            s: [
                splitmix(&mut x),
                splitmix(&mut x),
                splitmix(&mut x),
                splitmix(&mut x),
            ],
        }
    }

    pub fn next(&mut self) -> u64 {
        let r = self.s[1].wrapping_mul(5).rotate_left(7).wrapping_mul(9);
        let t = self.s[1] << 17;
        self.s[2] ^= self.s[0];
        self.s[3] ^= self.s[1];
        self.s[1] ^= self.s[2];
        self.s[0] ^= self.s[3];
        self.s[2] ^= t;
        self.s[3] = self.s[3].rotate_left(45);
        r
    }

    /// uniform in 0..n (n > 0)
    pub fn below(&mut self, n: usize) -> usize {
        (self.next() % (n as u64)) as usize
    }

    pub fn chance(&mut self, num: u32, den: u32) -> bool {
        (self.next() % den as u64) < num as u64
    }

    pub fn pick<'a, T>(&mut self, xs: &'a [T]) -> &'a T {
        &xs[self.below(xs.len())]
    }

    pub fn bytes(&mut self, len: usize) -> Vec<u8> {
        (0..len).map(|_| self.next() as u8).collect()
    }

    pub fn shuffle<T>(&mut self, xs: &mut [T]) {
        for i in (1..xs.len()).rev() {
            let j = self.below(i + 1);
            xs.swap(i, j);
        }
    }
}
