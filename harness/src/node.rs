//! In-process executor of node ops against the real `beetswap::Behaviour`.
use std::panic::{catch_unwind, AssertUnwindSafe};
use std::sync::atomic::{AtomicBool, Ordering};
use std::sync::Arc;
use std::task::{Context, Poll, Wake, Waker};
use std::time::Duration;

use beetswap::verif::{self as v, BlockPresenceType, Entry, ProtoWantlist, SendingState, VIncoming, VNode, WantType};
use beetswap::{Behaviour, Event, ToHandlerEvent};
use libp2p_core::transport::PortUse;
use libp2p_core::{ConnectedPoint, Endpoint, Multiaddr};
use libp2p_swarm::{ConnectionClosed, ConnectionId, FromSwarm, NetworkBehaviour, NotifyHandler, ToSwarm};
use multihash::Multihash;

use crate::exec::panic_msg;
use crate::keys::{cid_of_key, data_of_id, id_of_data, peer_of, Cid64, Tables, NCLASS, S};
use crate::store::{CallKind, ScriptedStore, StoreResult};

pub struct Flag(pub AtomicBool);

impl Wake for Flag {
    fn wake(self: Arc<Self>) {
        self.0.store(true, Ordering::SeqCst);
    }
    fn wake_by_ref(self: &Arc<Self>) {
        self.0.store(true, Ordering::SeqCst);
    }
}

/// Canonical text forms of behaviour outputs and state snapshots.
#[derive(Clone)]
pub struct Fmt {
    pub tables: Arc<Tables>,
    pub sdh: bool,
}

pub struct NodeExec {
    pub node: Behaviour<S, ScriptedStore>,
    pub store: ScriptedStore,
    pub fmt: Fmt,
    flag: Arc<Flag>,
    waker: Waker,
    addr: Multiaddr,
}

fn sorted_join(mut v: Vec<String>, sep: &str) -> String {
    v.sort();
    v.join(sep)
}

fn nums(mut v: Vec<u64>) -> String {
    v.sort();
    v.iter().map(|x| x.to_string()).collect::<Vec<_>>().join("+")
}

fn num_keys(v: Vec<String>) -> String {
    // keys are printed as numbers when known; sort numerically, unknowns last
    let mut n: Vec<(u64, String)> = v.into_iter().map(|s| (s.parse::<u64>().unwrap_or(u64::MAX), s)).collect();
    n.sort();
    n.into_iter().map(|x| x.1).collect::<Vec<_>>().join("+")
}

pub fn conn_num(c: &ConnectionId) -> u64 {
    format!("{c:?}").trim_start_matches("ConnectionId(").trim_end_matches(')').parse::<u64>().unwrap_or(u64::MAX)
}

impl NodeExec {
    pub fn new(sdh: bool, tables: Arc<Tables>) -> Self {
        Self::with_variant(sdh, b' ', tables)
    }

    /// `variant`: how the builder is used besides the send-dont-have option — `a`: a protocol prefix is set
    /// before the option, `b`: after it (no option may undo another, whatever the order).
    pub fn with_variant(sdh: bool, variant: u8, tables: Arc<Tables>) -> Self {
        v::clock::reset();
        let store = ScriptedStore::new();
        let b = Behaviour::<S, _>::builder(Arc::new(store.clone()));
        let node = match variant {
            b'a' => b.protocol_prefix("/v").expect("prefix").client_set_send_dont_have(sdh).build(),
            b'b' => b.client_set_send_dont_have(sdh).protocol_prefix("/v").expect("prefix").build(),
            _ => b.client_set_send_dont_have(sdh).build(),
        };
        let flag = Arc::new(Flag(AtomicBool::new(false)));
        let waker = Waker::from(flag.clone());
        NodeExec { node, store, fmt: Fmt { tables, sdh }, flag, waker, addr: "/memory/1".parse().unwrap() }
    }
}

impl Fmt {
    fn entry_kind(&self, e: &Entry) -> String {
        let k = self.tables.key(&e.block);
        let want = |wt: WantType| e.priority == 1 && !e.cancel && e.wantType == wt && e.sendDontHave == self.sdh;
        if want(WantType::Have) {
            format!("H{k}")
        } else if want(WantType::Block) {
            format!("B{k}")
        } else if e.cancel && e.priority == 0 && e.wantType == WantType::Block && !e.sendDontHave {
            format!("C{k}")
        } else {
            format!("X{k}({},{},{},{})", e.priority, e.cancel, e.wantType as i32, e.sendDontHave)
        }
    }

    fn show_wantlist(&self, p: &str, c: ConnectionId, w: &ProtoWantlist) -> String {
        let mut wh = vec![];
        let mut wb = vec![];
        let mut cn = vec![];
        let mut other = vec![];
        for e in &w.entries {
            let k = self.entry_kind(e);
            match k.as_bytes()[0] {
                b'H' => wh.push(k[1..].to_string()),
                b'B' => wb.push(k[1..].to_string()),
                b'C' => cn.push(k[1..].to_string()),
                _ => other.push(k),
            }
        }
        let mut s = format!(
            "send:{}:{}:{}:wh={}:wb={}:cn={}",
            p,
            format!("{c:?}").trim_start_matches("ConnectionId(").trim_end_matches(')'),
            if w.full { "F" } else { "U" },
            num_keys(wh),
            num_keys(wb),
            num_keys(cn)
        );
        if !other.is_empty() {
            s.push_str(&format!(":other={}", other.join("+")));
        }
        s
    }

    pub fn show_blocks(&self, bs: &[(Vec<u8>, Vec<u8>)], by_prefix: bool) -> String {
        let v: Vec<String> = bs
            .iter()
            .map(|(c, d)| {
                let k = if by_prefix {
                    match self.tables.prefix_to_class.get(c) {
                        Some(cl) => cl.to_string(),
                        None => format!("?{}", crate::text::hex(c)),
                    }
                } else {
                    self.tables.key(c)
                };
                let d = id_of_data(d).map(|x| x.to_string()).unwrap_or_else(|| format!("?{}", crate::text::hex(d)));
                format!("{k}.{d}")
            })
            .collect();
        sorted_join(v, "+")
    }

    pub fn show_event(&self, ev: &ToSwarm<Event, ToHandlerEvent>) -> String {
        match ev {
            ToSwarm::GenerateEvent(Event::GetQueryResponse { query_id, data }) => {
                let q = format!("{query_id:?}");
                let q = q.trim_start_matches("QueryId(").trim_end_matches(')').to_string();
                let d = id_of_data(data).map(|x| x.to_string()).unwrap_or_else(|| format!("?{}", crate::text::hex(data)));
                format!("resp:{q}:{d}")
            }
            ToSwarm::GenerateEvent(Event::GetQueryError { query_id, error }) => {
                let q = format!("{query_id:?}");
                let q = q.trim_start_matches("QueryId(").trim_end_matches(')').to_string();
                let kind = match error {
                    beetswap::Error::InvalidMultihashSize => 0,
                    beetswap::Error::Blockstore(_) => 1,
                    _ => 9,
                };
                format!("err:{q}:{kind}")
            }
            ToSwarm::NotifyHandler { peer_id, handler, event } => {
                let p = self.tables.peer(peer_id);
                match (handler, event) {
                    (NotifyHandler::One(c), ToHandlerEvent::SendWantlist(w)) => self.show_wantlist(&p, *c, w),
                    (NotifyHandler::Any, ToHandlerEvent::QueueOutgoingMessages(bs)) => {
                        format!("blk:{}:{}", p, self.show_blocks(bs, true))
                    }
                    (h, e) => format!("odd-notify:{p}:{h:?}:{e:?}").replace(' ', "_"),
                }
            }
            other => format!("odd-event:{other:?}").replace(' ', "_"),
        }
    }

    pub fn show_started(&self, started: Vec<(u64, CallKind)>) -> Vec<String> {
        started
            .into_iter()
            .map(|(seq, kind)| match kind {
                CallKind::Get(c) => format!("get:{}:{}", seq, self.tables.key(&c)),
                CallKind::Put(bs) => format!("put:{}:{}", seq, self.show_blocks(&bs, false)),
            })
            .collect()
    }
}

impl NodeExec {
    /// Poll until `Pending` with no self-wake. Returns sorted outputs.
    pub fn drain(&mut self) -> Vec<String> {
        let mut outs = Vec::new();
        let mut spins = 0;
        loop {
            self.flag.0.store(false, Ordering::SeqCst);
            let mut cx = Context::from_waker(&self.waker);
            match self.node.poll(&mut cx) {
                Poll::Ready(ev) => outs.push(self.fmt.show_event(&ev)),
                Poll::Pending => {
                    if !self.flag.0.load(Ordering::SeqCst) {
                        break;
                    }
                }
            }
            spins += 1;
            if spins > 100_000 {
                outs.push("livelock".into());
                break;
            }
        }
        outs.extend(self.fmt.show_started(self.store.take_started()));
        outs.sort();
        outs
    }

    pub fn state(&self) -> String {
        self.fmt.state(&self.node)
    }
}

impl Fmt {
    pub fn state<B: blockstore::Blockstore + 'static>(&self, node: &Behaviour<S, B>) -> String {
        let c = VNode::client_snapshot(node);
        let s = VNode::server_snapshot(node);
        let t = &self.tables;
        let conn = |c: &ConnectionId| conn_num(c);
        let mut peers: Vec<(u64, String)> = c
            .peers
            .iter()
            .map(|ps| {
                let p = t.peer_to_idx.get(&ps.peer).copied().unwrap_or(u64::MAX);
                let sending = match ps.sending_state {
                    SendingState::Ready => "ready".to_string(),
                    SendingState::Requested(i, c) => format!("req:{}:{}", i.as_duration().as_millis(), conn(&c)),
                    SendingState::RequestReceived(_, c) => format!("rcv:{}", conn(&c)),
                    SendingState::Sending(_, c) => format!("snd:{}", conn(&c)),
                    SendingState::Failed(c) => format!("fail:{}", conn(&c)),
                };
                let mut req: Vec<(u64, String)> = ps
                    .req_state
                    .iter()
                    .map(|(cid, st)| {
                        let k = t.cid_to_key.get(&cid.to_bytes()).copied().unwrap_or(u64::MAX);
                        let st = match *st {
                            "SentWantHave" => "SWH",
                            "GotHave" => "GH",
                            "GotDontHave" => "GDH",
                            "SentWantBlock" => "SWB",
                            "GotBlock" => "GB",
                            x => x,
                        };
                        (k, format!("{k}.{st}"))
                    })
                    .collect();
                req.sort();
                (
                    p,
                    format!(
                        "{}[{};{};{};{};{};{}]",
                        p,
                        nums(ps.connections.iter().map(conn).collect()),
                        sending,
                        ps.send_full as u8,
                        req.into_iter().map(|x| x.1).collect::<Vec<_>>().join("+"),
                        ps.force_update as u8,
                        ps.synced_revision
                    ),
                )
            })
            .collect();
        peers.sort();
        let mut waiters: Vec<(u64, String)> = c
            .cid_to_queries
            .iter()
            .map(|(cid, qs)| {
                let k = t.cid_to_key.get(&cid.to_bytes()).copied().unwrap_or(u64::MAX);
                (k, format!("{}:{}", k, nums(qs.clone())))
            })
            .collect();
        waiters.sort();
        let mut swl: Vec<(u64, String)> = s
            .peers_wantlists
            .iter()
            .map(|(p, cids)| {
                let p = t.peer_to_idx.get(p).copied().unwrap_or(u64::MAX);
                (p, format!("{}[{}]", p, nums(cids.iter().map(|c| t.cid_to_key.get(&c.to_bytes()).copied().unwrap_or(u64::MAX)).collect())))
            })
            .collect();
        swl.sort();
        let mut swt: Vec<(u64, String)> = s
            .peers_waiting_for_cid
            .iter()
            .map(|(cid, ps)| {
                let k = t.cid_to_key.get(&cid.to_bytes()).copied().unwrap_or(u64::MAX);
                (k, format!("{}:{}", k, nums(ps.iter().map(|p| t.peer_to_idx.get(p).copied().unwrap_or(u64::MAX)).collect())))
            })
            .collect();
        swt.sort();
        format!(
            "W={}@{}|P={}|Q={}|A={}|T={}|NB={}|S={}|Wt={}|O={}|ST={}",
            nums(c.wantlist.iter().map(|cid| t.cid_to_key.get(&cid.to_bytes()).copied().unwrap_or(u64::MAX)).collect()),
            c.revision,
            peers.into_iter().map(|x| x.1).collect::<Vec<_>>().join(","),
            waiters.into_iter().map(|x| x.1).collect::<Vec<_>>().join(","),
            nums(c.query_abort_handle.clone()),
            c.tasks,
            c.new_blocks,
            swl.into_iter().map(|x| x.1).collect::<Vec<_>>().join(","),
            swt.into_iter().map(|x| x.1).collect::<Vec<_>>().join(","),
            nums(s.outgoing_queue.iter().map(|cid| t.cid_to_key.get(&cid.to_bytes()).copied().unwrap_or(u64::MAX)).collect()),
            s.tasks
        )
    }
}

impl NodeExec {
    fn exec_inner(&mut self, toks: &[&str]) -> String {
        let num = |s: &str| s.parse::<u64>().ok();
        let pairs = |s: &str| -> Option<Vec<(u64, u64)>> {
            if s.is_empty() {
                return Some(vec![]);
            }
            s.split(',').map(|t| t.split_once(':').and_then(|(a, b)| Some((a.parse().ok()?, b.parse().ok()?)))).collect()
        };
        let list = |s: &str| -> Option<Vec<u64>> {
            if s.is_empty() {
                return Some(vec![]);
            }
            s.split(',').map(|t| t.parse().ok()).collect()
        };
        let mut pre = String::new();
        let mut outs: Vec<String> = vec![];
        match toks {
            ["connect", p, c] => {
                let (Some(p), Some(c)) = (num(p), num(c)) else { return "bad-op".into() };
                let h = if c % 2 == 0 {
                    self.node.handle_established_inbound_connection(ConnectionId::new_unchecked(c as usize), peer_of(p), &self.addr, &self.addr)
                } else {
                    self.node.handle_established_outbound_connection(ConnectionId::new_unchecked(c as usize), peer_of(p), &self.addr, Endpoint::Dialer, PortUse::Reuse)
                };
                drop(h);
            }
            ["closed", p, c, rem] => {
                let (Some(p), Some(c), Some(rem)) = (num(p), num(c), num(rem)) else { return "bad-op".into() };
                let endpoint = ConnectedPoint::Dialer { address: self.addr.clone(), role_override: Endpoint::Dialer, port_use: PortUse::Reuse };
                self.node.on_swarm_event(FromSwarm::ConnectionClosed(ConnectionClosed {
                    peer_id: peer_of(p),
                    connection_id: ConnectionId::new_unchecked(c as usize),
                    endpoint: &endpoint,
                    cause: None,
                    remaining_established: rem as usize,
                }));
            }
            ["dialfail", p, c] => {
                // a dial (or a denied extra connection) to peer `p` failed: nothing about the peer's established
                // connections changes
                let (Some(p), Some(c)) = (num(p), num(c)) else { return "bad-op".into() };
                let err = libp2p_swarm::DialError::Aborted;
                self.node.on_swarm_event(FromSwarm::DialFailure(libp2p_swarm::DialFailure {
                    peer_id: Some(peer_of(p)),
                    error: &err,
                    connection_id: ConnectionId::new_unchecked(c as usize),
                }));
            }
            ["closing", p, c] => {
                let (Some(p), Some(c)) = (num(p), num(c)) else { return "bad-op".into() };
                VNode::client_closing(&mut self.node, peer_of(p), ConnectionId::new_unchecked(c as usize));
            }
            ["get", k, fits] => {
                let Some(k) = num(k) else { return "bad-op".into() };
                let q = if *fits == "1" {
                    self.node.get(&cid_of_key(k))
                } else {
                    let big = cid::CidGeneric::<128>::new_v1(0x55, Multihash::<128>::wrap(0x99, &[7u8; 80]).unwrap());
                    self.node.get(&big)
                };
                let q = format!("{q:?}");
                pre = format!("q={} ", q.trim_start_matches("QueryId(").trim_end_matches(')'));
            }
            ["cancel", q] => {
                let Some(q) = num(q) else { return "bad-op".into() };
                // QueryId has no public constructor: transmute from its u64 representation
                let qid: beetswap::QueryId = unsafe { std::mem::transmute::<u64, beetswap::QueryId>(q) };
                self.node.cancel(qid);
            }
            ["msg", p, h, d, b, w] | ["msg", p, h, d, b, w, _] => {
                let Some(p) = num(p) else { return "bad-op".into() };
                // the connection the message arrived on (optional 7th token `c=<n>`; 0 when absent): what is
                // applied must not depend on it
                let via = toks.get(6).and_then(|t| t.strip_prefix("c=")).and_then(num).unwrap_or(0);
                let (Some(h), Some(d), Some(b)) = (
                    h.strip_prefix("h=").and_then(list),
                    d.strip_prefix("d=").and_then(list),
                    b.strip_prefix("b=").and_then(pairs),
                ) else {
                    return "bad-op".into();
                };
                let Some(w) = w.strip_prefix("w=") else { return "bad-op".into() };
                let client = if h.is_empty() && d.is_empty() && b.is_empty() {
                    None
                } else {
                    let mut pres: Vec<(Cid64, BlockPresenceType)> = h.iter().map(|k| (cid_of_key(*k), BlockPresenceType::Have)).collect();
                    pres.extend(d.iter().map(|k| (cid_of_key(*k), BlockPresenceType::DontHave)));
                    Some((pres, b.iter().map(|(k, d)| (cid_of_key(*k), data_of_id(*d))).collect()))
                };
                let server = if w == "N" {
                    None
                } else {
                    let Some((f, es)) = w.split_once('/') else { return "bad-op".into() };
                    let mut entries = vec![];
                    if !es.is_empty() {
                        for t in es.split(',') {
                            let cancel = t.ends_with('!');
                            let body = t.trim_end_matches('!');
                            let block = if body == "x" { vec![0xff, 0xff] } else {
                                let Some(k) = num(body) else { return "bad-op".into() };
                                cid_of_key(k).to_bytes()
                            };
                            // the fields the serving side does not act upon vary with the position: priorities over the
                            // whole int32 range, both want types, both settings of send-dont-have
                            let i = entries.len();
                            let priority = [1, 0, i32::MIN, -1, i32::MAX, 7][i % 6];
                            let want_type = if i % 2 == 0 { WantType::Have } else { WantType::Block };
                            entries.push(Entry { block, priority, cancel, wantType: want_type, sendDontHave: i % 3 != 1 });
                        }
                    }
                    Some(ProtoWantlist { entries, full: f == "1" })
                };
                VNode::incoming(&mut self.node, peer_of(p), ConnectionId::new_unchecked(via as usize), VIncoming::from_parts(client, server));
            }
            ["sending", p, src, st] => {
                let Some(p) = num(p) else { return "bad-op".into() };
                let Some(src) = num(src) else { return "bad-op".into() };
                let now = v::clock::Instant::now();
                let (kind, c) = st.split_once(':').unwrap_or((st, "0"));
                let Some(c) = num(c) else { return "bad-op".into() };
                let c = ConnectionId::new_unchecked(c as usize);
                let state = match kind {
                    "ready" => SendingState::Ready,
                    "requested" => SendingState::Requested(now, c),
                    "received" => SendingState::RequestReceived(now, c),
                    "sending" => SendingState::Sending(now, c),
                    "failed" => SendingState::Failed(c),
                    _ => return "bad-op".into(),
                };
                VNode::sending_state_changed(&mut self.node, peer_of(p), ConnectionId::new_unchecked(src as usize), state);
            }
            ["newblocks", b] => {
                let Some(b) = pairs(b) else { return "bad-op".into() };
                VNode::new_blocks_available(&mut self.node, peer_of(0), ConnectionId::new_unchecked(0), b.iter().map(|(k, d)| (cid_of_key(*k), data_of_id(*d))).collect());
            }
            ["complete", seq, r] => {
                let Some(seq) = num(seq) else { return "bad-op".into() };
                let r = match r.split_once(':').unwrap_or((r, "")) {
                    ("hit", d) => StoreResult::Hit(data_of_id(d.parse().unwrap_or(0))),
                    ("miss", _) => StoreResult::Miss,
                    ("error", _) => StoreResult::Error,
                    ("putok", _) => StoreResult::PutOk,
                    ("puterr", _) => StoreResult::PutErr,
                    _ => return "bad-op".into(),
                };
                self.store.complete(seq, r);
            }
            ["tick", ms] => {
                let Some(ms) = num(ms) else { return "bad-op".into() };
                v::clock::advance(Duration::from_millis(ms));
            }
            ["drain"] | ["drain", _, _] => {
                outs = self.drain();
            }
            ["assert-empty"] => {
                // C13: after every query is resolved / cancelled and every peer is gone, nothing is retained
                let st = self.state();
                let rest = st.split_once('|').map(|x| x.1).unwrap_or("");
                let want_empty = st.starts_with("W=@");
                return if want_empty && rest == "P=|Q=|A=|T=0|NB=0|S=|Wt=|O=|ST=0" { "empty".into() } else { format!("retained:{st}") };
            }
            _ => return "bad-op".into(),
        }
        format!("{}{} ## {}", pre, outs.join(" "), self.state())
    }

    pub fn exec(&mut self, line: &str) -> String {
        let toks: Vec<&str> = line.split(' ').collect();
        match catch_unwind(AssertUnwindSafe(|| self.exec_inner(&toks))) {
            Ok(s) => s,
            Err(e) => format!("panic:{}", panic_msg(e)),
        }
    }
}

pub const _NCLASS: u64 = NCLASS;
