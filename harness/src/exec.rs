//! Execution of single "pure" op lines against the real code (codec, prefix, cid layer).
//! Runs inside the watchdog child for codec ops.
use std::panic::{catch_unwind, AssertUnwindSafe};
use std::pin::Pin;
use std::task::{Context, Poll};

use beetswap::verif as v;
use bytes::BytesMut;
use futures::io::AsyncRead;
use futures::task::noop_waker;

use crate::text::{hex, parse_message, show_message, unhex};

pub fn panic_msg(e: Box<dyn std::any::Any + Send>) -> String {
    let s = if let Some(s) = e.downcast_ref::<&str>() {
        s.to_string()
    } else if let Some(s) = e.downcast_ref::<String>() {
        s.clone()
    } else {
        "?".to_string()
    };
    s.replace([' ', '\n'], "_")
}

/// Reader that yields the given chunks, `Pending` (self-woken) between them, then EOF.
pub struct ChunkedReader {
    pub chunks: Vec<Vec<u8>>,
    pub idx: usize,
    pub off: usize,
    pub gate: bool,
}

impl AsyncRead for ChunkedReader {
    fn poll_read(
        mut self: Pin<&mut Self>,
        cx: &mut Context<'_>,
        buf: &mut [u8],
    ) -> Poll<std::io::Result<usize>> {
        if self.gate {
            self.gate = false;
            cx.waker().wake_by_ref();
            return Poll::Pending;
        }
        if self.idx >= self.chunks.len() {
            return Poll::Ready(Ok(0));
        }
        let this = &mut *self;
        let c = &this.chunks[this.idx];
        let n = (c.len() - this.off).min(buf.len());
        buf[..n].copy_from_slice(&c[this.off..this.off + n]);
        this.off += n;
        if this.off == c.len() {
            this.idx += 1;
            this.off = 0;
            this.gate = true;
        }
        Poll::Ready(Ok(n))
    }
}

pub fn split_at_cuts(bs: &[u8], cuts: &[usize]) -> Vec<Vec<u8>> {
    let mut out = Vec::new();
    let mut pos = 0;
    for &c in cuts {
        out.push(bs[pos..c].to_vec());
        pos = c;
    }
    if pos < bs.len() {
        out.push(bs[pos..].to_vec());
    }
    out
}

pub fn exec_dec(h: &str) -> String {
    let Some(bs) = unhex(h) else { return "bad-op".into() };
    let total = bs.len();
    let mut buf = BytesMut::from(&bs[..]);
    match catch_unwind(AssertUnwindSafe(|| v::codec_decode(&mut buf))) {
        Ok(Ok(Some(m))) => format!("ok {} {}", total - buf.len(), show_message(&m)),
        Ok(Ok(None)) => "none".into(),
        Ok(Err(_)) => "err".into(),
        Err(e) => format!("panic:{}", panic_msg(e)),
    }
}

pub fn exec_enc(m: &str) -> String {
    let Some(m) = parse_message(m) else { return "bad-op".into() };
    let mut buf = BytesMut::new();
    match catch_unwind(AssertUnwindSafe(|| v::codec_encode(&m, &mut buf))) {
        Ok(Ok(())) => hex(&buf),
        Ok(Err(_)) => "err".into(),
        Err(e) => format!("panic:{}", panic_msg(e)),
    }
}

pub fn exec_chunks(h: &str, cuts: &str) -> String {
    let Some(bs) = unhex(h) else { return "bad-op".into() };
    let cuts: Vec<usize> = if cuts.is_empty() {
        vec![]
    } else {
        cuts.split(',').filter_map(|c| c.parse().ok()).collect()
    };
    let chunks = split_at_cuts(&bs, &cuts);
    let r = catch_unwind(AssertUnwindSafe(|| {
        let reader = ChunkedReader { chunks, idx: 0, off: 0, gate: false };
        let mut fr = v::VFramedRead::new(reader);
        let waker = noop_waker();
        let mut cx = Context::from_waker(&waker);
        let mut msgs = Vec::new();
        let mut kept = 0usize;
        let fin;
        loop {
            match fr.poll_next(&mut cx) {
                Poll::Ready(Some(Ok(m))) => msgs.push(show_message(&m)),
                Poll::Ready(Some(Err(_))) => {
                    fin = "err";
                    break;
                }
                Poll::Ready(None) => {
                    fin = "eof";
                    break;
                }
                Poll::Pending => {
                    kept = kept.max(fr.buffered());
                }
            }
        }
        let mut s = format!("{} kept={}", fin, kept);
        for m in msgs {
            s.push(' ');
            s.push_str(&m);
        }
        s
    }));
    match r {
        Ok(s) => s,
        Err(e) => format!("panic:{}", panic_msg(e)),
    }
}

pub fn exec_big(n: &str) -> String {
    let Ok(n) = n.parse::<usize>() else { return "bad-op".into() };
    let m = v::Message {
        payload: vec![v::Block { prefix: vec![], data: vec![0xab; n] }],
        ..Default::default()
    };
    let r = catch_unwind(AssertUnwindSafe(|| {
        let mut buf = BytesMut::new();
        if v::codec_encode(&m, &mut buf).is_err() {
            return "enc-err".to_string();
        }
        let total = buf.len();
        match v::codec_decode(&mut buf) {
            Ok(Some(d)) => {
                if d == m {
                    format!("ok {}", total - buf.len())
                } else {
                    "mismatch".to_string()
                }
            }
            Ok(None) => "none".into(),
            Err(_) => "err".into(),
        }
    }));
    match r {
        Ok(s) => s,
        Err(e) => format!("panic:{}", panic_msg(e)),
    }
}

/// `pack n1,n2,…`: blocks with data of these lengths are queued at the server handler; print,
/// per message it would send, the number of blocks and the encoded frame size.
pub fn exec_pack(sizes: &str) -> String {
    let sizes: Vec<usize> = sizes.split(',').filter(|s| !s.is_empty()).filter_map(|s| s.parse().ok()).collect();
    let r = catch_unwind(AssertUnwindSafe(|| {
        let mut pending: Vec<(Vec<u8>, Vec<u8>)> = sizes.iter().map(|n| (vec![1, 0x55, 0x12, 0x20], vec![0xcd; *n])).collect();
        let mut out = vec![];
        let mut guard = 0;
        while !pending.is_empty() {
            let (msg, rest) = v::pack_next(pending);
            let mut buf = BytesMut::new();
            if v::codec_encode(&msg, &mut buf).is_err() {
                return "enc-err".to_string();
            }
            out.push(format!("{}:{}", msg.payload.len(), buf.len()));
            pending = rest;
            guard += 1;
            if guard > 10_000 {
                return "no-progress".to_string();
            }
        }
        let mut s = "frames".to_string();
        for o in out {
            s.push(' ');
            s.push_str(&o);
        }
        s
    }));
    match r {
        Ok(s) => s,
        Err(e) => format!("panic:{}", panic_msg(e)),
    }
}

/// Execute one pure op line.
pub fn exec_pure(line: &str) -> String {
    let toks: Vec<&str> = line.trim_end_matches('\n').split(' ').collect();
    match toks.as_slice() {
        ["dec", h] => exec_dec(h),
        ["enc", m] => exec_enc(m),
        ["chunks", h, cuts] => exec_chunks(h, cuts),
        ["big", n] => exec_big(n),
        ["pack", sizes] => exec_pack(sizes),
        _ => crate::cidexec::exec_cid(&toks).unwrap_or_else(|| "bad-op".into()),
    }
}
