//! Node stream: random histories of `NetworkBehaviour`-level operations against the real
//! `Behaviour` (client + server + glue) with a scripted blockstore and the virtual clock.
use std::collections::{BTreeMap, BTreeSet};
use std::sync::Arc;

use crate::keys::Tables;
use crate::node::NodeExec;
use crate::rng::Rng;
use crate::sink::Sink;

pub struct Cfg {
    pub keys: u64,
    pub peers: u64,
    pub ops: usize,
    pub big_wantlists: bool,
}

struct View {
    conns: BTreeMap<u64, BTreeSet<u64>>,
    next_conn: u64,
    queries: Vec<u64>,
    pending: BTreeMap<u64, bool>, // seq -> is_put
    handshake: BTreeMap<u64, (u64, u8)>, // peer -> (conn, stage 0 requested,1 received,2 sending)
    /// connections whose handler did not acknowledge within the timeout (a tick of a second or more passed
    /// while the wantlist was only requested): the behaviour gives them up, their handlers may still report
    given_up: Vec<(u64, u64)>,
    /// virtual time and the end of the running refresh period, as the behaviour's timer sees them
    now: u64,
    refresh_at: u64,
}

fn absorb(view: &mut View, out: &str) {
    let head = out.split(" ## ").next().unwrap_or("");
    for t in head.split(' ') {
        let f: Vec<&str> = t.split(':').collect();
        match f.as_slice() {
            ["get", seq, _] => {
                if let Ok(s) = seq.parse() {
                    view.pending.insert(s, false);
                }
            }
            ["put", seq, _] => {
                if let Ok(s) = seq.parse() {
                    view.pending.insert(s, true);
                }
            }
            ["send", p, c, ..] => {
                if let (Ok(p), Ok(c)) = (p.parse(), c.parse()) {
                    view.handshake.insert(p, (c, 0));
                }
            }
            [q] if q.starts_with("q=") => {
                if let Ok(q) = q[2..].parse() {
                    view.queries.push(q);
                }
            }
            _ => {}
        }
    }
}

/// The observations a `drain` line carries for the model: the connection chosen for each
/// wantlist and the CID of each blockstore lookup that was started.
pub fn choices(out: &str) -> String {
    let head = out.split(" ## ").next().unwrap_or("");
    let mut v = vec![];
    let mut l = vec![];
    for t in head.split(' ') {
        let f: Vec<&str> = t.split(':').collect();
        match f.as_slice() {
            ["send", p, c, ..] => v.push(format!("{p}:{c}")),
            ["get", seq, k] => l.push(format!("{seq}:{k}")),
            _ => {}
        }
    }
    format!("c={} l={}", v.join(","), l.join(","))
}

fn key(rng: &mut Rng, cfg: &Cfg) -> u64 {
    rng.below(cfg.keys as usize) as u64
}

fn keys_list(rng: &mut Rng, cfg: &Cfg, max: usize) -> Vec<u64> {
    let n = rng.below(max + 1);
    let mut s = BTreeSet::new();
    for _ in 0..n {
        s.insert(key(rng, cfg));
    }
    s.into_iter().collect()
}

fn gen_wantlist(rng: &mut Rng, cfg: &Cfg, sink: &mut Sink) -> String {
    if cfg.big_wantlists && rng.chance(1, 5) {
        // cap probe: an update mixing cancels that remove nothing (never-wanted CIDs, or one CID
        // cancelled many times) with wants for CIDs that are new to the record
        let m = *rng.pick(&[10u64, 300, 1024]);
        let base = 1030 + rng.below(900) as u64;
        let mut es: Vec<String> = (0..m).map(|i| if rng.chance(1, 2) { format!("{}!", 2500 + (i % 500)) } else { "2999!".to_string() }).collect();
        es.extend((0..m).map(|i| (base + i).min(cfg.keys - 1).to_string()));
        if rng.chance(1, 2) {
            rng.shuffle(&mut es);
        }
        sink.count("node.msg.cap-probe");
        return format!("0/{}", es.join(","));
    }
    let full = rng.chance(1, 3);
    let n = if cfg.big_wantlists && rng.chance(1, 3) {
        *rng.pick(&[1020usize, 1023, 1024, 1025, 1026, 1500, 3000])
    } else {
        *rng.pick(&[0usize, 1, 1, 2, 2, 3, 5])
    };
    let mut es = vec![];
    for i in 0..n {
        let k = if n > 100 { (i as u64) % cfg.keys } else { key(rng, cfg) };
        let mut e = if rng.chance(1, 25) { "x".to_string() } else { k.to_string() };
        if rng.chance(1, 4) {
            e.push('!');
        }
        es.push(e);
    }
    // cancel + want of one CID in one message, duplicates
    if n > 0 && n < 100 && rng.chance(1, 4) {
        let k = key(rng, cfg);
        es.push(format!("{k}!"));
        es.push(k.to_string());
        sink.count("node.msg.cancel+want-same-cid");
    }
    if n > 100 {
        sink.count("node.msg.big-wantlist");
    }
    format!("{}/{}", full as u8, es.join(","))
}

pub fn node_stream(seed: u64, histories: usize, cfg: Cfg) -> Sink {
    let mut rng = Rng::new(seed);
    let mut sink = Sink::default();
    let tables = Arc::new(Tables::new(cfg.keys.max(8), cfg.peers.max(4)));
    for _h in 0..histories {
        let sdh = rng.chance(1, 2);
        // builder usage: the option alone, or together with a protocol prefix set before / after it
        let variant = *rng.pick(&[b' ', b' ', b'a', b'b']);
        let mut ex = NodeExec::with_variant(sdh, variant, tables.clone());
        sink.count(match variant { b'a' => "node.builder.prefix-then-option", b'b' => "node.builder.option-then-prefix", _ => "node.builder.option-only" });
        sink.push(format!("n reset {}{}", sdh as u8, if variant == b' ' { String::new() } else { (variant as char).to_string() }), "ok".into(), "-".into());
        let mut view = View { conns: BTreeMap::new(), next_conn: 1, queries: vec![], pending: BTreeMap::new(), handshake: BTreeMap::new(), given_up: vec![], now: 0, refresh_at: 30_000 };
        let nops = cfg.ops / 2 + rng.below(cfg.ops);
        let mut i = 0;
        let mut want_drain = false;
        if cfg.big_wantlists {
            // start at the cap: peer 0 connects and sends a wantlist that fills (or overfills) its record
            let n = *rng.pick(&[1023u64, 1024, 1025, 1500]);
            let full = rng.chance(1, 2);
            view.conns.entry(0).or_default().insert(view.next_conn);
            let pre = vec![
                format!("connect 0 {}", view.next_conn),
                format!("msg 0 h= d= b= w={}/{}", full as u8, (0..n).map(|k| k.to_string()).collect::<Vec<_>>().join(",")),
            ];
            view.next_conn += 1;
            for op in pre {
                let out = ex.exec(&op);
                absorb(&mut view, &out);
                sink.push(format!("n {op}"), out, "-".into());
            }
            sink.count("node.msg.fill-to-cap");
        }
        let mut script: std::collections::VecDeque<Option<String>> = Default::default();
        let mut history_dead = false;
        while i < nops {
            i += 1;
            // now and then a scripted exchange with one connected peer: HAVE, handshake completes,
            // DONT_HAVE (or a block), refresh, handshake completes — the histories in which answers
            // contradict each other around a full wantlist
            if script.is_empty() && !want_drain && !view.conns.is_empty() && rng.chance(1, 30) {
                let ps: Vec<u64> = view.conns.keys().copied().collect();
                let p = *rng.pick(&ps);
                let k = key(&mut rng, &cfg);
                let second = match rng.below(4) {
                    0 => format!("msg {p} h= d={k} b= w=N"),
                    1 => format!("msg {p} h= d= b={k}:{} w=N", k * 100),
                    _ => format!("msg {p} h={k} d= b= w=N"),
                };
                for o in [Some(format!("get {k} 1")), None, Some("@missall".to_string()), None, Some(format!("msg {p} h={k} d= b= w=N")), None, Some(format!("@ready {p}")), None,
                          Some(second), Some("tick 30000".to_string()), Some(format!("@ready {p}")), None, Some(format!("@ready {p}")), None] {
                    script.push_back(o);
                }
                sink.count("node.scripted-exchange");
            }
            // now and then: a new session of another peer (its first wantlist is a full one) shortly before the refresh
            // period ends, then the end of the period — the refresh of the peers that were there before is not postponed
            if script.is_empty() && !want_drain && !view.conns.is_empty() && view.refresh_at > view.now + 8_000 && rng.chance(1, 40) {
                let q = (0..cfg.peers).find(|q| !view.conns.contains_key(q));
                if let Some(q) = q {
                    let c = view.next_conn;
                    view.next_conn += 1;
                    view.conns.entry(q).or_default().insert(c);
                    let before = view.refresh_at - view.now - 5_000;
                    for o in [Some(format!("tick {before}")), None, Some(format!("connect {q} {c}")), None, Some(format!("@ready {q}")), None,
                              Some("tick 6000".to_string()), None, None] {
                        script.push_back(o);
                    }
                    sink.count("node.scripted-refresh");
                }
            }
            // now and then: a peer with two connections whose first transmission is not acknowledged within the
            // timeout; the given-up connection's handler acknowledges late; the exchange goes on over the other one
            if script.is_empty() && !want_drain && rng.chance(1, 45) {
                if let Some(p) = (0..cfg.peers).find(|q| !view.conns.contains_key(q)) {
                    let (c1, c2) = (view.next_conn, view.next_conn + 1);
                    view.next_conn += 2;
                    view.conns.entry(p).or_default().extend([c1, c2]);
                    let (k1, k2) = (key(&mut rng, &cfg), key(&mut rng, &cfg));
                    for o in [Some(format!("connect {p} {c1}")), Some(format!("connect {p} {c2}")), Some(format!("get {k1} 1")), None,
                              Some("@missall".to_string()), None, Some("tick 1000".to_string()), None, Some(format!("@late {p}")), None,
                              Some(format!("@ready {p}")), None, Some(format!("get {k2} 1")), None, Some("@missall".to_string()), None, None] {
                        script.push_back(o);
                    }
                    sink.count("node.scripted-late-ack");
                }
            }
            let mut scripted = script.pop_front();
            if scripted == Some(Some("@missall".to_string())) {
                // every pending blockstore lookup of the node misses
                let seqs: Vec<u64> = view.pending.iter().filter(|(_, put)| !**put).map(|(s, _)| *s).collect();
                for seq in seqs {
                    view.pending.remove(&seq);
                    let op = format!("complete {seq} miss");
                    let out = ex.exec(&op);
                    absorb(&mut view, &out);
                    sink.push(format!("n {op}"), out, "-".into());
                }
                scripted = Some(None);
            }
            if let Some(Some(sop)) = &scripted {
                if let Some(p) = sop.strip_prefix("@late ") {
                    // the handler of the connection that was given up acknowledges at last
                    let p: u64 = p.parse().unwrap();
                    scripted = match view.given_up.iter().rev().find(|x| x.0 == p) {
                        Some((_, c)) => Some(Some(format!("sending {p} {c} received:{c}"))),
                        None => Some(None),
                    };
                }
            }
            if let Some(Some(sop)) = &scripted {
                if let Some(p) = sop.strip_prefix("@ready ") {
                    // the handler of the connection the transmission is tracked on reports `Ready`
                    let p: u64 = p.parse().unwrap();
                    let src = view.handshake.remove(&p).map(|(c, _)| c).unwrap_or(0);
                    scripted = Some(Some(format!("sending {p} {src} ready")));
                }
            }
            let r = if want_drain || scripted.is_some() { 0 } else { rng.below(100) };
            want_drain = false;
            let op: Option<String> = if let Some(sop) = scripted {
                sop
            } else if r < 20 {
                None // drain, emitted below
            } else if r < 28 {
                let p = rng.below(cfg.peers as usize) as u64;
                let c = view.next_conn;
                view.next_conn += 1;
                view.conns.entry(p).or_default().insert(c);
                sink.count(if view.conns[&p].len() > 1 { "node.connect.extra" } else { "node.connect.first" });
                Some(format!("connect {p} {c}"))
            } else if r < 33 && rng.chance(1, 5) {
                // a failed dial: to a connected peer (an extra connection that was refused) or to an unconnected one;
                // the connection id is fresh or, wrongly reported, one of the peer's established connections
                let p = rng.below(cfg.peers as usize) as u64;
                let c = match view.conns.get(&p) {
                    Some(cs) if !cs.is_empty() && rng.chance(1, 3) => *rng.pick(&cs.iter().copied().collect::<Vec<_>>()),
                    _ => { view.next_conn += 1; view.next_conn - 1 }
                };
                sink.count(if view.conns.contains_key(&p) { "node.dialfail.connected-peer" } else { "node.dialfail.unconnected-peer" });
                Some(format!("dialfail {p} {c}"))
            } else if r < 33 {
                let open: Vec<(u64, u64)> = view.conns.iter().flat_map(|(p, cs)| cs.iter().map(move |c| (*p, *c))).collect();
                if open.is_empty() {
                    continue;
                }
                let (p, c) = *rng.pick(&open);
                if rng.chance(1, 3) {
                    sink.count("node.closing");
                    Some(format!("closing {p} {c}"))
                } else {
                    view.given_up.retain(|x| *x != (p, c));
                    let set = view.conns.get_mut(&p).unwrap();
                    set.remove(&c);
                    let rem = set.len();
                    if rem == 0 {
                        view.conns.remove(&p);
                        view.handshake.remove(&p);
                    }
                    sink.count(if rem == 0 { "node.closed.last" } else { "node.closed.one-of-many" });
                    Some(format!("closed {p} {c} {rem}"))
                }
            } else if r < 45 {
                let fits = !rng.chance(1, 20);
                sink.count(if fits { "node.get" } else { "node.get.oversize" });
                Some(format!("get {} {}", key(&mut rng, &cfg), fits as u8))
            } else if r < 50 {
                if view.queries.is_empty() {
                    continue;
                }
                let q = *rng.pick(&view.queries);
                sink.count("node.cancel");
                Some(format!("cancel {q}"))
            } else if r < 64 {
                if view.pending.is_empty() {
                    continue;
                }
                let seqs: Vec<u64> = view.pending.keys().copied().collect();
                let seq = *rng.pick(&seqs);
                let is_put = view.pending.remove(&seq).unwrap();
                let res = if is_put {
                    if rng.chance(1, 8) { "puterr".to_string() } else { "putok".to_string() }
                } else {
                    match rng.below(10) {
                        0..=5 => "miss".to_string(),
                        6..=8 => format!("hit:{}", rng.below(50)),
                        _ => "error".to_string(),
                    }
                };
                sink.count(&format!("node.complete.{}", res.split(':').next().unwrap()));
                Some(format!("complete {seq} {res}"))
            } else if r < 80 {
                let connected: Vec<u64> = view.conns.keys().copied().collect();
                let p = if !connected.is_empty() && rng.chance(4, 5) { *rng.pick(&connected) } else { rng.below(cfg.peers as usize) as u64 };
                let mode = rng.below(10);
                let (h, d, b) = if mode < 7 {
                    let h = keys_list(&mut rng, &cfg, 2);
                    let d: Vec<u64> = keys_list(&mut rng, &cfg, 2).into_iter().filter(|k| !h.contains(k)).collect();
                    let b: Vec<(u64, u64)> = keys_list(&mut rng, &cfg, 2).into_iter().map(|k| (k, if rng.chance(3, 4) { k * 100 } else { rng.below(50) as u64 })).collect();
                    (h, d, b)
                } else {
                    (vec![], vec![], vec![])
                };
                let w = if mode >= 5 { gen_wantlist(&mut rng, &cfg, &mut sink) } else { "N".to_string() };
                if !h.is_empty() { sink.count("node.msg.have"); }
                if !d.is_empty() { sink.count("node.msg.donthave"); }
                if !b.is_empty() { sink.count("node.msg.block"); }
                if w != "N" { sink.count("node.msg.wantlist"); }
                if !view.conns.contains_key(&p) { sink.count("node.msg.from-unconnected"); }
                // the connection the message arrives on: one of the peer's connections the harness has opened and
                // not closed (the node may have given it up for sending meanwhile), or none the node knows
                let via = match view.conns.get(&p) {
                    Some(cs) if !cs.is_empty() && rng.chance(5, 6) => *rng.pick(&cs.iter().copied().collect::<Vec<_>>()),
                    _ => 0,
                };
                sink.count(if via == 0 { "node.msg.via-unknown-connection" } else { "node.msg.via-open-connection" });
                Some(format!(
                    "msg {} h={} d={} b={} w={} c={via}",
                    p,
                    h.iter().map(|k| k.to_string()).collect::<Vec<_>>().join(","),
                    d.iter().map(|k| k.to_string()).collect::<Vec<_>>().join(","),
                    b.iter().map(|(k, d)| format!("{k}:{d}")).collect::<Vec<_>>().join(","),
                    w
                ))
            } else if r < 92 && !view.given_up.is_empty() && rng.chance(1, 3) {
                // the handler of a connection that was given up runs at last: its late acknowledgement and the
                // reports that follow reach the behaviour
                let (p, c) = *rng.pick(&view.given_up);
                let st = rng.pick(&[format!("received:{c}"), format!("received:{c}"), format!("sending:{c}"), "ready".to_string(), format!("failed:{c}")]).clone();
                if st == "ready" || st.starts_with("failed") {
                    view.given_up.retain(|x| *x != (p, c));
                }
                sink.count("node.sending.late-from-given-up");
                Some(format!("sending {p} {c} {st}"))
            } else if r < 92 {
                if (view.handshake.is_empty() || rng.chance(1, 8)) && !view.conns.is_empty() {
                    // a report that belongs to no transmission the behaviour tracks: a late report of
                    // an earlier (given-up or finished) transmission, from any connection
                    let ps: Vec<u64> = view.conns.keys().copied().collect();
                    let p = *rng.pick(&ps);
                    let cs: Vec<u64> = view.conns[&p].iter().copied().collect();
                    let src = if cs.is_empty() || rng.chance(1, 4) { view.next_conn + 1 } else { *rng.pick(&cs) };
                    let st = rng.pick(&["ready".to_string(), format!("received:{src}"), format!("failed:{src}"), format!("sending:{src}")]).clone();
                    sink.count("node.sending.untracked");
                    let op = format!("sending {p} {src} {st}");
                    let out = ex.exec(&op);
                    absorb(&mut view, &out);
                    sink.push(format!("n {op}"), out, "-".into());
                    continue;
                }
                if view.handshake.is_empty() {
                    continue;
                }
                let ps: Vec<u64> = view.handshake.keys().copied().collect();
                let p = *rng.pick(&ps);
                let (c, stage) = view.handshake[&p];
                let roll = rng.below(20);
                let mut src = c;
                let (st, next) = if roll < 14 {
                    match stage {
                        0 => (format!("received:{c}"), Some((c, 1))),
                        1 => (format!("sending:{c}"), Some((c, 2))),
                        _ => ("ready".to_string(), None),
                    }
                } else if roll < 16 {
                    (format!("failed:{c}"), None)
                } else if roll < 18 {
                    // out of order report of the connection the transmission is tracked on
                    (rng.pick(&["ready".to_string(), format!("received:{c}"), format!("sending:{c}")]).clone(), Some((c, stage)))
                } else {
                    // stale report: the handler of another connection (given up earlier) reports
                    src = if c > 1 && rng.chance(1, 2) { c - 1 } else { c + 1 };
                    sink.count("node.sending.stale-source");
                    (rng.pick(&["ready".to_string(), format!("received:{src}"), format!("failed:{src}"), format!("sending:{src}")]).clone(), Some((c, stage)))
                };
                match next {
                    Some(n) => { view.handshake.insert(p, n); }
                    None => { view.handshake.remove(&p); }
                }
                sink.count(&format!("node.sending.{}", st.split(':').next().unwrap()));
                Some(format!("sending {p} {src} {st}"))
            } else if r < 97 {
                let ms = *rng.pick(&[1u64, 10, 500, 999, 1000, 1001, 5000, 29000, 30000, 31000]);
                sink.count("node.tick");
                Some(format!("tick {ms}"))
            } else {
                let b: Vec<(u64, u64)> = keys_list(&mut rng, &cfg, 2).into_iter().map(|k| (k, k * 100)).collect();
                sink.count("node.newblocks");
                Some(format!("newblocks {}", b.iter().map(|(k, d)| format!("{k}:{d}")).collect::<Vec<_>>().join(",")))
            };
            if let Some(o) = &op {
                if let Some(ms) = o.strip_prefix("tick ") {
                    let ms = ms.parse::<u64>().unwrap_or(0);
                    view.now += ms;
                    if ms >= 1000 {
                        // wantlists that were only requested so far are not acknowledged in time: their connections are
                        // given up (when the peer has another one; otherwise the whole peer goes)
                        let late: Vec<(u64, u64)> = view.handshake.iter().filter(|(_, (_, stage))| *stage == 0).map(|(p, (c, _))| (*p, *c)).collect();
                        for (p, c) in late {
                            if view.conns.get(&p).map_or(false, |cs| cs.len() > 1) {
                                view.handshake.remove(&p);
                                view.given_up.push((p, c));
                            }
                        }
                    }
                }
            } else if view.now >= view.refresh_at {
                view.refresh_at = view.now + 30_000;
            }
            match op {
                Some(op) => {
                    let out = ex.exec(&op);
                    absorb(&mut view, &out);
                    let dead = out.starts_with("panic");
                    sink.push(format!("n {op}"), out, "-".into());
                    if dead {
                        history_dead = true;
                        break;
                    }
                    want_drain = script.is_empty() && rng.chance(3, 5);
                }
                None => {
                    let out = ex.exec("drain");
                    absorb(&mut view, &out);
                    let ch = choices(&out);
                    let dead = out.starts_with("panic");
                    sink.push(format!("n drain {ch}"), out, "-".into());
                    sink.count("node.drain");
                    if dead {
                        history_dead = true;
                        break;
                    }
                }
            }
        }
        if !history_dead {
                // teardown: cancel every query, complete every blockstore call, close every connection;
                // afterwards the node must retain nothing (C13)
                let mut ops: Vec<String> = view.queries.iter().map(|q| format!("cancel {q}")).collect();
                ops.push("drain".into());
                let mut dead = false;
                let mut round = 0;
                loop {
                    for op in std::mem::take(&mut ops) {
                        let line = if op == "drain" { "drain".to_string() } else { op.clone() };
                        let out = ex.exec(&line);
                        absorb(&mut view, &out);
                        dead |= out.starts_with("panic");
                        if op == "drain" {
                            sink.push(format!("n drain {}", choices(&out)), out, "-".into());
                        } else {
                            sink.push(format!("n {op}"), out, "-".into());
                        }
                    }
                    if dead {
                        break;
                    }
                    let pend: Vec<(u64, bool)> = view.pending.iter().map(|(s, p)| (*s, *p)).collect();
                    view.pending.clear();
                    for (seq, put) in pend {
                        ops.push(format!("complete {seq} {}", if put { "putok" } else { "miss" }));
                    }
                    if round == 1 {
                        let all: Vec<(u64, Vec<u64>)> = view.conns.iter().map(|(p, cs)| (*p, cs.iter().copied().collect())).collect();
                        view.conns.clear();
                        for (p, cs) in all {
                            let n = cs.len();
                            for (j, c) in cs.iter().enumerate() {
                                ops.push(format!("closed {p} {c} {}", n - 1 - j));
                            }
                        }
                    }
                    ops.push("drain".into());
                    round += 1;
                    // server lookup tasks work through their CIDs one blockstore call at a time
                    if round > 3 && ops.len() == 1 {
                        // nothing was pending before this last drain: run it and stop
                        for op in std::mem::take(&mut ops) {
                            let out = ex.exec(&op);
                            absorb(&mut view, &out);
                            dead |= out.starts_with("panic");
                            sink.push(format!("n drain {}", choices(&out)), out, "-".into());
                        }
                        if view.pending.is_empty() {
                            break;
                        }
                    }
                    if round > 4000 {
                        dead = true;
                        break;
                    }
                }
                if !dead {
                    let out = ex.exec("assert-empty");
                    sink.push("n assert-empty".into(), out, "empty".into());
                    sink.count("node.teardown");
                }
        }
    }
    sink
}
