//! CID-layer streams: `prefix`, `tocid`, `conv`, `hash`, `procmsg`, `proto`.
use beetswap::verif::{Block, BlockPresence, BlockPresenceType, Message};
use cid::CidGeneric;
use multihash::Multihash;
use multihash_codetable::{Code, MultihashDigest};

use crate::child::ChildExec;
use crate::cidexec::{cid_oracle, hash_oracle, show_cid, CONV_BIG_TARGETS, CONV_SIZES};
use crate::rng::Rng;
use crate::sink::Sink;
use crate::streams::codec::{gen_entry, mutate};
use crate::text::{hex, show_message};

const CODES: [u64; 14] = [0x12, 0x13, 0x14, 0x15, 0x16, 0x17, 0x1a, 0x1b, 0x1e, 0xb220, 0xb240, 0xb250, 0xb260, 0x1053];

fn uvarint(mut v: u64) -> Vec<u8> {
    let mut out = vec![];
    loop {
        let b = (v & 0x7f) as u8;
        v >>= 7;
        if v == 0 {
            out.push(b);
            return out;
        }
        out.push(b | 0x80);
    }
}

pub fn prefix_stream(seed: u64, cases: usize, maxlen: usize, ex: &mut ChildExec) -> Sink {
    const ALPHA: [u8; 11] = [0x00, 0x01, 0x02, 0x12, 0x20, 0x21, 0x55, 0x70, 0x7f, 0x80, 0xff];
    let mut rng = Rng::new(seed);
    let mut sink = Sink::default();
    // corpus first
    for h in ["00551220", "00701320", "00701620", "0070b2202020", "00701220", "0070121f", "00711220", "1220", "01551220", "0170b2201e", "1221", "1320", "00701e20", "000012201220"] {
        let op = format!("pfx {h}");
        let imp = ex.exec(&op);
        let parses = imp.starts_with("some");
        sink.push(op, imp, "-".into());
        if parses {
            let bytes = crate::text::unhex(h).unwrap();
            for s in [32usize, 64] {
                let data = b"abc";
                let oracle = hash_oracle(s, "", &bytes, data);
                let op = format!("tocid {s} T= {h} {} H={oracle}", hex(data));
                let imp = ex.exec(&op);
                sink.push(op, imp, "-".into());
            }
        }
    }
    // exhaustive short strings over the boundary alphabet: parse, and rebuild a CID from
    // whatever parses (this is where an `expect` can be reached)
    fn rec(cur: &mut Vec<u8>, maxlen: usize, ex: &mut ChildExec, sink: &mut Sink) {
        let h = hex(cur);
        let op = format!("pfx {h}");
        let imp = ex.exec(&op);
        let parses = imp.starts_with("some");
        sink.push(op, imp, "-".into());
        if parses {
            sink.count("prefix.parses");
            for s in [32usize, 64] {
                let data = b"abc";
                let oracle = hash_oracle(s, "", cur, data);
                let op = format!("tocid {s} T= {h} {} H={oracle}", hex(data));
                let imp = ex.exec(&op);
                sink.push(op, imp, "-".into());
            }
        }
        if cur.len() == maxlen {
            return;
        }
        for a in ALPHA {
            cur.push(a);
            rec(cur, maxlen, ex, sink);
            cur.pop();
        }
    }
    let mut cur = vec![];
    rec(&mut cur, maxlen, ex, &mut sink);
    // prefix of a CID -> bytes -> parse: unchanged (C12), over the varint boundaries
    let bounds: [u64; 9] = [0, 1, 127, 128, 16383, 16384, 1 << 32, 1 << 63, u64::MAX];
    for &codec in &bounds {
        for &code in &bounds {
            for size in [0usize, 1, 20, 32, 64] {
                let op = format!("pfxof 1 {codec} {code} {size}");
                let imp = ex.exec(&op);
                // the emitted bytes are the four varints
                let mut expect = uvarint(1);
                expect.extend(uvarint(codec));
                expect.extend(uvarint(code));
                expect.extend(uvarint(size as u64));
                sink.push(op, imp.clone(), hex(&expect));
                let op = format!("pfx {imp}");
                let imp2 = ex.exec(&op);
                sink.push(op, imp2, format!("some 1 {codec} {code} {size}"));
                sink.count("prefix.roundtrip");
            }
        }
    }
    let op = "pfxof 0 112 18 32".to_string();
    let imp = ex.exec(&op);
    sink.push(op, imp, "1220".into());
    let op = "pfx 1220".to_string();
    let imp = ex.exec(&op);
    sink.push(op, imp, "some 0 112 18 32".into());
    // random mutated prefixes with trailing bytes
    for _ in 0..cases {
        let explicit_v0 = rng.chance(1, 4);
        let codec = if explicit_v0 && rng.chance(2, 3) { 0x70 } else { *rng.pick(&bounds) };
        let code = *rng.pick(&[0x12u64, 0x13, 0x16, 0x1e, 0x99, 0, u64::MAX]);
        let mut p = uvarint(if explicit_v0 { 0 } else { *rng.pick(&[0u64, 1, 1, 1, 2, 0x12]) });
        p.extend(uvarint(codec));
        p.extend(uvarint(code));
        p.extend(uvarint(*rng.pick(&[0u64, 16, 32, 33, 64, 65, 255, 256, u64::MAX])));
        if rng.chance(1, 3) {
            p = mutate(&mut rng, &p, &mut sink);
        }
        if rng.chance(1, 4) {
            let n = rng.below(5);
            p.extend(rng.bytes(n));
        }
        let op = format!("pfx {}", hex(&p));
        let imp = ex.exec(&op);
        let parses = imp.starts_with("some");
        sink.push(op, imp, "-".into());
        if parses {
            let s = *rng.pick(&[16usize, 20, 32, 48, 64]);
            let data = rng.bytes(5);
            let oracle = hash_oracle(s, "", &p, &data);
            let op = format!("tocid {s} T= {} {} H={oracle}", hex(&p), hex(&data));
            let imp = ex.exec(&op);
            sink.push(op, imp, "-".into());
            sink.count("prefix.random-tocid");
        }
    }
    sink.add("child.hangs", ex.hangs as u64);
    sink.add("child.aborts", ex.aborts as u64);
    sink
}

/// C12: for every hash function of the code table, `to_cid(prefix(cid), data) == cid` iff data
/// hashes to the digest (oracle: the `multihash_codetable` crate itself).
pub fn tocid_stream(seed: u64, cases: usize, ex: &mut ChildExec) -> Sink {
    let mut rng = Rng::new(seed);
    let mut sink = Sink::default();
    let codes: Vec<(u64, Code)> = CODES.iter().filter_map(|c| Code::try_from(*c).ok().map(|k| (*c, k))).collect();
    sink.add("tocid.hash-functions", codes.len() as u64);
    for i in 0..cases {
        let (code, k) = codes[i % codes.len()];
        let n = *rng.pick(&[0usize, 1, 3, 40, 300]);
        let data = rng.bytes(n);
        let mh = k.digest(&data);
        let v0 = code == 0x12 && rng.chance(1, 3);
        let codec = if v0 { 0x70 } else { *rng.pick(&[0x55u64, 0x70, 0x71, 0x0129, 1 << 32, u64::MAX]) };
        let cid = if v0 { CidGeneric::<64>::new_v0(mh).unwrap() } else { CidGeneric::<64>::new_v1(codec, mh) };
        let pfx = beetswap::verif::VPrefix::from_cid(&cid).to_bytes();
        for s in [16usize, 20, 32, 48, 64] {
            let fits = mh.digest().len() <= s;
            // right data
            let oracle = hash_oracle(s, "", &pfx, &data);
            let op = format!("tocid {s} T= {} {} H={oracle}", hex(&pfx), hex(&data));
            let imp = ex.exec(&op);
            sink.push(op, imp, if fits { format!("ok {}", show_cid(&cid)) } else { "size".into() });
            // wrong data: the rebuilt CID is the CID of that data, never the original
            let mut other = data.clone();
            other.push(0x5a);
            let oracle = hash_oracle(s, "", &pfx, &other);
            let op = format!("tocid {s} T= {} {} H={oracle}", hex(&pfx), hex(&other));
            let imp = ex.exec(&op);
            let omh = k.digest(&other);
            let ocid = if v0 { CidGeneric::<64>::new_v0(omh).unwrap() } else { CidGeneric::<64>::new_v1(codec, omh) };
            sink.push(op, imp, if fits { format!("ok {}", show_cid(&ocid)) } else { "size".into() });
            sink.count(if fits { "tocid.fits" } else { "tocid.oversize" });
            // a prefix declaring another digest length (shorter, or longer but within S): the rebuilt
            // CID always carries the hash function's full digest, never a cut or padded one
            if !v0 && fits {
                for declared in [0usize, 2, mh.digest().len() - 1, (mh.digest().len() + 1).min(s)] {
                    let mut p2 = uvarint(1);
                    p2.extend(uvarint(codec));
                    p2.extend(uvarint(code));
                    p2.extend(uvarint(declared as u64));
                    let oracle = hash_oracle(s, "", &p2, &data);
                    let op = format!("tocid {s} T= {} {} H={oracle}", hex(&p2), hex(&data));
                    let imp = ex.exec(&op);
                    sink.push(op, imp, format!("ok {}", show_cid(&cid)));
                    sink.count("tocid.declared-size-differs");
                }
                // a prefix declaring a digest longer than the node's maximum is rejected, even though
                // the digest the hash function really produces would fit
                for declared in [s + 1, 2 * s + 1, 288] {
                    let mut p2 = uvarint(1);
                    p2.extend(uvarint(codec));
                    p2.extend(uvarint(code));
                    p2.extend(uvarint(declared as u64));
                    let oracle = hash_oracle(s, "", &p2, &data);
                    let op = format!("tocid {s} T= {} {} H={oracle}", hex(&p2), hex(&data));
                    let imp = ex.exec(&op);
                    sink.push(op, imp, "size".into());
                    sink.count("tocid.declared-size-above-max");
                }
            }
        }
        sink.count(&format!("tocid.code-{code:x}"));
    }
    sink.add("child.hangs", ex.hangs as u64);
    sink.add("child.aborts", ex.aborts as u64);
    sink
}

pub fn conv_stream(seed: u64, cases: usize, ex: &mut ChildExec) -> Sink {
    let mut rng = Rng::new(seed);
    let mut sink = Sink::default();
    let bounds: [u64; 7] = [0, 0x12, 0x55, 127, 128, 1 << 32, u64::MAX];
    let mut run = |s: usize, t: usize, ver: u64, codec: u64, code: u64, digest: &[u8], sink: &mut Sink, ex: &mut ChildExec| {
        let op = format!("conv {s} {t} {ver} {codec} {code} {}", hex(digest));
        let imp = ex.exec(&op);
        let oracle = if digest.len() > s || (ver == 0 && !(code == 0x12 && digest.len() == 32)) {
            "invalid-cid".to_string()
        } else if digest.len() <= t {
            let (v, c) = if ver == 0 { (0, 0x70) } else { (1, codec) };
            format!("some:{v}.{c}.{code}.{} mh=some:{code}:{} back=1", hex(digest), hex(digest))
        } else {
            "none mh=none back=-".to_string()
        };
        sink.count(if oracle.starts_with("some") { "conv.fits" } else if oracle.starts_with("none") { "conv.does-not-fit" } else { "conv.invalid-input" });
        sink.push(op, imp, oracle);
    };
    // every pair of capacities x every digest length 0..=64 (v1), plus v0
    let targets: Vec<usize> = CONV_SIZES.iter().chain(CONV_BIG_TARGETS.iter()).copied().collect();
    for &s in &CONV_SIZES {
        for &t in &targets {
            for len in 0..=64usize {
                if len > s {
                    continue;
                }
                let d: Vec<u8> = (0..len).map(|i| i as u8).collect();
                run(s, t, 1, 0x55, 0x12, &d, &mut sink, ex);
            }
            if s >= 32 {
                let d = [9u8; 32];
                run(s, t, 0, 0x70, 0x12, &d, &mut sink, ex);
            }
        }
    }
    for _ in 0..cases {
        let s = *rng.pick(&CONV_SIZES);
        let t = *rng.pick(&targets);
        let len = rng.below(s.min(64) + 1);
        let d = rng.bytes(len);
        let codec = *rng.pick(&bounds);
        let code = *rng.pick(&bounds);
        run(s, t, 1, codec, code, &d, &mut sink, ex);
    }
    sink.add("child.hangs", ex.hangs as u64);
    sink.add("child.aborts", ex.aborts as u64);
    sink
}

fn fake_digest(idx: usize, data: &[u8]) -> Vec<u8> {
    let mut d = vec![idx as u8];
    let sum: u32 = data.iter().map(|b| *b as u32).sum();
    d.extend_from_slice(&sum.to_le_bytes());
    d.extend_from_slice(&(data.len() as u32).to_le_bytes());
    d
}

/// C18: consultation order of the hasher table.
pub fn hash_stream(seed: u64, cases: usize, exhaustive: bool, ex: &mut ChildExec) -> Sink {
    let mut rng = Rng::new(seed);
    let mut sink = Sink::default();
    let codes = [0x12u64, 0x99, 0x16];
    let kinds = ['u', 'o', 'c', 'f', 's'];
    let data = b"xyz".to_vec();
    let mut specs: Vec<Vec<Vec<(u64, char)>>> = vec![vec![]];
    if exhaustive {
        // all tables of up to two hashers answering the three codes in every way
        let mut single = vec![];
        for a in kinds {
            for b in kinds {
                for c in kinds {
                    single.push(vec![(codes[0], a), (codes[1], b), (codes[2], c)]);
                }
            }
        }
        for h in &single {
            specs.push(vec![h.clone()]);
        }
        for h1 in &single {
            for h2 in &single {
                specs.push(vec![h1.clone(), h2.clone()]);
            }
        }
    }
    for _ in 0..cases {
        let n = 1 + rng.below(4);
        let mut table = vec![];
        for _ in 0..n {
            let mut h = vec![];
            for c in codes {
                let k = *rng.pick(&kinds);
                if rng.chance(4, 5) {
                    h.push((c, k));
                }
            }
            table.push(h);
        }
        specs.push(table);
    }
    for spec in specs {
        // a hasher that answers no code is written `-` (an empty spec is the empty table)
        let text = spec.iter().map(|h| if h.is_empty() { "-".to_string() } else { h.iter().map(|(c, k)| format!("{c}:{k}")).collect::<Vec<_>>().join(",") }).collect::<Vec<_>>().join(";");
        for &code in &codes {
            // the built-in table's own answer is an oracle value for the model
            let builtin = ex.exec(&format!("hash 64 T= {code} {}", hex(&data)));
            let b = builtin.split(' ').next().unwrap_or("unknown").to_string();
            let op = format!("hash 64 T={text} {code} {} B={b}", hex(&data));
            let imp = ex.exec(&op);
            // independent expectation from the documented order: reverse registration order
            // until the first answer that is not unknown-code; built-in last
            let mut calls = vec![];
            let mut result: Option<String> = None;
            for (i, h) in spec.iter().enumerate().rev() {
                calls.push((i + 1).to_string());
                let k = h.iter().find(|(c, _)| *c == code).map(|x| x.1).unwrap_or('u');
                match k {
                    'u' => continue,
                    'o' => result = Some(format!("ok:{code}:{}", hex(&fake_digest(i + 1, &data)))),
                    'c' => result = Some("custom".into()),
                    'f' => result = Some("fatal".into()),
                    _ => result = Some("size".into()),
                }
                break;
            }
            let result = result.unwrap_or(b.clone());
            sink.count(&format!("hash.answer-{}", result.split(':').next().unwrap()));
            sink.count(&format!("hash.table-size-{}", spec.len()));
            sink.push(op, imp, format!("{result} calls={}", calls.join(",")));
        }
    }
    sink.add("child.hangs", ex.hangs as u64);
    sink.add("child.aborts", ex.aborts as u64);
    sink
}

fn good_block(rng: &mut Rng, code: u64) -> (Block, CidGeneric<64>) {
    let n = *rng.pick(&[1usize, 3, 20]);
    let data = rng.bytes(n);
    let k = Code::try_from(code).unwrap();
    let codec = *rng.pick(&[0x55u64, 0x70]);
    let cid = CidGeneric::<64>::new_v1(codec, k.digest(&data));
    // the prefix may declare a digest length other than the real one (it is only compared with S)
    let declared = if rng.chance(1, 4) { *rng.pick(&[0u64, 2, 16, 31]) } else { cid.hash().size() as u64 };
    (Block { prefix: [uvarint(1), uvarint(codec), uvarint(code), uvarint(declared)].concat(), data }, cid)
}

/// What `process_message` must produce for a message made of good elements only, computed
/// independently: every block keyed by the CID of its own bytes (last one wins), presences by CID.
fn expected_base(blocks: &[(CidGeneric<64>, Vec<u8>)], pres: &[(CidGeneric<64>, i32)], w: &Option<beetswap::verif::ProtoWantlist>) -> String {
    let mut bm: std::collections::BTreeMap<String, String> = Default::default();
    for (c, d) in blocks {
        bm.insert(show_cid(c), hex(d));
    }
    let mut pm: std::collections::BTreeMap<String, i32> = Default::default();
    for (c, t) in pres {
        pm.insert(show_cid(c), *t);
    }
    let has_client = !blocks.is_empty() || !pres.is_empty();
    let wtxt = match w {
        Some(w) if w.full || !w.entries.is_empty() => format!("{}/{}", w.full as u8, w.entries.iter().map(crate::text::show_entry).collect::<Vec<_>>().join(";")),
        _ => "N".to_string(),
    };
    format!(
        "ok c={} P={} B={} W={}",
        has_client as u8,
        pm.iter().map(|(c, t)| format!("{c}:{t}")).collect::<Vec<_>>().join(","),
        bm.iter().map(|(c, d)| format!("{c}:{d}")).collect::<Vec<_>>().join(","),
        wtxt
    )
}

/// C16 / C01: message classification with one bad element at every position.
pub fn procmsg_stream(seed: u64, cases: usize, ex: &mut ChildExec) -> Sink {
    let mut rng = Rng::new(seed);
    let mut sink = Sink::default();
    let line = |s: usize, spec: &str, m: &Message| -> String {
        let p: Vec<String> = m.blockPresences.iter().map(|p| cid_oracle(s, &p.cid)).collect();
        let h: Vec<String> = m.payload.iter().map(|b| hash_oracle(s, spec, &b.prefix, &b.data)).collect();
        format!("procmsg {s} T={spec} {} P={} H={}", show_message(m), p.join(";"), h.join(";"))
    };
    for _ in 0..cases {
        let s = *rng.pick(&[32usize, 64, 64, 64]);
        // a custom hasher answering for code 0x99 (ok), 0x98 (custom error), 0x97 (fatal), and 0x96
        // (picky: refuses data starting with 0xee with a custom error, hashes everything else)
        // … or two hashers answering for 0x96: the older one always, the newer one (consulted first) declines data
        // starting with 0xee with "unknown code" — which hasher is asked must be decided block by block
        // … or a registered hasher that takes over sha2-256 (code 0x12 = 18) from the built-in table and refuses
        // every block: sha2-256 blocks — CIDv1 and the CIDv0 form alike — are then skipped, the others applied
        let spec = match rng.below(5) { 0 | 1 => "", 2 => "153:o,152:c,151:f,150:p", 3 => "150:o;153:o,152:c,151:f,150:q", _ => "18:c,153:o,152:c,151:f" };
        let newest = if spec.contains(';') { 2 } else { 1 };
        let sha_refused = spec.starts_with("18:c");
        let mut base = Message::default();
        let mut exp_blocks: Vec<(CidGeneric<64>, Vec<u8>)> = vec![];
        let mut exp_pres: Vec<(CidGeneric<64>, i32)> = vec![];
        let nb = rng.below(4);
        for _ in 0..nb {
            // sha2-512 does not fit S = 32: only used with S = 64
            let code = *rng.pick(&[0x12u64, 0x12, 0x16, 0x1e]);
            let (b, cid) = good_block(&mut rng, code);
            if !(sha_refused && code == 0x12) {
                exp_blocks.push((cid, b.data.clone()));
            }
            base.payload.push(b);
        }
        if rng.chance(1, 3) {
            // a block in the CIDv0 form (prefix 0x12 0x20): hashed through the table like any other
            let n = *rng.pick(&[1usize, 4, 20]);
            let data = rng.bytes(n);
            let cid = CidGeneric::<64>::new_v0(Code::Sha2_256.digest(&data)).unwrap();
            if !sha_refused {
                exp_blocks.push((cid, data.clone()));
            }
            base.payload.push(Block { prefix: vec![0x12, 0x20], data });
            sink.count("procmsg.cidv0-block");
        }
        if !spec.is_empty() && rng.chance(1, 2) {
            // a block whose CID is produced by the registered hasher (index 1, see cidexec::Scripted)
            let data = rng.bytes(4);
            let cid = CidGeneric::<64>::new_v1(0x55, Multihash::<64>::wrap(0x99, &fake_digest(newest, &data)).unwrap());
            exp_blocks.push((cid, data.clone()));
            base.payload.push(Block { prefix: [uvarint(1), uvarint(0x55), uvarint(0x99), uvarint(9)].concat(), data });
            sink.count("procmsg.custom-hasher-block");
        }
        if spec.contains("150:") && rng.chance(1, 2) {
            // blocks the picky hasher accepts: a refused block of the same code elsewhere in the
            // message (inserted below at every position) must not hide them
            for _ in 0..1 + rng.below(2) {
                let mut data = rng.bytes(4);
                data[0] &= 0x7f;
                let cid = CidGeneric::<64>::new_v1(0x55, Multihash::<64>::wrap(0x96, &fake_digest(newest, &data)).unwrap());
                exp_blocks.push((cid, data.clone()));
                base.payload.push(Block { prefix: [uvarint(1), uvarint(0x55), uvarint(0x96), uvarint(9)].concat(), data });
            }
            sink.count("procmsg.picky-hasher-good-block");
        }
        if newest == 2 && rng.chance(1, 2) {
            // a block the newer hasher declines ("unknown code" for this data): the older one hashes it; the
            // blocks after it are again the newer hasher's
            let pos = rng.below(base.payload.len() + 1);
            let data = [vec![0xee], rng.bytes(3)].concat();
            let cid = CidGeneric::<64>::new_v1(0x55, Multihash::<64>::wrap(0x96, &fake_digest(1, &data)).unwrap());
            exp_blocks.push((cid, data.clone()));
            base.payload.insert(pos, Block { prefix: [uvarint(1), uvarint(0x55), uvarint(0x96), uvarint(9)].concat(), data });
            sink.count("procmsg.declined-by-newest-hasher");
        }
        if nb > 0 && !sha_refused && rng.chance(1, 5) {
            // duplicate payload inside one message
            let b = base.payload[0].clone();
            exp_blocks.push(exp_blocks[0].clone());
            base.payload.push(b);
            sink.count("procmsg.duplicate-block");
        }
        for _ in 0..rng.below(3) {
            let (_, cid) = good_block(&mut rng, 0x12);
            let have = rng.chance(1, 2);
            exp_pres.push((cid, if have { 0 } else { 1 }));
            base.blockPresences.push(BlockPresence { cid: cid.to_bytes(), type_pb: if have { BlockPresenceType::Have } else { BlockPresenceType::DontHave } });
        }
        if !exp_pres.is_empty() && rng.chance(1, 3) {
            // the same CID announced twice in one message with contradicting answers: the later one counts
            let (cid, t) = exp_pres[rng.below(exp_pres.len())];
            let t2 = 1 - t;
            exp_pres.push((cid, t2));
            base.blockPresences.push(BlockPresence { cid: cid.to_bytes(), type_pb: if t2 == 0 { BlockPresenceType::Have } else { BlockPresenceType::DontHave } });
            sink.count("procmsg.contradicting-presences");
        }
        if rng.chance(1, 2) {
            base.wantlist = Some(beetswap::verif::ProtoWantlist { entries: (0..rng.below(3)).map(|_| gen_entry(&mut rng)).collect(), full: rng.chance(1, 2) });
        }
        let op = line(s, spec, &base);
        let base_out = ex.exec(&op);
        sink.push(op, base_out.clone(), expected_base(&exp_blocks, &exp_pres, &base.wantlist));
        sink.count("procmsg.base");
        if base_out.starts_with("fatal") {
            // e.g. a sha2-512-free base under S=32 never is fatal; count to be sure
            sink.count("procmsg.base-fatal");
            continue;
        }
        // one bad element at every position
        for pos in 0..=base.payload.len() {
            let kind = if spec.contains("150:p") && rng.chance(1, 4) { 7 } else { rng.below(7) };
            let mut m = base.clone();
            let (bad, oracle): (Block, String) = match kind {
                0 => (Block { prefix: [uvarint(1), uvarint(0x55), uvarint(0x77), uvarint(32)].concat(), data: rng.bytes(3) }, base_out.clone()), // unknown code: skipped
                1 if !spec.is_empty() => (Block { prefix: [uvarint(1), uvarint(0x55), uvarint(0x98), uvarint(9)].concat(), data: rng.bytes(3) }, base_out.clone()), // custom error: skipped
                2 if !spec.is_empty() => (Block { prefix: [uvarint(1), uvarint(0x55), uvarint(0x97), uvarint(9)].concat(), data: rng.bytes(3) }, "fatal".into()),
                3 => (Block { prefix: vec![0x01, 0x55], data: rng.bytes(3) }, "fatal".into()), // unparsable prefix
                4 => (Block { prefix: [uvarint(1), uvarint(0x55), uvarint(0x12), uvarint(s as u64 + 1)].concat(), data: rng.bytes(3) }, "fatal".into()), // oversize declared digest
                5 => (Block { prefix: vec![0x02, 0x55, 0x12, 0x20], data: rng.bytes(3) }, "fatal".into()), // bad version
                // refused by the picky hasher because of its data: only this block is skipped
                7 => (Block { prefix: [uvarint(1), uvarint(0x55), uvarint(0x96), uvarint(9)].concat(), data: [vec![0xee], rng.bytes(2)].concat() }, base_out.clone()),
                _ => (Block { prefix: vec![], data: rng.bytes(3) }, "fatal".into()),
            };
            m.payload.insert(pos, bad);
            let op = line(s, spec, &m);
            let imp = ex.exec(&op);
            sink.count(if oracle == "fatal" { "procmsg.bad-block-fatal" } else { "procmsg.bad-block-skipped" });
            sink.push(op, imp, oracle);
        }
        for pos in 0..=base.blockPresences.len() {
            let mut m = base.clone();
            m.blockPresences.insert(pos, BlockPresence { cid: rng.pick(&[vec![], vec![0xff, 0xff], vec![1, 0x55, 0x12, 0x20, 1, 2]]).clone(), type_pb: BlockPresenceType::Have });
            let op = line(s, spec, &m);
            let imp = ex.exec(&op);
            sink.count("procmsg.bad-presence");
            sink.push(op, imp, "fatal".into());
        }
    }
    sink.add("child.hangs", ex.hangs as u64);
    sink.add("child.aborts", ex.aborts as u64);
    sink
}

/// C20: protocol prefix validation and the resulting protocol name.
pub fn proto_stream(seed: u64, cases: usize, maxlen: usize, ex: &mut ChildExec) -> Sink {
    const ALPHA: [&str; 6] = ["/", "a", " ", "\0", "é", "／"];
    let mut rng = Rng::new(seed);
    let mut sink = Sink::default();
    let suffix = "/ipfs/bitswap/1.2.0";
    let mut run = |s: &str, sink: &mut Sink, ex: &mut ChildExec| {
        let op = format!("proto {}", hex(s.as_bytes()));
        let imp = ex.exec(&op);
        let oracle = if s.starts_with('/') { format!("built {}", hex(format!("{s}{suffix}").as_bytes())) } else { "rejected".to_string() };
        sink.count(if s.starts_with('/') { "proto.accepted" } else { "proto.rejected" });
        sink.push(op, imp, oracle);
    };
    let op = "proto N".to_string();
    let imp = ex.exec(&op);
    sink.push(op, imp, format!("built {}", hex(suffix.as_bytes())));
    fn rec(cur: &mut String, depth: usize, maxlen: usize, f: &mut dyn FnMut(&str)) {
        f(cur);
        if depth == maxlen {
            return;
        }
        for a in ALPHA {
            let n = cur.len();
            cur.push_str(a);
            rec(cur, depth + 1, maxlen, f);
            cur.truncate(n);
        }
    }
    let mut all = vec![];
    rec(&mut String::new(), 0, maxlen, &mut |s| all.push(s.to_string()));
    for s in &all {
        run(s, &mut sink, ex);
    }
    for _ in 0..cases {
        let n = 1 + rng.below(12);
        let s: String = (0..n).map(|_| *rng.pick(&["/", "/", "a", "b", "celestia", " ", "\0", "é", "／", "\u{1F600}", "\n"])).collect();
        run(&s, &mut sink, ex);
    }
    sink.add("child.hangs", ex.hangs as u64);
    sink.add("child.aborts", ex.aborts as u64);
    sink
}

pub fn _unused(_: Multihash<64>) {}

/// C19: `Behaviour::get` on a CID of any generic size behaves as on its converted form and
/// reports invalid-multihash-size exactly when conversion is impossible.
pub fn getsize_stream(seed: u64, cases: usize, ex: &mut ChildExec) -> Sink {
    let mut rng = Rng::new(seed);
    let mut sink = Sink::default();
    let mut run = |sn: usize, ss: usize, ver: u64, codec: u64, code: u64, digest: &[u8], sink: &mut Sink, ex: &mut ChildExec| {
        let op = format!("getsize {sn} {ss} {ver} {codec} {code} {}", hex(digest));
        let imp = ex.exec(&op);
        let oracle = if digest.len() > ss || (ver == 0 && !(code == 0x12 && digest.len() == 32)) {
            "invalid-cid"
        } else if digest.len() <= sn {
            "lookup"
        } else {
            "err"
        };
        sink.count(&format!("getsize.{oracle}"));
        sink.push(op, imp, oracle.into());
    };
    for (sn, ss) in [(32usize, 32usize), (32, 64), (32, 128), (64, 32), (64, 64), (64, 128), (40, 64), (40, 128)] {
        for len in 0..=ss.min(80) {
            let d: Vec<u8> = (0..len).map(|i| (i * 7) as u8).collect();
            run(sn, ss, 1, 0x55, 0x12, &d, &mut sink, ex);
        }
        if ss >= 32 {
            run(sn, ss, 0, 0x70, 0x12, &[5u8; 32], &mut sink, ex);
        }
    }
    for _ in 0..cases {
        let (sn, ss) = *rng.pick(&[(32usize, 64usize), (32, 128), (64, 64), (64, 128), (40, 64), (40, 128), (64, 32), (32, 32)]);
        let len = rng.below(ss.min(90) + 1);
        let d = rng.bytes(len);
        run(sn, ss, 1, *rng.pick(&[0x55u64, 0x70, 1 << 40, u64::MAX]), *rng.pick(&[0x12u64, 0x13, 0, 0x99, u64::MAX]), &d, &mut sink, ex);
    }
    sink.add("child.hangs", ex.hangs as u64);
    sink.add("child.aborts", ex.aborts as u64);
    sink
}
