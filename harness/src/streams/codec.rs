//! Codec streams: `frame` (round trip, canonical bytes, mutated frames), `limit` (length
//! prefix boundaries), `chunks` (stream chunking), `noncanon` (schema-valid non-canonical
//! encodings), `shortframes` (exhaustive short frames over a boundary alphabet).
use beetswap::verif::{Block, BlockPresence, BlockPresenceType, Entry, Message, ProtoWantlist, WantType};

use crate::child::ChildExec;
use crate::refpb::{self, Style};
use crate::rng::Rng;
use crate::sink::Sink;
use crate::text::{hex, show_message};

fn rbytes(rng: &mut Rng, big: bool) -> Vec<u8> {
    let n = if big {
        *rng.pick(&[0usize, 1, 2, 36, 127, 128, 129, 300, 5000, 16383, 16384, 70000])
    } else {
        *rng.pick(&[0usize, 0, 1, 2, 4, 5, 12, 36, 40])
    };
    rng.bytes(n)
}

fn rint(rng: &mut Rng) -> i32 {
    match rng.below(12) {
        0 | 1 => 0,
        2 | 3 => 1,
        4 => -1,
        5 => 127,
        6 => 128,
        7 => i32::MAX,
        8 => i32::MIN,
        9 => 2,
        _ => rng.next() as i32,
    }
}

pub fn gen_entry(rng: &mut Rng) -> Entry {
    Entry {
        block: rbytes(rng, false),
        priority: rint(rng),
        cancel: rng.chance(1, 3),
        wantType: if rng.chance(1, 2) { WantType::Have } else { WantType::Block },
        sendDontHave: rng.chance(1, 2),
    }
}

pub fn gen_msg(rng: &mut Rng, sink: &mut Sink) -> Message {
    let big = rng.chance(1, 40);
    let mut m = Message::default();
    if rng.chance(3, 5) {
        let n = if big { *rng.pick(&[100usize, 1000, 2000]) } else { *rng.pick(&[0usize, 0, 1, 1, 2, 5, 17]) };
        m.wantlist = Some(ProtoWantlist {
            entries: (0..n).map(|_| gen_entry(rng)).collect(),
            full: rng.chance(1, 2),
        });
        sink.count(if n == 0 { "msg.wantlist.empty" } else { "msg.wantlist.entries" });
    } else {
        sink.count("msg.wantlist.none");
    }
    for _ in 0..*rng.pick(&[0usize, 0, 1, 2, 3]) {
        m.payload.push(Block { prefix: rbytes(rng, false), data: rbytes(rng, big) });
        sink.count("msg.block");
    }
    for _ in 0..*rng.pick(&[0usize, 0, 1, 2, 3]) {
        m.blockPresences.push(BlockPresence {
            cid: rbytes(rng, false),
            type_pb: if rng.chance(1, 2) { BlockPresenceType::DontHave } else { BlockPresenceType::Have },
        });
        sink.count("msg.presence");
    }
    if rng.chance(1, 4) {
        m.pendingBytes = rint(rng);
    }
    if m == Message::default() {
        sink.count("msg.all-default");
    }
    m
}

fn uvarint(v: u128) -> Vec<u8> {
    // encoder that can also produce over-long (> 64 bit) values for boundary cases
    let mut v = v;
    let mut out = Vec::new();
    loop {
        let b = (v & 0x7f) as u8;
        v >>= 7;
        if v == 0 {
            out.push(b);
            return out;
        }
        out.push(b | 0x80);
    }
}


/// Reads a protobuf varint of at most 10 bytes: (value, length).
fn pb_varint(b: &[u8]) -> Option<(u64, usize)> {
    let mut v = 0u64;
    for (i, x) in b.iter().enumerate().take(10) {
        v |= ((x & 0x7f) as u64) << (7 * i).min(63);
        if x & 0x80 == 0 {
            return Some((v, i + 1));
        }
    }
    None
}

/// Re-emit a protobuf body with some tags written as wide varints whose low 32 bits are the
/// original tag (quick-protobuf reads tags as 32-bit varints and ignores the rest). Nested
/// messages (level 0: wantlist / payload / blockPresences, level 1: entries) are widened
/// recursively when they parse; anything that does not parse is copied verbatim.
pub fn widen_tags(rng: &mut Rng, b: &[u8], level: u8, always: bool) -> Vec<u8> {
    let mut out = Vec::new();
    let mut pos = 0;
    while pos < b.len() {
        let Some((tag, tl)) = pb_varint(&b[pos..]) else { break };
        let rest = &b[pos + tl..];
        let (body_len, nested): (usize, Option<(usize, usize)>) = match tag & 7 {
            0 => match pb_varint(rest) {
                Some((_, l)) => (l, None),
                None => break,
            },
            1 if rest.len() >= 8 => (8, None),
            5 if rest.len() >= 4 => (4, None),
            2 => match pb_varint(rest) {
                Some((len, ll)) if (len as usize) <= rest.len() - ll => (ll + len as usize, Some((ll, len as usize))),
                _ => break,
            },
            _ => break,
        };
        if tag < (1 << 32) && (always || rng.chance(1, 2)) {
            let k = *rng.pick(&[1u64, 1, 2, 0x7fff_ffff, 0xffff_ffff]);
            refpb::varint(tag | (k << 32), &mut out);
        } else {
            out.extend_from_slice(&b[pos..pos + tl]);
        }
        let is_nested = matches!((level, tag as u32), (0, 10) | (0, 26) | (0, 34) | (1, 10));
        match nested {
            Some((ll, len)) if is_nested && level < 2 => {
                let next = if level == 0 && tag as u32 == 10 { 1 } else { 2 };
                let inner = widen_tags(rng, &rest[ll..ll + len], next, always);
                refpb::varint(inner.len() as u64, &mut out);
                out.extend(inner);
            }
            _ => out.extend_from_slice(&rest[..body_len]),
        }
        pos += tl + body_len;
    }
    out.extend_from_slice(&b[pos..]);
    out
}


pub fn mutate(rng: &mut Rng, b: &[u8], sink: &mut Sink) -> Vec<u8> {
    let mut b = b.to_vec();
    if b.is_empty() {
        return vec![rng.next() as u8];
    }
    let i = rng.below(b.len());
    let k = rng.below(10);
    sink.count(&format!("mutation.{k}"));
    match k {
        0 => b[i] = rng.next() as u8,
        1 => b[i] ^= 0x80,
        2 => b.truncate(i),
        3 => b.insert(i, *rng.pick(&[0x08u8, 0x0a, 0x10, 0x1a, 0x1d, 0x22, 0x28, 0x0b, 0x0c, 0x0e, 0x0f, 0x00, 0x80, 0xff])),
        4 => {
            let v = *rng.pick(&[1u128 << 32, (1 << 32) + 10, (1 << 64) - 15, 1 << 63, (1 << 35) + 40]);
            let enc = uvarint(v);
            b.splice(i..i, enc);
        }
        5 => b[i] = b[i].wrapping_add(if rng.chance(1, 2) { 1 } else { 255 }),
        6 => {
            let j = rng.below(b.len());
            b.swap(i, j);
        }
        7 => {
            let n = rng.below(9);
            b.extend(rng.bytes(n));
        }
        8 => {
            let mut ins = vec![*rng.pick(&[0x09u8, 0x0d, 0x12, 0x1a])];
            let n = rng.below(10);
            ins.extend(rng.bytes(n));
            b.splice(i..i, ins);
        }
        _ => {
            // splice a length-delimited field inside another field's body
            let ins = vec![0x0a, *rng.pick(&[0x02u8, 0x03, 0x7f, 0x81]), 0x0a, 0x03, 0x10, 0x81, 0x00];
            b.splice(i..i, ins);
        }
    }
    b
}

pub fn frame_stream(seed: u64, cases: usize, ex: &mut ChildExec) -> Sink {
    let mut rng = Rng::new(seed);
    let mut sink = Sink::default();
    // corpus of known problem frames runs first
    for h in [
        "0e0a020a031081001d010203040506",
        "110a020a0218011af1ffffffffffffffff01",
        "121a030a022d8f1af1ffffffffffffffff0100",
        "0d1a0b0a04015512201203616263",
        "00",
        "",
        "020a00",
        "0308ff01",
    ] {
        let op = format!("dec {}", h);
        let imp = ex.exec(&op);
        sink.push(op, imp, "-".into());
        // the same problem frame with its tags written as wide varints (low 32 bits unchanged)
        let raw = crate::text::unhex(h).unwrap_or_default();
        if raw.len() > 1 {
            for always in [true, false, false] {
                let wide = refpb::frame(&widen_tags(&mut rng, &raw[1..], 0, always));
                let op = format!("dec {}", hex(&wide));
                let imp = ex.exec(&op);
                sink.push(op, imp, "-".into());
                sink.count("dec.corpus.wide-tags");
            }
        }
    }
    for _ in 0..cases {
        let m = gen_msg(&mut rng, &mut sink);
        let body = refpb::encode_body(&mut rng, Style::default(), &m, None);
        let framed = refpb::frame(&body);
        let r = rng.below(100);
        if r < 30 {
            // canonical bytes (C11) and round trip (C10)
            let op = format!("enc {}", show_message(&m));
            let imp = ex.exec(&op);
            sink.push(op, imp, hex(&framed));
            let mut with_tail = framed.clone();
            if rng.chance(1, 3) {
                let t = gen_msg(&mut rng, &mut sink);
                with_tail.extend(refpb::frame(&refpb::encode_body(&mut rng, Style::default(), &t, None)));
                sink.count("dec.roundtrip.following-frame");
            }
            let op = format!("dec {}", hex(&with_tail));
            let imp = ex.exec(&op);
            sink.push(op, imp, format!("ok {} {}", framed.len(), show_message(&m)));
            sink.count("dec.roundtrip");
            if rng.chance(1, 4) {
                let wide = refpb::frame(&widen_tags(&mut rng, &body, 0, false));
                let op = format!("dec {}", hex(&wide));
                let imp = ex.exec(&op);
                sink.push(op, imp, "-".into());
                sink.count("dec.valid.wide-tags");
            }
        } else if r < 75 {
            let mut x = body.clone();
            let wide = rng.below(6);
            if wide == 0 {
                x = widen_tags(&mut rng, &x, 0, false);
                sink.count("dec.mutated-body.wide-tags-before");
            }
            for _ in 0..*rng.pick(&[1usize, 1, 2, 3]) {
                x = mutate(&mut rng, &x, &mut sink);
            }
            if wide == 1 {
                x = widen_tags(&mut rng, &x, 0, false);
                sink.count("dec.mutated-body.wide-tags-after");
            }
            let op = format!("dec {}", hex(&refpb::frame(&x)));
            let imp = ex.exec(&op);
            sink.push(op, imp, "-".into());
            sink.count("dec.mutated-body");
        } else if r < 88 {
            let mut x = framed.clone();
            for _ in 0..*rng.pick(&[1usize, 2]) {
                x = mutate(&mut rng, &x, &mut sink);
            }
            let op = format!("dec {}", hex(&x));
            let imp = ex.exec(&op);
            sink.push(op, imp, "-".into());
            sink.count("dec.mutated-frame");
        } else {
            let mut x = body.clone();
            x = mutate(&mut rng, &x, &mut sink);
            let mut f = refpb::frame(&x);
            let t = gen_msg(&mut rng, &mut sink);
            f.extend(refpb::frame(&refpb::encode_body(&mut rng, Style::default(), &t, None)));
            let op = format!("dec {}", hex(&f));
            let imp = ex.exec(&op);
            sink.push(op, imp, "-".into());
            sink.count("dec.mutated-body.following-frame");
        }
    }
    sink.add("child.hangs", ex.hangs as u64);
    sink.add("child.aborts", ex.aborts as u64);
    sink
}

/// Value of a varint byte string as an unbounded natural number, if it is a complete
/// varint (last byte < 0x80, all others >= 0x80).
fn nat_value(p: &[u8]) -> u128 {
    let mut v: u128 = 0;
    for (i, b) in p.iter().enumerate() {
        if i < 18 {
            v |= ((b & 0x7f) as u128) << (7 * i);
        }
    }
    v
}

/// Specification verdict for a buffer that starts with the complete varint `p`.
/// A valid unsigned varint (multiformats): minimal, at most 9 bytes (63 bits).
fn spec_prefix_verdict(p: &[u8], payload_len: usize) -> &'static str {
    let minimal = p.len() == 1 || *p.last().unwrap() != 0;
    let fits = p.len() <= 9 || (p.len() == 10 && *p.last().unwrap() == 1);
    if !minimal || !fits {
        return "err";
    }
    let v = nat_value(p);
    if v > 4 * 1024 * 1024 {
        return "err";
    }
    if (payload_len as u128) < v {
        return "none";
    }
    "-"
}

pub fn limit_stream(seed: u64, cases: usize, ex: &mut ChildExec) -> Sink {
    let mut rng = Rng::new(seed);
    let mut sink = Sink::default();
    let mut prefixes: Vec<Vec<u8>> = Vec::new();
    // values around every power of two and around the limit
    for k in 0..=64u32 {
        for d in [-1i32, 0, 1] {
            let base: u128 = 1u128 << k;
            let v = if d < 0 { base - 1 } else { base + d as u128 };
            prefixes.push(uvarint(v));
        }
    }
    for v in [4194303u128, 4194304, 4194305, 4194304 * 2, 0, 1, 127, 128] {
        prefixes.push(uvarint(v));
    }
    // over-long (non-minimal) encodings and overflowing ones, every byte length 1..=11
    for len in 1..=11usize {
        let mut p = vec![0x80u8; len];
        *p.last_mut().unwrap() = 0x00;
        prefixes.push(p.clone());
        *p.last_mut().unwrap() = 0x01;
        prefixes.push(p.clone());
        *p.last_mut().unwrap() = 0x02;
        prefixes.push(p.clone());
        *p.last_mut().unwrap() = 0x7f;
        prefixes.push(p.clone());
        let mut q = vec![0xffu8; len];
        *q.last_mut().unwrap() = 0x7f;
        prefixes.push(q.clone());
        *q.last_mut().unwrap() = 0x01;
        prefixes.push(q);
        p[0] = 0x85;
        *p.last_mut().unwrap() = 0x00;
        prefixes.push(p);
    }
    for _ in 0..cases {
        let len = 1 + rng.below(11);
        let mut p: Vec<u8> = (0..len).map(|_| (rng.next() as u8) | 0x80).collect();
        *p.last_mut().unwrap() &= 0x7f;
        if rng.chance(1, 2) {
            // small values in many byte lengths
            for b in p.iter_mut().skip(3) {
                *b &= 0x80;
            }
        }
        prefixes.push(p);
    }
    for p in &prefixes {
        let complete = p.last().map_or(false, |b| *b < 0x80) && p[..p.len() - 1].iter().all(|b| *b >= 0x80);
        debug_assert!(complete);
        for payload_len in [0usize, 1, 40] {
            let mut buf = p.clone();
            buf.extend(rng.bytes(payload_len));
            // an 11-byte "prefix" is invalid as soon as its first 10 bytes are continuation bytes
            let verdict = if p.len() > 10 { "err" } else { spec_prefix_verdict(p, payload_len) };
            let op = format!("dec {}", hex(&buf));
            let imp = ex.exec(&op);
            sink.push(op, imp, verdict.into());
            sink.count(&format!("limit.spec-{}", verdict));
            sink.count(&format!("limit.prefix-len-{}", p.len()));
        }
        // incomplete prefixes: every strict prefix consisting only of continuation bytes
        if p.len() > 1 && p.len() <= 10 {
            let cut = 1 + rng.below(p.len() - 1);
            let op = format!("dec {}", hex(&p[..cut]));
            let imp = ex.exec(&op);
            sink.push(op, imp, "none".into());
            sink.count("limit.incomplete-prefix");
        }
    }
    // frames at the limit with real bodies: accepted at 4 MiB, rejected above.
    // `big n`: encode a message holding one block of n bytes with the real encoder, decode it.
    for size in [4 * 1024 * 1024usize, 4 * 1024 * 1024 - 1, 4 * 1024 * 1024 + 1, 1024 * 1024] {
        let mut data_len = size - 10;
        let mut body;
        loop {
            let m = Message { payload: vec![Block { prefix: vec![], data: vec![0xabu8; data_len] }], ..Default::default() };
            body = refpb::encode_body(&mut rng, Style::default(), &m, None);
            if body.len() == size {
                break;
            }
            data_len = data_len + size - body.len();
        }
        let flen = refpb::frame(&body).len();
        let op = format!("big {}", data_len);
        let imp = ex.exec(&op);
        sink.push(op, imp, if size <= 4 * 1024 * 1024 { format!("ok {}", flen) } else { "err".into() });
        sink.count("limit.real-body");
    }
    sink.add("child.hangs", ex.hangs as u64);
    sink.add("child.aborts", ex.aborts as u64);
    sink
}

pub fn chunks_stream(seed: u64, cases: usize, exhaustive_cut_len: usize, ex: &mut ChildExec) -> Sink {
    let mut rng = Rng::new(seed);
    let mut sink = Sink::default();
    for case in 0..cases {
        let nmsgs = *rng.pick(&[1usize, 1, 2, 3, 5]);
        let msgs: Vec<Message> = (0..nmsgs).map(|_| gen_msg(&mut rng, &mut sink)).collect();
        let mut stream = Vec::new();
        for m in &msgs {
            stream.extend(refpb::frame(&refpb::encode_body(&mut rng, Style::default(), m, None)));
        }
        if stream.len() > 60000 {
            continue;
        }
        let last_len = refpb::frame(&refpb::encode_body(&mut rng, Style::default(), msgs.last().unwrap(), None)).len();
        let truncated = rng.chance(1, 6) && last_len > 1;
        let mut expect: Vec<String> = msgs.iter().map(show_message).collect();
        if truncated {
            // end the stream inside the last frame: drop 1..last_len-1 bytes
            let cut = stream.len() - 1 - rng.below(last_len - 1);
            stream.truncate(cut);
            expect.pop();
            sink.count("chunks.truncated");
        }
        let fin = if truncated { "err" } else { "eof" };
        let mut oracle = format!("{} *", fin);
        for e in &expect {
            oracle.push(' ');
            oracle.push_str(e);
        }
        let mut cutsets: Vec<Vec<usize>> = Vec::new();
        if stream.len() <= exhaustive_cut_len && case % 4 == 0 {
            for c in 1..stream.len() {
                cutsets.push(vec![c]);
            }
            sink.count("chunks.all-single-cuts");
        }
        for _ in 0..3 {
            let k = *rng.pick(&[0usize, 1, 2, 3, 8]);
            let mut cuts: Vec<usize> = (0..k).filter_map(|_| if stream.len() > 1 { Some(1 + rng.below(stream.len() - 1)) } else { None }).collect();
            cuts.sort();
            cuts.dedup();
            cutsets.push(cuts);
        }
        if stream.len() <= 64 {
            // one-byte chunks
            cutsets.push((1..stream.len()).collect());
            sink.count("chunks.one-byte-chunks");
        }
        for mut cuts in cutsets {
            // a single read returns at most 8 KiB
            let mut all = Vec::new();
            let mut pos = 0;
            cuts.push(stream.len());
            for c in cuts {
                while c - pos > 8192 {
                    pos += 8192;
                    all.push(pos);
                }
                if c < stream.len() {
                    all.push(c);
                }
                pos = c;
            }
            let op = format!("chunks {} {}", hex(&stream), all.iter().map(|c| c.to_string()).collect::<Vec<_>>().join(","));
            let imp = ex.exec(&op);
            sink.push(op, imp, oracle.clone());
            sink.count("chunks.case");
        }
    }
    sink.add("child.hangs", ex.hangs as u64);
    sink.add("child.aborts", ex.aborts as u64);
    sink
}

pub fn noncanon_stream(seed: u64, cases: usize, ex: &mut ChildExec) -> Sink {
    let mut rng = Rng::new(seed);
    let mut sink = Sink::default();
    for _ in 0..cases {
        let m = gen_msg(&mut rng, &mut sink);
        let st = Style {
            explicit_defaults: rng.chance(1, 2),
            shuffle: rng.chance(1, 2),
            unknown_fields: rng.chance(1, 2),
            dup_scalars: rng.chance(1, 4),
        };
        let enum_override = if rng.chance(1, 4) { Some(*rng.pick(&[2i32, 7, i32::MAX, -1])) } else { None };
        for (k, on) in [("explicit-defaults", st.explicit_defaults), ("shuffle", st.shuffle), ("unknown-fields", st.unknown_fields), ("dup-scalars", st.dup_scalars), ("unknown-enum", enum_override.is_some())] {
            if on {
                sink.count(&format!("noncanon.{k}"));
            }
        }
        let body = refpb::encode_body(&mut rng, st, &m, enum_override);
        let f = refpb::frame(&body);
        let op = format!("dec {}", hex(&f));
        let imp = ex.exec(&op);
        sink.push(op, imp, format!("ok {} {}", f.len(), show_message(&m)));
    }
    sink.add("child.hangs", ex.hangs as u64);
    sink.add("child.aborts", ex.aborts as u64);
    sink
}

/// All frames `len ++ body` with body of length <= `maxlen` over the boundary alphabet.
pub fn shortframes_stream(maxlen: usize, ex: &mut ChildExec) -> Sink {
    const ALPHA: [u8; 12] = [0x00, 0x01, 0x08, 0x0a, 0x10, 0x1a, 0x1d, 0x22, 0x28, 0x7f, 0x80, 0xff];
    let mut sink = Sink::default();
    let mut body: Vec<u8> = Vec::new();
    fn rec(body: &mut Vec<u8>, maxlen: usize, ex: &mut ChildExec, sink: &mut Sink) {
        let f = refpb::frame(body);
        let op = format!("dec {}", hex(&f));
        let imp = ex.exec(&op);
        sink.push(op, imp, "-".into());
        if body.len() == maxlen {
            return;
        }
        for a in ALPHA {
            body.push(a);
            rec(body, maxlen, ex, sink);
            body.pop();
        }
    }
    rec(&mut body, maxlen, ex, &mut sink);
    sink.add("child.hangs", ex.hangs as u64);
    sink.add("child.aborts", ex.aborts as u64);
    sink
}

/// C09 outbound: batches of blocks a peer can request at once, sizes around 1/3, 1/2 and 1x
/// the limit. Oracle: every frame <= 4 MiB + 4 (each single block fits in a frame).
pub fn pack_stream(seed: u64, cases: usize, ex: &mut ChildExec) -> Sink {
    let mut rng = Rng::new(seed);
    let mut sink = Sink::default();
    const MAX: usize = 4 * 1024 * 1024;
    // the largest data length whose single-block message is exactly MAX: body = n + 16
    let fit = MAX - 16;
    let mut batches: Vec<Vec<usize>> = vec![
        vec![fit], vec![fit, fit], vec![fit, 1], vec![1, fit], vec![MAX / 2, MAX / 2], vec![MAX / 2 - 16, MAX / 2 - 16],
        vec![MAX / 2 - 15, MAX / 2 - 16], vec![3 * 1024 * 1024, 3 * 1024 * 1024], vec![0], vec![0, 0, 0], vec![],
        vec![MAX / 3; 7], vec![1024; 5000],
    ];
    for _ in 0..cases {
        let n = 1 + rng.below(8);
        batches.push((0..n).map(|_| match rng.below(6) {
            0 => rng.below(100),
            1 => MAX / 3 + rng.below(2000) - 1000,
            2 => MAX / 2 + rng.below(64) - 32,
            3 => fit - rng.below(40),
            4 => rng.below(MAX / 4),
            _ => 1024 * rng.below(3000),
        }.min(fit)).collect());
    }
    for b in batches {
        let op = format!("pack {}", b.iter().map(|n| n.to_string()).collect::<Vec<_>>().join(","));
        let imp = ex.exec(&op);
        sink.count(&format!("pack.blocks-{}", b.len().min(9)));
        sink.add("pack.frames", imp.split(' ').count().saturating_sub(1) as u64);
        sink.push(op, imp, format!("@maxsize {}", MAX + 4));
    }
    sink.add("child.hangs", ex.hangs as u64);
    sink.add("child.aborts", ex.aborts as u64);
    sink
}
