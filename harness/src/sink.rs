//! Collects op / impl / oracle lines of one stream plus generator statistics.
use std::collections::BTreeMap;
use std::io::Write;

#[derive(Default)]
pub struct Sink {
    pub ops: Vec<String>,
    pub imp: Vec<String>,
    pub oracle: Vec<String>,
    pub stats: BTreeMap<String, u64>,
}

impl Sink {
    pub fn push(&mut self, op: String, imp: String, oracle: String) {
        debug_assert!(!op.contains('\n') && !imp.contains('\n'));
        self.ops.push(op);
        self.imp.push(imp);
        self.oracle.push(oracle);
    }

    pub fn count(&mut self, key: &str) {
        *self.stats.entry(key.to_string()).or_insert(0) += 1;
    }

    pub fn add(&mut self, key: &str, n: u64) {
        *self.stats.entry(key.to_string()).or_insert(0) += n;
    }

    pub fn write(&self, dir: &str, stream: &str) -> std::io::Result<()> {
        std::fs::create_dir_all(dir)?;
        for (ext, lines) in [("ops", &self.ops), ("impl", &self.imp), ("oracle", &self.oracle)] {
            let mut f = std::io::BufWriter::new(std::fs::File::create(format!("{dir}/{stream}.{ext}"))?);
            for l in lines {
                writeln!(f, "{}", l)?;
            }
            f.flush()?;
        }
        let mut f = std::fs::File::create(format!("{dir}/{stream}.stats.json"))?;
        let body: Vec<String> = self.stats.iter().map(|(k, v)| format!("  \"{}\": {}", k, v)).collect();
        writeln!(f, "{{\n{}\n}}", body.join(",\n"))?;
        Ok(())
    }
}
