//! Tier 2 scenario generator, runner and network-level monitors.
use std::collections::{BTreeMap, BTreeSet};

use crate::rng::Rng;
use crate::sim::Sim;
use crate::sink::Sink;

#[derive(Clone, Debug)]
pub struct SimCfg {
    pub max_nodes: usize,
    pub keys: u64,
    pub actions: usize,
    pub faults: bool,
    /// allow the virtual clock to jump while work is runnable (late acknowledgements, F13/F14 class)
    pub late_ack: bool,
    pub prefixes: bool,
    pub max_conns_per_pair: usize,
    /// multi-hop chain: nodes in a line, only the last one holds blocks, the others query
    pub chain: bool,
    /// some keys have contents larger than a yamux window (back-pressure on the senders' sinks)
    pub big: bool,
}

pub struct RunResult {
    pub violations: Vec<(String, String)>, // (property, text)
    pub late_ack: bool,
    pub trace: Vec<String>,
    pub stats: BTreeMap<String, u64>,
}

struct Query {
    node: usize,
    q: u64,
    k: u64,
    cancelled: bool,
}

fn quiesce(sim: &mut Sim, rng: &mut Rng, budget: &mut u64) -> bool {
    let mut since_tick = 0u64;
    loop {
        // a retry loop that does not settle in zero virtual time (e.g. stream negotiation that
        // keeps failing until START_SENDING_TIMEOUT): let virtual time pass
        since_tick += 1;
        if since_tick > sim.autotick_steps {
            since_tick = 0;
            sim.advance(1000);
        }
        let run = sim.runnable();
        let calls = sim.pending_calls();
        if run.is_empty() && calls.is_empty() {
            return true;
        }
        if *budget == 0 {
            return false;
        }
        *budget -= 1;
        let n = run.len() + calls.len();
        let pick = rng.below(n);
        if pick < run.len() {
            match run[pick] {
                (i, None) => sim.poll_swarm(i),
                (i, Some(t)) => sim.poll_task(i, t),
            }
        } else {
            let (i, seq) = calls[pick - run.len()];
            sim.complete_call(i, seq);
        }
        sim.steps += 1;
    }
}

/// Established connections between a and b, seen from both sides.
fn connected(sim: &Sim, a: usize, b: usize) -> bool {
    sim.nodes[a].conns.values().any(|p| *p == b) && sim.nodes[b].conns.values().any(|p| *p == a)
}

fn answered(sim: &Sim, node: usize, q: u64) -> bool {
    sim.nodes[node].events.iter().any(|e| e.starts_with(&format!("resp {q} ")))
}

fn protocol_of(prefix: &Option<String>) -> String {
    format!("{}/ipfs/bitswap/1.2.0", prefix.clone().unwrap_or_default())
}

/// C02: every uncancelled query whose block a connected (same-protocol) neighbour holds is answered.
fn stuck_queries(sim: &Sim, queries: &[Query]) -> Vec<String> {
    let mut out = vec![];
    for qu in queries {
        if qu.cancelled || answered(sim, qu.node, qu.q) || sim.nodes[qu.node].events.iter().any(|e| e == &format!("err {}", qu.q)) {
            continue;
        }
        for b in 0..sim.nodes.len() {
            if b != qu.node
                && connected(sim, qu.node, b)
                && protocol_of(&sim.nodes[b].prefix) == protocol_of(&sim.nodes[qu.node].prefix)
                && sim.nodes[b].content.contains_key(&qu.k)
                && client_knows(sim, qu.node, b)
            {
                out.push(format!("query {} of node {} for cid {} unanswered although connected node {} holds the block", qu.q, qu.node, qu.k, b));
            }
        }
    }
    out
}

/// Does node a's client still have a peer entry for b (last state line of its trace)?
fn client_knows(sim: &Sim, a: usize, b: usize) -> bool {
    let rec = sim.nodes[a].rec.lock().unwrap();
    let Some(last) = rec.imp.iter().rev().find(|l| l.contains(" ## ")) else { return false };
    let st = last.split(" ## ").nth(1).unwrap_or("");
    let p = st.split('|').find(|f| f.starts_with("P=")).unwrap_or("P=");
    p[2..].split(',').any(|e| e.split('[').next() == Some(&b.to_string()))
}

/// The late-acknowledgement class (findings F13 / F14), decided from a node's own trace: the
/// behaviour's acknowledgement timeout fired (a peer state `req:t:c` is consumed by a drain at
/// `now - t >= 1000`) for a connection that the swarm had not closed.
fn late_ack_in_trace(ops: &[String], imp: &[String]) -> bool {
    let mut now: u64 = 0;
    let mut closed: BTreeSet<String> = BTreeSet::new();
    let mut prev_state = String::new();
    for (o, i) in ops.iter().zip(imp.iter()) {
        let f: Vec<&str> = o.split(' ').collect();
        if f.len() >= 3 && f[1] == "tick" {
            now += f[2].parse::<u64>().unwrap_or(0);
        }
        if f.len() >= 4 && f[1] == "closed" {
            closed.insert(f[3].to_string());
        }
        if f.len() >= 2 && f[1] == "drain" {
            // peers that were waiting for an acknowledgement before this drain
            for e in field(&prev_state, "P=").split(',') {
                let Some((p, rest)) = e.split_once('[') else { continue };
                let parts: Vec<&str> = rest.split(';').collect();
                if parts.len() < 2 || !parts[1].starts_with("req:") {
                    continue;
                }
                let r: Vec<&str> = parts[1].split(':').collect();
                let (t, c) = (r[1].parse::<u64>().unwrap_or(0), r[2]);
                if now.saturating_sub(t) >= 1000 && !closed.contains(c) {
                    // was the timeout consumed (state changed away from this req)?
                    let after = i.split(" ## ").nth(1).unwrap_or("");
                    let still = field(after, "P=").split(',').any(|e2| e2.starts_with(&format!("{p}[")) && e2.contains(&format!(";{};", parts[1])));
                    if !still {
                        return true;
                    }
                }
            }
        }
        if let Some(st) = i.split(" ## ").nth(1) {
            prev_state = st.to_string();
        }
    }
    false
}

fn field<'a>(state: &'a str, key: &str) -> &'a str {
    state.split('|').find(|f| f.starts_with(key)).map(|f| &f[key.len()..]).unwrap_or("")
}

/// Handler-level C14 checks on one node's handler log.
fn handler_checks(sim: &Sim, i: usize, out: &mut Vec<(String, String)>) {
    let rec = sim.nodes[i].rec.lock().unwrap();
    // per connection: a new wantlist only after the outcome of the previous one is known
    let mut outstanding: BTreeMap<String, String> = BTreeMap::new();
    let mut substreams: BTreeMap<String, (u64, u64)> = BTreeMap::new(); // conn -> (wantlists that reached Sending, client substreams opened)
    for l in &rec.handler {
        let mut it = l.splitn(3, ' ');
        let c = it.next().unwrap_or("").to_string();
        let _p = it.next();
        let rest = it.next().unwrap_or("");
        if let Some(w) = rest.strip_prefix("in send-wantlist ") {
            if let Some(prev) = outstanding.get(&c) {
                out.push(("C14".into(), format!("node {i} {c}: wantlist {} handed to the connection while the outcome of {} is unknown", w.split(' ').next().unwrap_or(""), prev)));
            }
            outstanding.insert(c.clone(), w.split(' ').next().unwrap_or("").to_string());
        } else if rest == "out report ready" || rest.starts_with("out report failed") || rest.starts_with("close report failed") {
            outstanding.remove(&c);
        } else if rest.starts_with("out report sending") {
            substreams.entry(c.clone()).or_default().0 += 1;
        } else if rest.starts_with("in outbound-stream client") {
            substreams.entry(c.clone()).or_default().1 += 1;
        }
    }
    // every wantlist a connection accepted has an outcome once the timeouts (1 s to acknowledge,
    // 5 s to start sending) and a refresh period have passed, unless the connection is gone
    for (c, w) in &outstanding {
        let conn: u64 = c.strip_prefix("c=").and_then(|x| x.parse().ok()).unwrap_or(u64::MAX);
        if sim.nodes[i].conns.contains_key(&conn) {
            out.push(("C14".into(), format!("node {i} {c}: wantlist {w} was handed to the connection and, a refresh period later, has neither been sent nor been reported failed")));
        }
    }
    for (c, (sent, opened)) in substreams {
        if sent > opened {
            out.push(("C14".into(), format!("node {i} {c}: {sent} wantlists started sending on {opened} negotiated client streams (a stream was reused)")));
        }
    }
}

/// The event channels between the behaviour and the connection handlers, as `Model/ClientLink`
/// assumes them (libp2p-swarm's side of the contract), checked on one node's logs: per connection
/// the events the behaviour received from the handler are the events the handler returned, in
/// order, none twice, none invented (a prefix: the last ones may still be under way when the run
/// ends); and the wantlists a handler was given are wantlists the behaviour handed to that very
/// connection, in order (some may be dropped: the connection was closing).
fn channel_checks(sim: &Sim, i: usize, out: &mut Vec<(String, String)>, stats: &mut BTreeMap<String, u64>) {
    let rec = sim.nodes[i].rec.lock().unwrap();
    let mut emitted: BTreeMap<String, Vec<String>> = BTreeMap::new();
    let mut taken: BTreeMap<String, Vec<String>> = BTreeMap::new();
    for l in &rec.handler {
        let mut it = l.splitn(3, ' ');
        let c = it.next().unwrap_or("").trim_start_matches("c=").to_string();
        let _p = it.next();
        let rest = it.next().unwrap_or("");
        if let Some(r) = rest.strip_prefix("out report ").or_else(|| rest.strip_prefix("close report ")) {
            emitted.entry(c).or_default().push(format!("sending {r}"));
        } else if rest == "out closing" || rest == "close closing" {
            emitted.entry(c).or_default().push("closing".into());
        } else if let Some(w) = rest.strip_prefix("in send-wantlist ") {
            // "#k full=F entries=a,b!"
            let f: Vec<&str> = w.split(' ').collect();
            let full = f.get(1).copied().unwrap_or("").trim_start_matches("full=").to_string();
            let mut es: Vec<String> = f.get(2).copied().unwrap_or("").trim_start_matches("entries=").split(',').filter(|x| !x.is_empty()).map(|x| x.to_string()).collect();
            es.sort();
            taken.entry(c).or_default().push(format!("{full}|{}", es.join(",")));
        }
    }
    let mut received: BTreeMap<String, Vec<String>> = BTreeMap::new();
    let mut handed: BTreeMap<String, Vec<String>> = BTreeMap::new();
    for (o, im) in rec.ops.iter().zip(rec.imp.iter()) {
        let f: Vec<&str> = o.split(' ').collect();
        if f.len() == 5 && f[1] == "sending" {
            received.entry(f[3].to_string()).or_default().push(format!("sending {}", f[4]));
        } else if f.len() == 4 && f[1] == "closing" {
            received.entry(f[3].to_string()).or_default().push("closing".into());
        } else if f.len() >= 2 && f[1] == "drain" {
            let head = im.split(" ## ").next().unwrap_or("");
            for t in head.split(' ') {
                // send:p:c:F|U:wh=..:wb=..:cn=..
                let g: Vec<&str> = t.split(':').collect();
                if g.len() == 7 && g[0] == "send" {
                    let mut es: Vec<String> = vec![];
                    for (k, suffix) in [(4usize, ""), (5, ""), (6, "!")] {
                        let body = g[k].split('=').nth(1).unwrap_or("");
                        for e in body.split(|ch| ch == ',' || ch == '+').filter(|x| !x.is_empty()) {
                            es.push(format!("{e}{suffix}"));
                        }
                    }
                    es.sort();
                    handed.entry(g[2].to_string()).or_default().push(format!("{}|{}", if g[3] == "F" { "1" } else { "0" }, es.join(",")));
                }
            }
        }
    }
    for (c, got) in &received {
        let sent = emitted.get(c).cloned().unwrap_or_default();
        *stats.entry("sim.channel.events-compared".into()).or_default() += got.len() as u64;
        if got.len() > sent.len() || got[..] != sent[..got.len()] {
            let k = got.iter().zip(sent.iter()).position(|(a, b)| a != b).unwrap_or(sent.len().min(got.len()));
            out.push(("C14".into(), format!("node {i} connection {c}: the behaviour received handler event #{k} `{}` but the handler returned `{}` at that position (events of one connection are lost, repeated or reordered)", got.get(k).cloned().unwrap_or("-".into()), sent.get(k).cloned().unwrap_or("nothing".into()))));
        }
    }
    for (c, tk) in &taken {
        let hd = handed.get(c).cloned().unwrap_or_default();
        *stats.entry("sim.channel.wantlists-compared".into()).or_default() += tk.len() as u64;
        // `tk` must be a subsequence of `hd`
        let mut j = 0;
        let mut ok = true;
        for t in tk {
            while j < hd.len() && &hd[j] != t {
                j += 1;
            }
            if j == hd.len() {
                ok = false;
                break;
            }
            j += 1;
        }
        if !ok {
            out.push(("C14".into(), format!("node {i} connection {c}: the handler was given wantlists {tk:?} but the behaviour handed {hd:?} to this connection (a wantlist reached a connection it was not handed to, twice, or out of order)")));
        }
    }
}

/// Wantlists node a handed to connections of peer b (sender side, from the behaviour trace) and
/// the wantlists b received from a (receiver side).
fn wantlist_flows(sim: &Sim, a: usize, b: usize) -> (Vec<(String, u64)>, Vec<String>) {
    let ra = sim.nodes[a].rec.lock().unwrap();
    let mut handed = vec![];
    for l in ra.imp.iter() {
        let head = l.split(" ## ").next().unwrap_or("");
        for t in head.split(' ') {
            let f: Vec<&str> = t.split(':').collect();
            if f.len() >= 7 && f[0] == "send" && f[1] == b.to_string() {
                // canonical content: F/U + wh + wb + cn
                handed.push((format!("{}|{}|{}|{}", f[3], f[4], f[5], f[6]), f[2].parse().unwrap_or(0)));
            }
        }
    }
    let rb = sim.nodes[b].rec.lock().unwrap();
    let mut received = vec![];
    for o in rb.ops.iter() {
        let f: Vec<&str> = o.split(' ').collect();
        if f.len() == 7 && f[1] == "msg" && f[2] == a.to_string() && f[6] != "w=N" {
            received.push(f[6][2..].to_string());
        }
    }
    (handed, received)
}

/// Blocks (data ids) node a's server behaviour dispatched to peer b, the blocks b received from a,
/// and whether any connection between the two was closed during the run.
fn block_flows(sim: &Sim, a: usize, b: usize) -> (Vec<String>, Vec<String>, bool) {
    let ra = sim.nodes[a].rec.lock().unwrap();
    let mut dispatched = vec![];
    let tag = format!("blk:{b}:");
    for l in ra.imp.iter() {
        let head = l.split(" ## ").next().unwrap_or("");
        for t in head.split(' ') {
            if let Some(bs) = t.strip_prefix(&tag) {
                for e in bs.split('+').filter(|e| !e.is_empty()) {
                    dispatched.push(e.rsplit('.').next().unwrap_or("").to_string());
                }
            }
        }
    }
    let closed = ra.ops.iter().any(|o| {
        let f: Vec<&str> = o.split(' ').collect();
        f.len() >= 3 && f[1] == "closed" && f[2] == b.to_string()
    });
    drop(ra);
    let rb = sim.nodes[b].rec.lock().unwrap();
    let mut received = vec![];
    for o in rb.ops.iter() {
        let f: Vec<&str> = o.split(' ').collect();
        if f.len() == 7 && f[1] == "msg" && f[2] == a.to_string() {
            for e in f[5].trim_start_matches("b=").split(',').filter(|e| !e.is_empty()) {
                received.push(e.rsplit(':').next().unwrap_or("").to_string());
            }
        }
    }
    let closed = closed || rb.ops.iter().any(|o| {
        let f: Vec<&str> = o.split(' ').collect();
        f.len() >= 3 && f[1] == "closed" && f[2] == a.to_string()
    });
    (dispatched, received, closed)
}

/// Is the received sequence an interleaving of subsequences of the per-connection handed lists
/// (each handed wantlist used at most once, order kept within a connection)?
fn interleaving_exists<T: PartialEq>(hc: &[T], lists: &[Vec<usize>], rcs: &[T]) -> bool {
    fn go<T: PartialEq>(hc: &[T], lists: &[Vec<usize>], rcs: &[T], i: usize, pos: &mut Vec<usize>, seen: &mut std::collections::HashSet<(usize, Vec<usize>)>) -> bool {
        if i == rcs.len() {
            return true;
        }
        if !seen.insert((i, pos.clone())) {
            return false;
        }
        for c in 0..lists.len() {
            // earliest match on this connection at or after its position
            if let Some(off) = lists[c][pos[c]..].iter().position(|&h| hc[h] == rcs[i]) {
                let old = pos[c];
                pos[c] = old + off + 1;
                if go(hc, lists, rcs, i + 1, pos, seen) {
                    return true;
                }
                pos[c] = old;
            }
        }
        false
    }
    let mut pos = vec![0usize; lists.len()];
    go(hc, lists, rcs, 0, &mut pos, &mut Default::default())
}

/// canonical form of a received wantlist `F/k,k!,..` comparable with the sender's `F|wh=|wb=|cn=`:
/// (full flag, sorted wanted keys, sorted cancelled keys)
fn canon_received(w: &str) -> (bool, Vec<String>, Vec<String>) {
    let (f, es) = w.split_once('/').unwrap_or(("0", ""));
    let mut wants = vec![];
    let mut cancels = vec![];
    for e in es.split(',').filter(|e| !e.is_empty()) {
        if let Some(k) = e.strip_suffix('!') {
            cancels.push(k.to_string());
        } else {
            wants.push(e.to_string());
        }
    }
    wants.sort();
    cancels.sort();
    (f == "1", wants, cancels)
}

fn canon_handed(w: &str) -> (bool, Vec<String>, Vec<String>) {
    let f: Vec<&str> = w.split('|').collect();
    let list = |s: &str| -> Vec<String> { s.split('=').nth(1).unwrap_or("").split('+').filter(|x| !x.is_empty()).map(|x| x.to_string()).collect() };
    let mut wants = list(f.get(1).unwrap_or(&""));
    wants.extend(list(f.get(2).unwrap_or(&"")));
    wants.sort();
    let mut cancels = list(f.get(3).unwrap_or(&""));
    cancels.sort();
    (f.first() == Some(&"F"), wants, cancels)
}

pub fn run_one(seed: u64, cfg: &SimCfg) -> RunResult {
    let mut rng = Rng::new(seed);
    let mut stats: BTreeMap<String, u64> = BTreeMap::new();
    let mut count = |k: &str| *stats.entry(k.to_string()).or_insert(0) += 1;
    let n = 2 + rng.below(cfg.max_nodes - 1);
    let prefixes: Vec<Option<String>> = (0..n)
        .map(|_| if cfg.prefixes { rng.pick(&[None, Some("/a".to_string()), Some("/b".to_string()), Some("/a".to_string())]).clone() } else { None })
        .collect();
    let sdh = rng.chance(3, 4);
    let mut sim = Sim::new(n, &prefixes, sdh, if cfg.big { 92 } else { cfg.keys.max(8) });
    // the keys of this run: 0..keys, plus two keys with big contents
    let keyset: Vec<u64> = (0..cfg.keys).chain(if cfg.big { vec![90u64, 91] } else { vec![] }).collect();
    if cfg.prefixes {
        // failing stream negotiations retry in zero virtual time: keep such loops short
        sim.autotick_steps = 300;
    }
    // initial contents
    for &k in &keyset {
        for i in 0..n {
            if (cfg.chain && i == n - 1) || (!cfg.chain && rng.chance(1, 3)) {
                sim.nodes[i].content.insert(k, k * 100);
            }
        }
    }
    if cfg.chain {
        for i in 0..n - 1 {
            sim.dial(i, i + 1);
        }
    }
    let mut budget: u64 = 200_000;
    quiesce(&mut sim, &mut rng, &mut budget);
    let mut queries: Vec<Query> = vec![];
    let mut late_ack = false;
    let mut violations: Vec<(String, String)> = vec![];
    let mut pair_conns: BTreeMap<(usize, usize), usize> = BTreeMap::new();
    let mut actions = cfg.actions / 2 + rng.below(cfg.actions);
    while actions > 0 && budget > 0 {
        if rng.chance(1, 3) {
            actions -= 1;
            match rng.below(100) {
                0..=19 if !cfg.chain => {
                    let a = rng.below(n);
                    let b = rng.below(n);
                    let key = (a.min(b), a.max(b));
                    if a != b && *pair_conns.get(&key).unwrap_or(&0) < cfg.max_conns_per_pair {
                        *pair_conns.entry(key).or_insert(0) += 1;
                        sim.dial(a, b);
                        count("sim.dial");
                    }
                }
                0..=49 => {
                    // in a chain the querying nodes are all but the last
                    let a = if cfg.chain { rng.below(n - 1) } else { rng.below(n) };
                    let k = keyset[rng.below(keyset.len())];
                    sim.poll_swarm(a);
                    let q = sim.nodes[a].swarm.behaviour_mut().user_get(k, true);
                    let qn: u64 = crate::sim::qnum(&q).parse().unwrap_or(0);
                    queries.push(Query { node: a, q: qn, k, cancelled: false });
                    sim.nodes[a].flag.0.store(true, std::sync::atomic::Ordering::SeqCst);
                    sim.trace.push(format!("get node={a} k={k} q={qn}"));
                    count("sim.get");
                }
                50..=56 => {
                    if !queries.is_empty() {
                        let idx = rng.below(queries.len());
                        let (a, q) = (queries[idx].node, queries[idx].q);
                        sim.poll_swarm(a);
                        if !answered(&sim, a, q) {
                            sim.nodes[a].swarm.behaviour_mut().user_cancel(q);
                            queries[idx].cancelled = true;
                            sim.nodes[a].flag.0.store(true, std::sync::atomic::Ordering::SeqCst);
                            sim.trace.push(format!("cancel node={a} q={q}"));
                            count("sim.cancel");
                        }
                    }
                }
                57..=63 => {
                    // local eviction
                    let a = rng.below(n);
                    let keys: Vec<u64> = sim.nodes[a].content.keys().copied().collect();
                    if !keys.is_empty() {
                        let k = *rng.pick(&keys);
                        sim.nodes[a].content.remove(&k);
                        sim.trace.push(format!("evict node={a} k={k}"));
                        count("sim.evict");
                    }
                }
                64..=75 if cfg.faults => {
                    // close a connection from one side
                    let a = rng.below(n);
                    let conns: Vec<u64> = sim.nodes[a].conns.keys().copied().collect();
                    if !conns.is_empty() {
                        let c = *rng.pick(&conns);
                        sim.close(a, c);
                        count("sim.fault.close");
                    }
                }
                76..=83 if cfg.faults => {
                    // starve a connection task for a virtual interval
                    let a = rng.below(n);
                    if !sim.nodes[a].tasks.is_empty() {
                        let t = rng.below(sim.nodes[a].tasks.len());
                        let d = *rng.pick(&[1500u64, 6000, 40000]);
                        sim.nodes[a].tasks[t].frozen_until = sim.now_ms + d;
                        sim.trace.push(format!("freeze node={a} task={} for={d}", sim.nodes[a].tasks[t].id));
                        count("sim.fault.freeze");
                    }
                }
                _ => {
                    let ms = *rng.pick(&[5u64, 100, 900, 1000, 2000, 5000, 6000, 30000]);
                    if !cfg.late_ack {
                        // the clock only moves when nothing is runnable: acknowledgements are late
                        // only if the handler's own task is starved (decided from the trace afterwards)
                        quiesce(&mut sim, &mut rng, &mut budget);
                    }
                    sim.advance(ms);
                    count("sim.tick");
                }
            }
        } else {
            let run = sim.runnable();
            let calls = sim.pending_calls();
            let total = run.len() + calls.len();
            if total == 0 {
                continue;
            }
            budget -= 1;
            let pick = rng.below(total);
            if pick < run.len() {
                match run[pick] {
                    (i, None) => sim.poll_swarm(i),
                    (i, Some(t)) => sim.poll_task(i, t),
                }
            } else {
                let (i, seq) = calls[pick - run.len()];
                sim.complete_call(i, seq);
            }
            sim.steps += 1;
        }
    }
    // fault-free continuation
    for node in sim.nodes.iter_mut() {
        for t in node.tasks.iter_mut() {
            t.frozen_until = 0;
        }
    }
    if !quiesce(&mut sim, &mut rng, &mut budget) {
        violations.push(("HARNESS".into(), "run did not reach quiescence within the step budget".into()));
    }
    let stuck = stuck_queries(&sim, &queries);
    if !stuck.is_empty() {
        count("sim.needs-refresh");
    }
    // one wantlist refresh later
    let marks: Vec<usize> = sim.nodes.iter().map(|n| n.rec.lock().unwrap().ops.len()).collect();
    sim.advance(30_000);
    quiesce(&mut sim, &mut rng, &mut budget);
    sim.advance(1);
    quiesce(&mut sim, &mut rng, &mut budget);
    for s in stuck_queries(&sim, &queries) {
        violations.push(("C02".into(), s));
    }
    // C05: independently of faults every connected peer is sent a full wantlist once per refresh period
    for a in 0..n {
        for b in 0..n {
            if a == b || !connected(&sim, a, b) || !client_knows(&sim, a, b) || protocol_of(&sim.nodes[a].prefix) != protocol_of(&sim.nodes[b].prefix) {
                continue;
            }
            let rb = sim.nodes[b].rec.lock().unwrap();
            let got_full = rb.ops[marks[b].min(rb.ops.len())..].iter().any(|o| {
                let f: Vec<&str> = o.split(' ').collect();
                f.len() == 7 && f[1] == "msg" && f[2] == a.to_string() && f[6].starts_with("w=1/")
            });
            if !got_full {
                violations.push(("C05".into(), format!("a whole refresh period passed but node {b} received no full wantlist from node {a}, which is connected to it and serves it")));
            }
        }
    }
    // C14: handler-level protocol, delivery of every handed wantlist, agreement of records
    for i in 0..n {
        handler_checks(&sim, i, &mut violations);
        channel_checks(&sim, i, &mut violations, &mut stats);
    }
    for a in 0..n {
        for b in 0..n {
            if a == b {
                continue;
            }
            let same_proto = protocol_of(&sim.nodes[a].prefix) == protocol_of(&sim.nodes[b].prefix);
            let (handed, received) = wantlist_flows(&sim, a, b);
            if !same_proto {
                if !received.is_empty() {
                    violations.push(("C20".into(), format!("node {b} received {} wantlists from node {a} although their protocol names differ", received.len())));
                }
                continue;
            }
            // every received wantlist is one that was handed, none twice; wantlists handed to ONE
            // connection arrive in the order handed (different connections of a pair are independent
            // byte streams: their frames may overtake each other, which the next refresh heals)
            let hc: Vec<_> = handed.iter().map(|(w, _)| canon_handed(w)).collect();
            let rcs: Vec<_> = received.iter().map(|r| canon_received(r)).collect();
            let mut by_conn: BTreeMap<u64, Vec<usize>> = BTreeMap::new();
            for (idx, (_, c)) in handed.iter().enumerate() {
                by_conn.entry(*c).or_default().push(idx);
            }
            let lists: Vec<Vec<usize>> = by_conn.into_values().collect();
            if !interleaving_exists(&hc, &lists, &rcs) {
                // which kind: a frame nobody handed, a frame more often than handed, or order within one connection
                let mut left = hc.clone();
                let mut kind = None;
                for (r, rc) in received.iter().zip(rcs.iter()) {
                    match left.iter().position(|h| h == rc) {
                        Some(i) => {
                            left.remove(i);
                        }
                        None => {
                            kind = Some(if hc.iter().any(|h| h == rc) {
                                format!("node {b} received wantlist {r} from node {a} more often than it was handed to a connection")
                            } else {
                                format!("node {b} received wantlist {r} which node {a} never handed to a connection (truncated or merged)")
                            });
                            break;
                        }
                    }
                }
                violations.push(("C14".into(), kind.unwrap_or_else(|| format!("wantlists node {a} handed to one connection reached node {b} in another order ({} handed over {} connections, {} received)", hc.len(), lists.len(), rcs.len()))));
            }
            // agreement of records when nothing is in flight (after the refresh)
            if connected(&sim, a, b) && client_knows(&sim, a, b) {
                let sa = sim.nodes[a].rec.lock().unwrap().imp.iter().rev().find(|l| l.contains(" ## ")).cloned().unwrap_or_default();
                let sb = sim.nodes[b].rec.lock().unwrap().imp.iter().rev().find(|l| l.contains(" ## ")).cloned().unwrap_or_default();
                let wants: BTreeSet<String> = field(sa.split(" ## ").nth(1).unwrap_or(""), "W=").split('@').next().unwrap_or("").split('+').filter(|x| !x.is_empty()).map(|x| x.to_string()).collect();
                let sfield = field(sb.split(" ## ").nth(1).unwrap_or(""), "S=");
                let rec: BTreeSet<String> = sfield
                    .split(',')
                    .find(|e| e.split('[').next() == Some(&a.to_string()))
                    .map(|e| e.split('[').nth(1).unwrap_or("").trim_end_matches(']').split('+').filter(|x| !x.is_empty()).map(|x| x.to_string()).collect())
                    .unwrap_or_default();
                if wants != rec {
                    violations.push(("C14".into(), format!("nothing in flight after a refresh, yet node {b}'s record of node {a}'s wants {rec:?} differs from node {a}'s live wants {wants:?}")));
                }
            }
        }
    }
    // C20: every substream a node opens — for its client half and for its server half — is
    // negotiated under the node's own protocol name (configured prefix + /ipfs/bitswap/1.2.0)
    for i in 0..n {
        let want = protocol_of(&sim.nodes[i].prefix);
        let rec = sim.nodes[i].rec.lock().unwrap();
        if let Some(l) = rec.handler.iter().find(|l| l.contains(" out open-substream ") && l.rsplit(' ').next() != Some(want.as_str())) {
            violations.push(("C20".into(), format!("node {i} (protocol {want}) opened a substream under another protocol name: {l}")));
        }
    }
    // C06 / C07 at the network level: the blocks node a's server dispatched to peer b against the
    // blocks b received from a (data ids as multisets; with several connections the order is free)
    for a in 0..n {
        for b in 0..n {
            if a == b {
                continue;
            }
            let (dispatched, received, pair_closed) = block_flows(&sim, a, b);
            *stats.entry("sim.blocks.dispatched".into()).or_insert(0) += dispatched.len() as u64;
            *stats.entry("sim.blocks.received".into()).or_insert(0) += received.len() as u64;
            let mut left = dispatched.clone();
            for d in &received {
                match left.iter().position(|x| x == d) {
                    Some(i) => {
                        left.swap_remove(i);
                    }
                    None => {
                        violations.push(("C07".into(), format!("node {b} received block {d} from node {a} more often than node {a}'s server dispatched it to that peer ({} times)", dispatched.iter().filter(|x| *x == d).count())));
                        break;
                    }
                }
            }
            // two dispatches of one block may share a frame (the receiver keys blocks by CID), so
            // arrival is judged per block, not per dispatch
            let missing: BTreeSet<&String> = dispatched.iter().filter(|d| !received.contains(d)).collect();
            if !pair_closed && !missing.is_empty() {
                violations.push(("C06".into(), format!("node {a}'s server dispatched blocks {missing:?} to node {b} which never arrived although no connection between them was closed")));
            }
        }
    }
    // C05: a peer with a working connection keeps being served: the client still knows every peer
    // to which the swarm holds an established connection whose handler has not halted
    for a in 0..n {
        let halted: BTreeSet<u64> = sim.nodes[a].rec.lock().unwrap().handler.iter().filter(|l| l.ends_with(" halted")).filter_map(|l| l.split(' ').next().and_then(|c| c.strip_prefix("c=")).and_then(|c| c.parse().ok())).collect();
        for b in 0..n {
            if a == b || protocol_of(&sim.nodes[a].prefix) != protocol_of(&sim.nodes[b].prefix) {
                continue;
            }
            let live: Vec<u64> = sim.nodes[a].conns.iter().filter(|(c, p)| **p == b && !halted.contains(c)).map(|(c, _)| *c).collect();
            if !live.is_empty() && sim.nodes[b].conns.values().any(|p| *p == a) && !client_knows(&sim, a, b) {
                violations.push(("C05".into(), format!("node {a} holds working connections {live:?} to node {b} but its client no longer serves that peer (no wantlist updates, no refresh)")));
            }
        }
    }
    for (i, node) in sim.nodes.iter().enumerate() {
        if node.events.iter().any(|e| e == "livelock") {
            violations.push(("C08".into(), format!("node {i} swarm did not become idle")));
        }
        let rec = node.rec.lock().unwrap();
        if rec.ops.iter().any(|o| o.contains("ERROR")) {
            violations.push(("HARNESS".into(), format!("node {i}: input inside a poll burst")));
        }
    }
    for node in sim.nodes.iter() {
        let rec = node.rec.lock().unwrap();
        if late_ack_in_trace(&rec.ops, &rec.imp) {
            late_ack = true;
        }
    }
    if late_ack {
        for v in violations.iter_mut() {
            if !v.1.starts_with("late-ack") {
                v.1 = format!("late-ack: {}", v.1);
            }
        }
    }
    stats.insert("sim.steps".into(), sim.steps);
    stats.insert("sim.nodes".into(), n as u64);
    let mut trace = std::mem::take(&mut sim.trace);
    trace.insert(0, format!("seed={seed} nodes={n} prefixes={prefixes:?} sdh={sdh} late_ack={late_ack}"));
    // keep the per-node traces for the stream files
    let mut res = RunResult { violations, late_ack, trace, stats };
    for node in sim.nodes.iter() {
        let rec = node.rec.lock().unwrap();
        res.trace.push(format!("node {} ops={} handler-records={}", node.idx, rec.ops.len(), rec.handler.len()));
    }
    NODE_TRACES.with(|t| {
        let mut t = t.borrow_mut();
        t.clear();
        for node in sim.nodes.iter() {
            let rec = node.rec.lock().unwrap();
            t.push((rec.ops.clone(), rec.imp.clone(), rec.handler.clone(), rec.link.clone()));
        }
    });
    res
}

thread_local! {
    pub static NODE_TRACES: std::cell::RefCell<Vec<(Vec<String>, Vec<String>, Vec<String>, Vec<String>)>> = const { std::cell::RefCell::new(Vec::new()) };
}

/// The `sim` stream: `runs` simulated networks; per-node behaviour traces become node-stream
/// histories (replayed through the Lean model and monitors by bin/check), network-level monitor
/// results go to `<out>/<name>.net.json`.
pub fn sim_stream(seed: u64, runs: usize, cfg: SimCfg, out: &str, name: &str, run_seed_override: Option<u64>) -> Sink {
    let mut sink = Sink::default();
    let mut net = vec![];
    let mut hlog: Vec<String> = vec![];
    let mut llog: Vec<String> = vec![];
    for r in 0..runs {
        let run_seed = run_seed_override.unwrap_or(seed.wrapping_mul(1_000_003).wrapping_add(r as u64));
        NODE_TRACES.with(|t| t.borrow_mut().clear());
        let res = match std::panic::catch_unwind(|| run_one(run_seed, &cfg)) {
            Ok(res) => res,
            Err(e) => RunResult { violations: vec![("C08".into(), format!("panic in the simulated network: {}", crate::exec::panic_msg(e)))], late_ack: false, trace: vec![format!("seed={run_seed}")], stats: BTreeMap::new() },
        };
        for (k, v) in &res.stats {
            sink.add(k, *v);
        }
        sink.count("sim.runs");
        if res.late_ack {
            sink.count("sim.runs.late-ack");
        }
        let first_line = sink.ops.len();
        NODE_TRACES.with(|t| {
            for (node, (ops, imp, handler, link)) in t.borrow().iter().enumerate() {
                for l in link {
                    llog.push(format!("r={r} n={node} {l}"));
                }
                for (o, i) in ops.iter().zip(imp.iter()) {
                    sink.push(o.clone(), i.clone(), "-".into());
                }
                for h in handler {
                    hlog.push(format!("r={r} n={node} {h}"));
                }
            }
        });
        for (p, text) in &res.violations {
            net.push(format!(
                "{{\"property\": \"{}\", \"run\": {}, \"seed\": {}, \"late_ack\": {}, \"first_line\": {}, \"text\": {:?}, \"trace\": [{}]}}",
                p,
                r,
                run_seed,
                res.late_ack,
                first_line,
                text,
                res.trace.iter().take(400).map(|t| format!("{t:?}")).collect::<Vec<_>>().join(", ")
            ));
        }
    }
    std::fs::create_dir_all(out).ok();
    std::fs::write(format!("{out}/{name}.net.json"), format!("[{}]", net.join(",\n"))).expect("write net file");
    std::fs::write(format!("{out}/{name}.handler"), hlog.join("\n") + "\n").expect("write handler log");
    std::fs::write(format!("{out}/{name}.link"), llog.join("\n") + "\n").expect("write link log");
    sink.add("sim.handler-records", hlog.len() as u64);
    sink
}
